"""C15: saving and reloading a model reproduces the same function."""
import copy

import torch

from common import Check
from implutil import attempt, tgen
import catalogue


def extra_entries():
    from nflows.flows.autoregressive import MaskedAutoregressiveFlow
    from nflows.flows.realnvp import SimpleRealNVP
    from nflows.flows.base import Flow
    from nflows.distributions import normal, mixture
    from nflows.transforms import permutations as perm, base, conv, nonlinearities as nl, made, normalization as norm_, standard as std_, lu as lu_, coupling as cp_, linear as linear_
    from nflows.utils import torchutils as tu_
    from nflows.nn import nets as nets_
    return [
        ("MaskedAutoregressiveFlow(random masks, perms)", lambda: MaskedAutoregressiveFlow(4, 8, 2, 1, use_residual_blocks=False, use_random_masks=True, use_random_permutations=True, batch_norm_within_layers=True, batch_norm_between_layers=True), [4], None),
        ("SimpleRealNVP", lambda: SimpleRealNVP(4, 8, 2, 1, batch_norm_between_layers=True), [4], None),
        ("MADEMoG(random mask)", lambda: mixture.MADEMoG(3, 8, 2, num_blocks=1, num_mixture_components=2, use_residual_blocks=False, random_mask=True), [3], [2]),
        ("DiagonalNormal", lambda: normal.DiagonalNormal([3]), [3], None),
        ("Flow(RandomPermutation+1x1conv, StandardNormal)", lambda: Flow(base.CompositeTransform([perm.RandomPermutation(3), nl.LeakyReLU()]), normal.StandardNormal([3])), [3], None),
        ("Composite(ActNorm, LeakyReLU, ActNorm)", lambda: base.CompositeTransform([norm_.ActNorm(3), nl.LeakyReLU(0.2), norm_.ActNorm(3)]), [3], None),
        ("Flow(Composite(ActNorm, Affine), StandardNormal)", lambda: Flow(base.CompositeTransform([norm_.ActNorm(3), std_.PointwiseAffineTransform(0.3, 1.7)]), normal.StandardNormal([3])), [3], None),
        # masks drawn at construction (another seed draws another mask): the restored layer has to split the features as the SAVED one did
        ("AffineCoupling(random mask, 2 features)", lambda: cp_.AffineCouplingTransform(tu_.create_random_binary_mask(2), lambda i, o: nets_.ResidualNet(i, o, 4, num_blocks=1)), [2], None),
        ("AffineCoupling(random mask, 4 features)", lambda: cp_.AffineCouplingTransform(tu_.create_random_binary_mask(4), lambda i, o: nets_.ResidualNet(i, o, 4, num_blocks=1)), [4], None),
        ("PiecewiseRQCoupling(random mask, 4 features)", lambda: cp_.PiecewiseRationalQuadraticCouplingTransform(
            tu_.create_random_binary_mask(4), lambda i, o: nets_.ResidualNet(i, o, 4, num_blocks=1), num_bins=3, tails="linear", tail_bound=3.0), [4], None),
        ("ConditionalDiagonalNormal([2,3], Linear encoder)", lambda: normal.ConditionalDiagonalNormal([2, 3], context_encoder=torch.nn.Linear(3, 12)), [2, 3], [3]),
        ("ConditionalDiagonalNormal([4], MLP encoder)", lambda: normal.ConditionalDiagonalNormal([4], context_encoder=torch.nn.Sequential(torch.nn.Linear(2, 6), torch.nn.Tanh(), torch.nn.Linear(6, 8))), [4], [2]),
        ("Flow(ActNorm image, ConditionalDiagonalNormal([2,2,2], Linear encoder))", lambda: Flow(norm_.ActNorm(2), normal.ConditionalDiagonalNormal([2, 2, 2], context_encoder=torch.nn.Linear(3, 16))), [2, 2, 2], [3]),
        ("NaiveLinear(2 features, orthogonal initialisation)", lambda: linear_.NaiveLinear(2), [2], None),
        ("NaiveLinear(3 features, orthogonal initialisation)", lambda: linear_.NaiveLinear(3), [3], None),
        ("NaiveLinear(4 features, orthogonal initialisation)", lambda: linear_.NaiveLinear(4), [4], None),
        ("NaiveLinear(5 features, orthogonal initialisation)", lambda: linear_.NaiveLinear(5), [5], None),
        ("NaiveLinear(6 features, orthogonal initialisation)", lambda: linear_.NaiveLinear(6), [6], None),
        ("NaiveLinear(8 features, orthogonal initialisation)", lambda: linear_.NaiveLinear(8), [8], None),
        ("LULinear(5 features)", lambda: lu_.LULinear(5, identity_init=False), [5], None),
        ("OneByOneConvolution(4 channels)", lambda: conv.OneByOneConvolution(4, identity_init=False), [4, 2, 2], None),
        ("MADE(random mask)", None, None, None),
    ]


def evaluate(m, x, ctx):
    out = {}
    with torch.no_grad():
        if hasattr(m, "log_prob"):
            out["log_prob"] = m.log_prob(x, ctx) if ctx is not None else m.log_prob(x)
        else:
            y, lad = m(x, ctx)
            out["forward"], out["logabsdet"] = y, lad
            try:
                xr, li = m.inverse(y, ctx)
                out["inverse"] = xr
            except Exception:
                pass
    return out


def search(ck, tier, seed):
    items = [(e["name"], e["make"], e["shape"], e["ctx"], e) for e in catalogue.entries(tier)]
    for name, make, shape, ctx in extra_entries():
        if make is not None:
            items.append((name, make, shape, ctx, None))
    for name, make, shape, ctxs, e in items:
        for history in ("fresh", "trained", "data-init", "perturbed"):
            ck.case(("c15", name, history), nontrivial=True)
            ck.count(history)
            case = {"search": "reload", "entry": name, "history": history, "seed": seed}
            torch.manual_seed(seed)
            r = attempt(make)
            if r[0] != "ok":
                continue
            m = r[1]
            g = tgen(seed, "c15", name)
            dom_unit = e is not None and e["dom"] == "unit"
            x = torch.rand([5] + shape, generator=g) * 0.9 + 0.05 if dom_unit else torch.randn([5] + shape, generator=g)
            ctx = None if ctxs is None else torch.randn([5] + ctxs, generator=g)
            try:
                if history == "trained":
                    m.train()
                    opt = torch.optim.SGD(m.parameters(), lr=1e-2) if list(m.parameters()) else None
                    for _ in range(2):
                        if hasattr(m, "log_prob"):
                            loss = -(m.log_prob(x, ctx) if ctx is not None else m.log_prob(x)).mean()
                        else:
                            y, lad = m(x, ctx)
                            loss = (y ** 2).mean() - lad.mean()
                        if opt is not None and loss.requires_grad:
                            opt.zero_grad()
                            loss.backward()
                            opt.step()
                elif history == "perturbed":
                    # every floating-point parameter AND buffer moved away from what the constructor put there (a checkpoint may
                    # hold any values): scaled by 1 + 0.2 * noise, so signs and positivity are kept
                    with torch.no_grad():
                        for nm_, tn_ in m.state_dict(keep_vars=True).items():      # what a checkpoint holds (persistent entries only)
                            if tn_.dtype.is_floating_point and tn_.numel() > 0:
                                tn_.mul_(1.0 + 0.2 * torch.randn(tn_.shape, generator=g).clamp(-2, 2).to(tn_.dtype))
                elif history == "data-init":
                    m.train()
                    with torch.no_grad():
                        (m.log_prob(x, ctx) if ctx is not None else m.log_prob(x)) if hasattr(m, "log_prob") else m(x, ctx)
            except Exception:
                pass
            m.eval()
            ref = attempt(evaluate, m, x, ctx)
            if ref[0] != "ok":
                continue
            torch.manual_seed(seed + 7919)        # a different seed for the fresh instance
            m2 = make()
            sd = copy.deepcopy(m.state_dict())
            lr = attempt(m2.load_state_dict, sd, True)
            if lr[0] != "ok":
                ck.finding("reload:load_state_dict-fails:%s" % name, "%s (%s): %s %s" % (name, history, lr[1], lr[2]), case)
                continue
            m2.eval()
            got = attempt(evaluate, m2, x, ctx)
            if got[0] != "ok":
                ck.finding("reload:reloaded-model-fails:%s" % name, "%s (%s): %s %s" % (name, history, got[1], got[2]), case)
                continue
            for k, v in ref[1].items():
                v2 = got[1].get(k)
                same = v2 is not None and v.shape == v2.shape and bool(((v == v2) | (torch.isnan(v) & torch.isnan(v2))).all())
                if not same:
                    ck.finding("reload:different-function:%s" % name,
                               "%s (%s): %s differs after loading the state dict into a fresh instance built under another seed"
                               % (name, history, k), case)
                    break
            # the same tensors as a PLAIN dict (what is left of a state dict after {k: v.cpu()}, a key filter, safetensors ...: the
            # values without torch's _metadata): loading it gives the same function
            torch.manual_seed(seed + 15485863)
            m4 = attempt(make)
            if m4[0] == "ok":
                m4 = m4[1]
                plain = {k_: v_.detach().clone() for k_, v_ in m.state_dict().items()}
                l4 = attempt(m4.load_state_dict, plain, True)
                if l4[0] == "ok":
                    m4.eval()
                    got4 = attempt(evaluate, m4, x, ctx)
                    if got4[0] == "ok":
                        for k, v in ref[1].items():
                            v2 = got4[1].get(k)
                            if not (v2 is not None and v.shape == v2.shape and bool(((v == v2) | (torch.isnan(v) & torch.isnan(v2))).all())):
                                ck.finding("reload:different-function:plain-dict:%s" % name,
                                           "%s (%s): %s differs after loading the same tensors handed over as a plain dict (no _metadata)" % (name, history, k), case)
                                break
            # the same state dict loaded into an instance that has already been USED (evaluated in evaluation mode without
            # gradients, as a deployed model would be): whatever it memoised from its old parameters must not survive the load
            torch.manual_seed(seed + 104729)
            m3 = attempt(make)
            if m3[0] == "ok":
                m3 = m3[1]
                m3.eval()
                attempt(evaluate, m3, x, ctx)
                l3 = attempt(m3.load_state_dict, copy.deepcopy(sd), True)
                if l3[0] == "ok":
                    m3.eval()
                    got3 = attempt(evaluate, m3, x, ctx)
                    if got3[0] != "ok":
                        ck.finding("reload:reloaded-model-fails:%s" % name, "%s (%s, loaded into a used instance): %s %s" % (name, history, got3[1], got3[2]), case)
                    else:
                        for k, v in ref[1].items():
                            v2 = got3[1].get(k)
                            if not (v2 is not None and v.shape == v2.shape and bool(((v == v2) | (torch.isnan(v) & torch.isnan(v2))).all())):
                                ck.finding("reload:different-function:used-instance:%s" % name,
                                           "%s (%s): %s differs after loading the state dict into an instance that had been evaluated before" % (name, history, k), case)
                                break
            # ... and in TRAINING mode (what a freshly built instance is in) on another batch: a restored model continues where
            # the saved one stopped - data-dependent initialisation is not repeated, statistics continue from the saved values
            x2 = torch.rand([6] + shape, generator=g) * 0.9 + 0.05 if dom_unit else torch.randn([6] + shape, generator=g) * 1.3 + 0.2
            ctx2 = None if ctxs is None else torch.randn([6] + ctxs, generator=g)

            def train_eval(mm):
                mm.train()
                torch.manual_seed(seed + 13)
                with torch.no_grad():
                    if hasattr(mm, "log_prob"):
                        out = {"log_prob": mm.log_prob(x2, ctx2) if ctx2 is not None else mm.log_prob(x2)}
                    else:
                        y_, l_ = mm(x2, ctx2)
                        out = {"forward": y_, "logabsdet": l_}
                out["state"] = copy.deepcopy(mm.state_dict())
                return out
            ta, tb = attempt(train_eval, m), attempt(train_eval, m2)
            if ta[0] == "ok" and tb[0] != "ok":
                ck.finding("reload:reloaded-model-fails:%s" % name, "%s (%s, training mode): %s %s" % (name, history, tb[1], tb[2]), case)
            elif ta[0] == "ok":
                bad = None
                for k, v in ta[1].items():
                    v2 = tb[1][k]
                    if k == "state":
                        for kk in v:
                            if kk in v2 and v[kk].shape == v2[kk].shape and not bool(((v[kk] == v2[kk]) | (v[kk] != v[kk])).all()):
                                bad = "state entry %s after the call" % kk
                                break
                    elif not (v.shape == v2.shape and bool(((v == v2) | (torch.isnan(v) & torch.isnan(v2))).all())):
                        bad = k
                    if bad:
                        break
                if bad:
                    ck.finding("reload:different-function:training-mode:%s" % name,
                               "%s (%s): %s differs between the saved and the restored model on their next training-mode call" % (name, history, bad), case)
            # dynamic cross-check of the generated table: every parameter / buffer name of the instance is a registration row
            # (not compared name by name here; the set of state-dict keys must be identical on both instances)
            if set(m.state_dict().keys()) != set(m2.state_dict().keys()):
                ck.finding("reload:state-dict-keys-differ:%s" % name, "%s" % name, case)


def run(tier, seed):
    ck = Check("C15", tier, seed, areas=[], gen_groups=["Tables"])
    ck.rule = ("every catalogue transform plus flows / distributions with constructor-time randomness (random permutations, "
               "random masks, random degrees, 1x1-conv permutation, random spline parameters) x history before saving "
               "(fresh, two SGD steps, data-dependent initialisation, all floating-point parameters and buffers perturbed): state dict loaded strictly into a fresh instance built "
               "under a different seed (and into an instance that had been evaluated before), forward / inverse / log_prob compared "
               "bit-for-bit in evaluation mode and, on a further batch, in training mode together with the state afterwards; "
               "distinct by (entry, history)")
    ck.assumptions = ["torch's load_state_dict(strict=True) contract", "the translator's notion of a random source"]
    ck.build()
    ck.sample({"generated_table": "Gen/Tables.v attr_table"})
    search(ck, tier, seed)
    return ck.finish()


def replay(payload):
    print("replay:", payload.get("replay"))
    return 0
