"""C20: tensor and mask utilities obey their algebraic specifications."""
import itertools
import math

import torch

from common import Check, F, Z, f, z, p, ModelErr
from implutil import attempt, close, shapes_upto, iota, flat, rng, tgen

PYVALS = [-3, -1, 0, 1, 2, 3, 4, 5, 6, 7, 8, 12, 16, 1023, 1024, True, False, 1.0, 2.5, None, "2"]
TC = ["is_bool", "is_int", "is_positive_int", "is_nonnegative_int", "is_power_of_two"]


def model_call(ck, drv, cmd, *args):
    try:
        return ("ok", drv.call(cmd, *args))
    except ModelErr as e:
        return ("err", e.kind)


def same_outcome(m, i):
    if m[0] != i[0]:
        return False
    if m[0] == "err":
        return m[1] == i[1]
    return True


def run(tier, seed):
    ck = Check("C20", tier, seed, areas=["utils"], gen_groups=["Typechecks", "Utils"])
    ck.rule = ("exhaustive over small shapes/arguments (tensors filled with distinct integers so every index map is "
               "observable); a case is non-trivial when the call returns a value (not an argument error) and the "
               "tensor has more than one element; distinct by (function, shape, arguments)")
    ck.build()
    from nflows.utils import torchutils as tu, typechecks as tcs
    maxsize = 3 if tier == "quick" else 4
    if ck.have_driver("utils"):
        drv = ck.driver("utils")
        correspondence(ck, drv, tu, tcs, maxsize, seed)
    search(ck, tu, tcs, maxsize, seed)
    return ck.finish()


# ---------------------------------------------------------------- correspondence
def correspondence(ck, drv, tu, tcs, maxsize, seed):
    mm = []
    n = 0
    for i, name in enumerate(TC):
        for v in PYVALS:
            m = drv.call("tc", z(i), p(v))[0]
            im = bool(getattr(tcs, name)(v))
            n += 1
            ck.case(("tc", name, repr(v)))
            if bool(m) != im:
                mm.append({"fn": name, "arg": repr(v), "model": m, "impl": im})
    ck.correspondence("typechecks", n, mm)

    mm, n = [], 0
    for ln in range(0, 5):
        x = torch.arange(10, 10 + ln)
        for nv in [1, 2, 3, 4, 0, -1, True, 2.0, None]:
            m = model_call(ck, drv, "tile", Z(flat(x)), p(nv))
            im = attempt(tu.tile, x, nv)
            im2 = ("ok", [flat(im[1])]) if im[0] == "ok" else im[:2]
            n += 1
            ck.case(("tile", ln, repr(nv)), nontrivial=(im[0] == "ok" and ln > 1))
            if m != im2:
                mm.append({"fn": "tile", "x": flat(x), "n": repr(nv), "model": m, "impl": im2})
    # inputs of any shape: tile works on the flattened tensor
    for sh in shapes_upto(3, maxsize):
        x = iota(sh)
        for nv in (1, 2, 3):
            m = model_call(ck, drv, "tile", Z(flat(x)), p(nv))
            im = attempt(tu.tile, x, nv)
            im2 = ("ok", [flat(im[1])]) if im[0] == "ok" else im[:2]
            n += 1
            ck.case(("tile-nd", tuple(sh), nv), nontrivial=(im[0] == "ok" and len(sh) > 1))
            if m != im2:
                mm.append({"fn": "tile", "shape": list(sh), "n": nv, "model": m, "impl": im2})
    ck.sample({"fn": "tile", "x": [10, 11, 12], "n": 2, "impl": flat(tu.tile(torch.arange(10, 13), 2))})
    ck.correspondence("tile", n, mm)

    mm, n = [], 0
    for sh in shapes_upto(3, maxsize):
        x = iota(sh)
        for nv in [1, 2, 3, 0, True, 1.5]:
            m = model_call(ck, drv, "repeat_rows", Z(sh), Z(flat(x)), p(nv))
            im = attempt(tu.repeat_rows, x, nv)
            im2 = ("ok", [list(im[1].shape), flat(im[1])]) if im[0] == "ok" else im[:2]
            n += 1
            ck.case(("repeat_rows", tuple(sh), repr(nv)), nontrivial=(im[0] == "ok" and x.numel() > 1))
            if m != im2:
                mm.append({"fn": "repeat_rows", "shape": sh, "n": repr(nv), "model": m, "impl": im2})
        for k in [1, 2, 3, 4, 0, -1, True, 2.0]:
            m = model_call(ck, drv, "merge", Z(sh), Z(flat(x)), p(k))
            im = attempt(tu.merge_leading_dims, x, k)
            im2 = ("ok", [list(im[1].shape), flat(im[1])]) if im[0] == "ok" else im[:2]
            n += 1
            ck.case(("merge", tuple(sh), repr(k)), nontrivial=(im[0] == "ok" and x.numel() > 1))
            if m != im2:
                mm.append({"fn": "merge_leading_dims", "shape": sh, "k": repr(k), "model": m, "impl": im2})
        # split: every factorisation of the leading size, with and without -1, plus wrong ones
        lead = sh[0]
        cands = [[lead], [-1], [1, lead], [lead, 1], [-1, 1], [1, -1], [2, -1], [-1, 2], [2, 2], [3, -1], [lead + 1],
                 [-1, -1], [2, 3]]
        for s in cands:
            m = model_call(ck, drv, "split", Z(sh), Z(flat(x)), Z(s))
            im = attempt(tu.split_leading_dim, x, s)
            im2 = ("ok", [list(im[1].shape), flat(im[1])]) if im[0] == "ok" else im[:2]
            n += 1
            ck.case(("split", tuple(sh), tuple(s)), nontrivial=(im[0] == "ok" and x.numel() > 1))
            if m != im2:
                mm.append({"fn": "split_leading_dim", "shape": sh, "to": s, "model": m, "impl": im2})
    ck.correspondence("repeat_rows/merge/split", n, mm)

    mm, n = [], 0
    for sh in shapes_upto(3, maxsize):
        x = iota(sh, dtype=torch.float64)
        for k in [0, 1, 2, 3, -1, True, 1.0]:
            if isinstance(k, int) and not isinstance(k, bool) and k > len(sh):
                continue
            m = model_call(ck, drv, "sum_except_batch", Z(sh), F(flat(x)), p(k))
            im = attempt(tu.sum_except_batch, x, k)
            im2 = ("ok", [list(im[1].shape), flat(im[1])]) if im[0] == "ok" else im[:2]
            n += 1
            ck.case(("seb", tuple(sh), repr(k)), nontrivial=(im[0] == "ok" and x.numel() > 1))
            if m != im2:
                mm.append({"fn": "sum_except_batch", "shape": sh, "k": repr(k), "model": m, "impl": im2})
    ck.correspondence("sum_except_batch", n, mm)

    mm, n = [], 0
    r = rng(seed, "ss")
    for trial in range(150 if maxsize == 3 else 1500):
        K = r.randint(1, 8)
        locs = sorted({round(r.uniform(-4, 4), r.randint(1, 6)) for _ in range(K + 1)})
        if len(locs) < 2:
            continue
        xs = [locs[0], locs[-1]] + [r.choice(locs) for _ in range(2)] + [r.uniform(locs[0], locs[-1]) for _ in range(3)]
        xs += [math.nextafter(r.choice(locs[1:]), -math.inf), math.nextafter(r.choice(locs[:-1]), math.inf)]
        for x in xs:
            bl = torch.tensor(locs, dtype=torch.float64)
            idx = int(tu.searchsorted(bl, torch.tensor(x, dtype=torch.float64)))
            m = drv.call("searchsorted", F(locs), f(x))
            n += 1
            ck.case(("ss", tuple(locs), x))
            if m[0] != idx or m[1] != bl.tolist():
                mm.append({"fn": "searchsorted", "locs": locs, "x": x, "model": m, "impl": [idx, bl.tolist()]})
    ck.sample({"fn": "searchsorted", "locs": [0.0, 0.5, 1.0], "x": 1.0,
               "impl_idx": int(tu.searchsorted(torch.tensor([0.0, 0.5, 1.0]), torch.tensor(1.0)))})
    ck.correspondence("searchsorted", n, mm)

    mm, n = [], 0
    for x in [0.0, 1.0, -1.0, 8.0, -27.0, 1e-12, -1e-12, 1e12, 0.3, -2.5] + [r.uniform(-50, 50) for _ in range(40)]:
        m = drv.call("cbrt", f(x))[0]
        im = float(tu.cbrt(torch.tensor(x, dtype=torch.float64)))
        n += 1
        ck.case(("cbrt", x), nontrivial=(x != 0.0))
        if not close(m, im) and not (x == 0.0 and math.isnan(m) and math.isnan(im)):
            mm.append({"fn": "cbrt", "x": x, "model": m, "impl": im})
    for mv, b in [(1.0, 0.999), (10.0, 0.999), (0.5, 0.9), (100.0, 0.75), (3.0, 0.5), (7.0, 0.999)]:
        m = drv.call("temperature", f(torch.Tensor([mv]).item()), f(torch.Tensor([b]).item()))[0]
        im = float(tu.get_temperature(mv, b))
        n += 1
        ck.case(("temp", mv, b))
        if not close(m, im, tol=1e-5):  # implementation computes in float32
            mm.append({"fn": "get_temperature", "args": [mv, b], "model": m, "impl": im})
    ck.correspondence("cbrt/get_temperature", n, mm)

    mm, n = [], 0
    for feats in range(1, 12):
        for even in (True, False):
            m = drv.call("alt_mask", z(feats), z(int(even)))[0]
            im = tu.create_alternating_binary_mask(feats, even).tolist()
            n += 1
            ck.case(("alt", feats, even), nontrivial=feats > 1)
            if m != im:
                mm.append({"fn": "alternating", "features": feats, "even": even, "model": m, "impl": im})
        m = drv.call("mid_mask", z(feats))[0]
        im = tu.create_mid_split_binary_mask(feats).tolist()
        n += 1
        ck.case(("mid", feats), nontrivial=feats > 1)
        if m != im:
            mm.append({"fn": "mid_split", "features": feats, "model": m, "impl": im})
    ck.correspondence("masks", n, mm)


# ---------------------------------------------------------------- search on the implementation
def unchanged(before, after):
    return before.shape == after.shape and torch.equal(before, after)


def search(ck, tu, tcs, maxsize, seed):
    """Direct property checks on the real helpers (these produce the replayable failing inputs)."""
    r = rng(seed, "search")

    def mut(fn_name, args_before, args_after, case):
        for i, (b, a) in enumerate(zip(args_before, args_after)):
            if isinstance(b, torch.Tensor) and not unchanged(b, a):
                ck.finding("%s:mutates-argument-%d" % (fn_name, i),
                           "%s modified its argument %d in place (before %s, after %s)"
                           % (fn_name, i, flat(b)[:6], flat(a)[:6]),
                           {"search": "mutation", "fn": fn_name, "case": case})

    # tile
    for ln in range(1, 5):
        x = torch.arange(10, 10 + ln)
        for nr in (1, 2, 3):
            x0 = x.clone()
            out = tu.tile(x, nr)
            ck.case(("s-tile", ln, nr))
            mut("tile", [x0], [x], {"x": flat(x0), "n": nr})
            exp = [int(x0[i]) for i in range(ln) for _ in range(nr)]
            if flat(out) != exp:
                ck.finding("tile:copies-not-consecutive", "tile(%s,%d) = %s, expected %s" % (flat(x0), nr, flat(out), exp),
                           {"search": "tile", "x": flat(x0), "n": nr})
    for sh in shapes_upto(3, maxsize):
        x = iota(sh)
        for nr in (1, 2, 3):
            out = attempt(tu.tile, x, nr)
            ck.case(("s-tile-nd", tuple(sh), nr))
            exp = [v for v in flat(x) for _ in range(nr)]
            if out[0] != "ok" or flat(out[1]) != exp:
                ck.finding("tile:copies-not-consecutive", "tile(arange.reshape%s, %d) = %s, expected %s" % (
                    tuple(sh), nr, flat(out[1]) if out[0] == "ok" else out[1:], exp), {"search": "tile", "shape": list(sh), "n": nr})
    # repeat_rows / merge / split / sum_except_batch
    for sh in shapes_upto(3, maxsize):
        x = iota(sh)
        for nr in (1, 2, 3):
            x0 = x.clone()
            out = tu.repeat_rows(x, nr)
            ck.case(("s-rr", tuple(sh), nr))
            mut("repeat_rows", [x0], [x], {"shape": sh, "n": nr})
            ok = list(out.shape) == [sh[0] * nr] + sh[1:] and all(
                torch.equal(out[i * nr + j], x0[i]) for i in range(sh[0]) for j in range(nr))
            if not ok:
                ck.finding("repeat_rows:rows-not-consecutive", "repeat_rows on shape %s, n=%d: %s" % (sh, nr, flat(out)),
                           {"search": "repeat_rows", "shape": sh, "n": nr})
        for k in range(1, len(sh) + 1):
            x0 = x.clone()
            m = tu.merge_leading_dims(x, k)
            back = tu.split_leading_dim(m, sh[:k])
            ck.case(("s-ms", tuple(sh), k))
            mut("merge_leading_dims", [x0], [x], {"shape": sh, "k": k})
            if list(back.shape) != sh or not torch.equal(back, x0) or m.shape[0] != math.prod(sh[:k]):
                ck.finding("merge_split:not-inverse", "split(merge(x,%d)) != x for shape %s" % (k, sh),
                           {"search": "merge_split", "shape": sh, "k": k})
            # the shape argument is the caller's: a list handed in is still that list afterwards, and can be used again
            for mk_shape in (list, tuple):
                shp = mk_shape([1, sh[0]])
                keep = mk_shape(shp)
                ra = attempt(tu.split_leading_dim, x, shp)
                rb = attempt(tu.split_leading_dim, x, shp)
                if shp != keep:
                    ck.finding("split_leading_dim:mutates-argument-1", "split_leading_dim(x of shape %s, shape=%r) left its shape argument as %r" % (sh, keep, shp),
                               {"search": "mutation", "fn": "split_leading_dim", "shape": sh})
                    break
                if ra[0] != rb[0] or (ra[0] == "ok" and list(ra[1].shape) != list(rb[1].shape)):
                    ck.finding("split_leading_dim:second-call-differs", "two calls with the same %s shape object on x of shape %s: %s then %s"
                               % (mk_shape.__name__, sh, list(ra[1].shape) if ra[0] == "ok" else ra[1:], list(rb[1].shape) if rb[0] == "ok" else rb[1:]),
                               {"search": "mutation", "fn": "split_leading_dim", "shape": sh})
                    break
            s2 = tu.split_leading_dim(x, [1, sh[0]])
            if not torch.equal(tu.merge_leading_dims(s2, 2), x0):
                ck.finding("merge_split:not-inverse", "merge(split(x)) != x for shape %s" % (sh,),
                           {"search": "merge_split", "shape": sh, "k": 2})
        xf = iota(sh, dtype=torch.float64)
        for k in range(0, len(sh) + 1):
            x0 = xf.clone()
            out = tu.sum_except_batch(xf, k)
            ck.case(("s-seb", tuple(sh), k))
            mut("sum_except_batch", [x0], [xf], {"shape": sh, "k": k})
            exp = x0.reshape(sh[:k] + [-1]).sum(-1)
            if list(out.shape) != sh[:k] or not torch.equal(out, exp):
                ck.finding("sum_except_batch:wrong", "shape %s k=%d -> %s expected %s" % (sh, k, flat(out), flat(exp)),
                           {"search": "sum_except_batch", "shape": sh, "k": k})
    # searchsorted: half-open bins, last closed; no mutation; any magnitude / dtype
    for dtype in (torch.float64, torch.float32):
        for scale in (1.0, 3.0, 31.0, 32.0, 64.0, 1e3, 1e6):
            for K in (1, 2, 5):
                g = tgen(seed, "ss", K, scale)
                w = torch.rand(K, generator=g, dtype=torch.float64) + 0.05
                locs = torch.cat([torch.zeros(1, dtype=torch.float64), torch.cumsum(w, 0)])
                locs = (locs / locs[-1] * 2 - 1) * scale
                locs = locs.to(dtype)
                locs[0], locs[-1] = -scale, scale
                pts = torch.cat([locs, (locs[:-1] + locs[1:]) / 2,
                                 torch.nextafter(locs[1:], torch.tensor(-math.inf, dtype=dtype)),
                                 torch.nextafter(locs[:-1], torch.tensor(math.inf, dtype=dtype))])
                bl = locs[None, :].expand(pts.shape[0], -1).clone()
                bl0 = bl.clone()
                p0 = pts.clone()
                idx = tu.searchsorted(bl, pts)
                ck.case(("s-ss", str(dtype), scale, K))
                mut("searchsorted", [bl0, p0], [bl, pts], {"locs": locs.tolist(), "dtype": str(dtype)})
                for xi, k in zip(pts.tolist(), idx.tolist()):
                    ll = locs.tolist()
                    ok = 0 <= k < K and ll[k] <= xi and (xi < ll[k + 1] or (k == K - 1 and xi == ll[K]))
                    if not ok:
                        ck.finding("searchsorted:wrong-bin:%s" % ("last-edge" if xi == ll[K] else "interior"),
                                   "searchsorted(locs=%s, x=%r, %s) = %d" % (ll, xi, dtype, k),
                                   {"search": "searchsorted", "locs": ll, "x": xi, "dtype": str(dtype)})
    # cbrt / logabsdet
    # magnitudes over the whole floating-point range, both signs (the identity cbrt(x)**3 = x is relative, so tiny and huge
    # arguments count as much as ordinary ones)
    mags = [10.0 ** e_ for e_ in (-300, -200, -100, -60, -30, -20, -15, -13, -12, -11, -6, 6, 15, 30, 100, 200, 300)]
    for x in [0.0, 1.0, -1.0, 8.0, -27.0, 1e-9, -1e-9, 1e9, -1e9] + mags + [-m_ for m_ in mags] + [r.uniform(-100, 100) for _ in range(50)]:
        t = torch.tensor([x], dtype=torch.float64)
        t0 = t.clone()
        c = tu.cbrt(t)
        ck.case(("s-cbrt", x), nontrivial=x != 0)
        mut("cbrt", [t0], [t], {"x": x})
        cube = float(c ** 3)
        if x != 0.0 and (not math.isfinite(cube) or abs(cube - x) > 1e-12 * abs(x)):
            ck.finding("cbrt:cube-mismatch", "cbrt(%r)**3 = %r" % (x, cube), {"search": "cbrt", "x": x})
        if x == 0.0 and not (math.isnan(float(c)) or float(c) == 0.0):
            ck.finding("cbrt:zero", "cbrt(0) = %r" % float(c), {"search": "cbrt", "x": x})
    for n_ in (1, 2, 3, 4):
        for trial in range(6):
            g = tgen(seed, "lad", n_, trial)
            m = torch.randn(n_, n_, generator=g, dtype=torch.float64)
            if trial % 2:
                m[0] = -m[0]
            m0 = m.clone()
            out = float(tu.logabsdet(m))
            ck.case(("s-lad", n_, trial))
            mut("logabsdet", [m0], [m], {"n": n_, "trial": trial})
            exp = math.log(abs(float(torch.det(m0))))
            if not close(out, exp, tol=1e-9):
                ck.finding("logabsdet:wrong", "logabsdet=%r, log|det|=%r" % (out, exp),
                           {"search": "logabsdet", "m": m0.tolist()})
    # matrices whose determinant leaves the floating-point range although its logarithm is modest
    import numpy as _np
    for dtype, scales in ((torch.float64, (1e-120, 1e-12, 1e10, 1e80)), (torch.float32, (1e-12, 1e-4, 1e10))):
        for n_ in (2, 4, 6):
            for sc in scales:
                g = tgen(seed, "lad-scale", n_, sc)
                base = torch.randn(n_, n_, generator=g, dtype=torch.float64) + 2.0 * torch.eye(n_, dtype=torch.float64)
                m = (base * sc).to(dtype)
                m0 = m.clone()
                out = attempt(lambda: float(tu.logabsdet(m)))
                ck.case(("s-lad-scale", str(dtype), n_, sc), nontrivial=True)
                sign, ref = _np.linalg.slogdet(base.numpy())
                exp = float(ref) + n_ * math.log(sc)
                mut("logabsdet", [m0], [m], {"n": n_, "scale": sc})
                if out[0] != "ok" or not close(out[1], exp, tol=1e-9 if dtype == torch.float64 else 2e-4):
                    ck.finding("logabsdet:wrong", "%s %dx%d matrix with entries of size %g: logabsdet=%r, log|det|=%r"
                               % (dtype, n_, n_, sc, out[1] if out[0] == "ok" else out[1:], exp),
                               {"search": "logabsdet-scale", "n": n_, "scale": sc, "dtype": str(dtype), "base": base.tolist()})
    for n_ in (64, 128):
        torch.manual_seed(seed + n_)
        q = tu.random_orthogonal(n_)
        m = (3.0 * q).float()
        ck.case(("s-lad-orth", n_), nontrivial=True)
        out = attempt(lambda: float(tu.logabsdet(m)))
        exp = n_ * math.log(3.0)
        if out[0] != "ok" or not close(out[1], exp, tol=1e-3):
            ck.finding("logabsdet:wrong", "float32 3 * orthogonal(%d): logabsdet=%r, log|det|=%r" % (n_, out[1] if out[0] == "ok" else out[1:], exp),
                       {"search": "logabsdet-orthogonal", "n": n_, "seed": seed})
    # masks
    for feats in range(1, 14):
        for even in (True, False):
            m = tu.create_alternating_binary_mask(feats, even).tolist()
            exp = [1 if (i % 2 == 0) == even else 0 for i in range(feats)]
            ck.case(("s-alt", feats, even))
            if m != exp:
                ck.finding("alternating_mask:pattern", "features=%d even=%s -> %s" % (feats, even, m),
                           {"search": "alt_mask", "features": feats, "even": even})
        m = tu.create_mid_split_binary_mask(feats).tolist()
        half = (feats + 1) // 2
        ck.case(("s-mid", feats))
        if m != [1] * half + [0] * (feats - half):
            ck.finding("mid_split_mask:pattern", "features=%d -> %s" % (feats, m), {"search": "mid_mask", "features": feats})
        for trial in range(3):
            torch.manual_seed(seed + feats * 7 + trial)
            r = attempt(tu.create_random_binary_mask, feats)
            ck.case(("s-rnd", feats, trial))
            if r[0] != "ok":
                ck.finding("random_mask:raises", "create_random_binary_mask(%d) raised %s: %s" % (feats, r[1], r[2]),
                           {"search": "random_mask", "features": feats})
                continue
            m = r[1].tolist()
            if sum(m) != half or set(m) - {0, 1} or len(m) != feats:
                ck.finding("random_mask:count", "features=%d -> %s (expected %d ones)" % (feats, m, half),
                           {"search": "random_mask", "features": feats, "seed": seed + feats * 7 + trial})
    # constructors hand out FRESH tensors: what a caller does to a returned mask or tensor in place is invisible to the next call
    ctors = [("create_alternating_binary_mask(%d, even=%s)" % (n_, ev_), (lambda n_=n_, ev_=ev_: tu.create_alternating_binary_mask(n_, even=ev_)))
             for n_ in (1, 2, 5, 6) for ev_ in (True, False)]
    ctors += [("create_mid_split_binary_mask(%d)" % n_, (lambda n_=n_: tu.create_mid_split_binary_mask(n_))) for n_ in (2, 5, 6)]
    ctors += [("get_num_parameters/tensor2numpy round", (lambda: torch.as_tensor(tu.tensor2numpy(torch.arange(4.0)))))]
    ctors += [("tile(arange(3), 2)", (lambda: tu.tile(torch.arange(3.0), 2))), ("repeat_rows(ones(2,2), 3)", (lambda: tu.repeat_rows(torch.ones(2, 2), 3))),
              ("split_leading_dim(arange(6), [2,3])", (lambda: tu.split_leading_dim(torch.arange(6.0), [2, 3]))),
              ("logabsdet(eye(3))", (lambda: tu.logabsdet(torch.eye(3)))), ("cbrt(tensor(8.))", (lambda: tu.cbrt(torch.tensor(8.0))))]
    for cname, mkc in ctors:
        ck.case(("s-fresh", cname))
        a = attempt(mkc)
        if a[0] != "ok" or not torch.is_tensor(a[1]):
            continue
        want = a[1].clone()
        try:
            a[1].zero_() if a[1].dtype != torch.bool else a[1].fill_(False)
            a[1].add_(1) if a[1].dtype != torch.bool else None
        except RuntimeError:
            continue
        b = attempt(mkc)
        if b[0] != "ok" or b[1].shape != want.shape or not torch.equal(b[1], want) or b[1].data_ptr() == a[1].data_ptr():
            ck.finding("constructor:returns-shared-tensor", "%s: after the first result was overwritten in place the next call returns %s (first call: %s)"
                       % (cname, flat(b[1]) if b[0] == "ok" else b[1:], flat(want)), {"search": "fresh-result", "call": cname})
    # type predicates: the usual values, then integers of every size (python ints are unbounded: a float detour stops being exact at 2**53)
    bigs = []
    for e_ in (10, 24, 31, 32, 49, 52, 53, 54, 62, 63, 64, 65, 100, 200):
        bigs += [2 ** e_, 2 ** e_ - 1, 2 ** e_ + 1, 2 ** e_ + 2 ** (e_ // 2), 3 * 2 ** e_]
    # ... and objects that are not ints but compare equal to ints (0.0, -0.0, 0j, Fraction, numpy / torch scalars)
    import fractions
    import numpy as _np
    alike = [0.0, -0.0, 0j, 1 + 0j, fractions.Fraction(0), fractions.Fraction(4, 2), _np.float64(0), _np.float32(2.0), _np.int64(0), _np.int64(4),
             _np.array(0), _np.array(8), torch.tensor(0), torch.tensor(4), torch.tensor(0.0), torch.tensor(True), _np.bool_(True), "0", b"\x00", [], (0,)]
    for v in list(PYVALS) + bigs + [-b_ for b_ in bigs[:10]] + alike:
        ck.case(("s-tc", repr(v)))
        isint = isinstance(v, int)
        exp = {"is_bool": isinstance(v, bool), "is_int": isint, "is_positive_int": isint and v > 0,
               "is_nonnegative_int": isint and v >= 0,
               "is_power_of_two": isint and v > 0 and (int(v) & (int(v) - 1)) == 0}
        for name, e in exp.items():
            got = attempt(getattr(tcs, name), v)
            if got[0] != "ok" or bool(got[1]) != e:
                ck.finding("typechecks:%s" % name, "%s(%r) = %r, expected %r" % (name, v, got, e),
                           {"search": "typecheck", "fn": name, "arg": repr(v)})
    # sum_except_batch on non-floating tensors (masks are uint8, indicators bool): the exact integer sums
    for dt, mkx in ((torch.bool, lambda: torch.tensor([[True, True, False, True], [False, True, False, False]])),
                    (torch.uint8, lambda: torch.ones(2, 600, dtype=torch.uint8)),
                    (torch.uint8, lambda: torch.ones(3, 2, 200, dtype=torch.uint8)),
                    (torch.int8, lambda: torch.full((2, 50), 5, dtype=torch.int8)),
                    (torch.int32, lambda: torch.tensor([[2 ** 30, 2 ** 30, 5], [1, 2, 3]], dtype=torch.int32)),
                    (torch.int64, lambda: torch.arange(12).reshape(2, 2, 3))):
        xi = mkx()
        ck.case(("s-seb-int", str(dt), tuple(xi.shape)))
        r = attempt(tu.sum_except_batch, xi)
        want = xi.to(torch.int64).reshape(xi.shape[0], -1).sum(1)
        if r[0] != "ok" or r[1].shape != want.shape or not torch.equal(r[1].to(torch.int64), want):
            ck.finding("sum_except_batch:wrong:integer-input", "%s input of shape %s -> %s, exact row sums %s"
                       % (dt, list(xi.shape), flat(r[1]) if r[0] == "ok" else r[1:], want.tolist()), {"search": "sum_except_batch-int", "dtype": str(dt), "shape": list(xi.shape)})
    # the caller of the predicates: a batch-dimension count that is not a non-negative int is refused with the documented TypeError
    for k in (0.0, -0.0, 1.0, torch.tensor(0), torch.tensor(1), _np.float64(0), _np.array(1), fractions.Fraction(0), None, "1", -1):
        ck.case(("s-seb-type", repr(k)))
        r = attempt(tu.sum_except_batch, torch.ones(2, 3), k)
        if not (r[0] == "err" and r[1] == "TypeError" and "non-negative integer" in str(r[2])):
            ck.finding("sum_except_batch:accepts-non-int", "sum_except_batch(ones(2,3), %r) -> %s" % (k, (r[1:] if r[0] == "err" else flat(r[1]))),
                       {"search": "sum_except_batch-type", "k": repr(k)})
    # get_temperature: sigmoid(T * max) = bound when T < 1
    for mv, b in [(10.0, 0.999), (100.0, 0.75), (7.0, 0.999), (20.0, 0.9)]:
        t = float(tu.get_temperature(mv, b))
        ck.case(("s-temp", mv, b))
        if t < 1 and not close(1 / (1 + math.exp(-t * mv)), b, tol=1e-5):
            ck.finding("get_temperature:wrong", "T=%r for max=%r bound=%r" % (t, mv, b),
                       {"search": "temperature", "max": mv, "bound": b})


def replay(payload):
    from nflows.utils import torchutils as tu
    rp = payload.get("replay", {})
    print("replaying", json_short(rp))
    if rp.get("search") == "searchsorted":
        dt = torch.float32 if "32" in rp["dtype"] else torch.float64
        bl = torch.tensor([rp["locs"]], dtype=dt)
        before = bl.clone()
        idx = tu.searchsorted(bl, torch.tensor([rp["x"]], dtype=dt))
        print("implementation: idx =", idx.tolist(), "argument changed:", not torch.equal(before, bl))
    elif rp.get("search") == "mutation":
        print("call %s with %s and compare the argument tensors before/after" % (rp["fn"], rp["case"]))
    else:
        print("see payload")
    return 0


def json_short(o):
    import json
    return json.dumps(o, default=str)[:400]
