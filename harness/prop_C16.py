"""C16: log_prob and transforms are differentiable with correct gradients."""
import math

import torch

from common import Check
from implutil import attempt, tgen
import catalogue


def scalar_objective(t, x, ctx, w1, w2):
    y, lad = t(x, ctx)
    return (y * w1).sum() + (lad * w2).sum()


def fd_check(f, tensor, idxs, h=1e-6):
    """central finite differences of scalar function f() with respect to selected entries of `tensor` (in place)"""
    out = []
    flat = tensor.data.view(-1)
    for i in idxs:
        old = float(flat[i])
        flat[i] = old + h
        fp = float(f())
        flat[i] = old - h
        fm = float(f())
        flat[i] = old
        out.append((fp - fm) / (2 * h))
    return out


def search(ck, tier, seed):
    for e in catalogue.entries(tier):
        for mode in (("eval",) if tier == "quick" else ("eval", "train")):
            if mode == "train" and ("BatchNorm" in e["name"]):
                continue
            t = attempt(catalogue.build, e, seed, torch.float64, mode == "train")
            if t[0] != "ok":
                continue
            t = t[1]
            x0, ctx0 = catalogue.sample_inputs(e, 3, seed + 31)
            for direction in ("forward", "inverse"):
                g = tgen(seed, "c16", e["name"])
                ck.case(("c16", e["name"], mode, direction), nontrivial=True)
                ck.count(mode + "/" + direction)
                case = {"search": "gradients", "entry": e["name"], "mode": mode, "direction": direction, "seed": seed}
                fn = t if direction == "forward" else t.inverse
                x = x0
                if direction == "inverse":
                    if mode == "train":
                        continue
                    with torch.no_grad():
                        r0 = attempt(t, x0, ctx0)
                    if r0[0] != "ok":
                        continue
                    x = r0[1][0].detach().contiguous()
                x = x.contiguous().clone().requires_grad_(True)
                ctx = None if ctx0 is None else ctx0.clone().requires_grad_(True)
                r = attempt(fn, x, ctx)
                if r[0] != "ok":
                    continue
                y, lad = r[1]
                w1 = torch.randn(y.shape, generator=g, dtype=torch.float64)
                w2 = torch.randn(lad.shape, generator=g, dtype=torch.float64)
                params = [p for p in t.parameters() if p.requires_grad]
                obj = (y * w1).sum() + (lad * w2).sum()
                gr = attempt(torch.autograd.grad, obj, [x] + ([ctx] if ctx is not None else []) + params, allow_unused=True)
                if gr[0] != "ok":
                    ck.finding("gradient:backward-fails:%s:%s" % (e["name"], direction), "%s (%s): %s %s" % (e["name"], mode, gr[1], gr[2]), case)
                    continue
                grads = gr[1]
                names = ["input"] + (["context"] if ctx is not None else []) + ["param%d" % i for i in range(len(params))]
                tensors = [x] + ([ctx] if ctx is not None else []) + params
                for nm, tn, gv in zip(names, tensors, grads):
                    if gv is not None and not bool(torch.isfinite(gv).all()):
                        ck.finding("gradient:non-finite:%s:%s" % (e["name"], direction), "%s (%s): gradient w.r.t. %s is not finite" % (e["name"], mode, nm), case)
                if mode == "train":
                    continue   # finite differences only in evaluation mode (no batch-statistics side effects)
                for mod in t.modules():
                    if hasattr(mod, "use_cache"):
                        mod.use_cache(False)     # finite differences perturb parameters in evaluation mode (outside C10's alphabet)
                with torch.no_grad():
                    def f():
                        yy, ll = fn(x.detach(), None if ctx is None else ctx.detach())
                        return (yy * w1).sum() + (ll * w2).sum()
                    for nm, tn, gv in zip(names, tensors, grads):
                        n = tn.numel()
                        if n == 0:
                            continue
                        idxs = sorted({0, n // 2, n - 1})
                        fd = fd_check(f, tn, idxs)
                        gflat = None if gv is None else gv.reshape(-1)
                        for i, d in zip(idxs, fd):
                            a = 0.0 if gflat is None else float(gflat[i])
                            tol = (5e-2 if e["umnn"] else 2e-5) * (1 + abs(a) + abs(d))
                            if e["kinks"] and abs(a - d) > tol:
                                # re-test with a smaller step: a kink inside the stencil gives an FD artefact
                                d2 = fd_check(f, tn, [i], h=1e-8)[0]
                                if abs(a - d2) <= 1e-3 * (1 + abs(a) + abs(d2)):
                                    continue
                            if abs(a - d) > tol:
                                what = "missing" if gflat is None else "wrong"
                                if e["umnn"] and direction == "inverse":
                                    # UMNN inverts by 25 bisection steps built from comparisons: no derivative flows through it
                                    ck.finding("gradient:umnn-inverse-by-bisection:%s" % e["name"].split("(")[0],
                                               "%s inverse: d/d%s[%d]: autograd %r, finite difference %r" % (e["name"], nm, i, a, d), case)
                                    break
                                ck.finding("gradient:%s:%s:%s%s" % (what, e["name"], "input" if nm in ("input", "context") else "parameter",
                                                                         "" if direction == "forward" else ":inverse"),
                                           "%s (%s): d/d%s[%d]: autograd %r, finite difference %r" % (e["name"], direction, nm, i, a, d), case)
                                break
    # exact special inputs (0, +-1, +-0.5): random draws never hit them, but formulas evaluated on unselected branches
    # (0/0, 0 * inf under torch.where) poison the gradient there.  Finite outputs must come with finite gradients.
    for e in catalogue.entries(tier):
        if e["dom"] != "real" or e["umnn"]:
            continue
        t = attempt(catalogue.build, e, seed, torch.float64, False)
        if t[0] != "ok":
            continue
        t = t[1]
        x0, ctx0 = catalogue.sample_inputs(e, 2, seed + 33)
        vals = torch.tensor([0.0, 1.0, -1.0, 0.5, -0.5], dtype=torch.float64)
        xs = vals[torch.arange(x0.numel()) % 5].reshape(x0.shape)
        for direction in ("forward", "inverse"):
            fn = t if direction == "forward" else t.inverse
            x = xs.clone().requires_grad_(True)
            ck.case(("c16-special", e["name"], direction), nontrivial=True)
            case = {"search": "special-points", "entry": e["name"], "direction": direction}
            r = attempt(fn, x, ctx0)
            if r[0] != "ok":
                continue
            y, lad = r[1]
            if not (bool(torch.isfinite(y).all()) and bool(torch.isfinite(lad).all())):
                continue
            params = [p_ for p_ in t.parameters() if p_.requires_grad]
            gr = attempt(torch.autograd.grad, y.sum() + lad.sum(), [x] + params, allow_unused=True)
            if gr[0] != "ok":
                if "backward through the graph a second time" in str(gr[2]) and any(hasattr(m_, "cache") for m_ in t.modules()):
                    # the defect recorded under C10 (cache:double-backward): the cached matrix keeps its graph
                    ck.finding("gradient:second-backward-through-cached-weight",
                               "%s %s in evaluation mode with the cache on: %s" % (e["name"], direction, str(gr[2])[:120]), case)
                else:
                    ck.finding("gradient:backward-fails:%s:%s" % (e["name"], direction), "%s at exact inputs 0, +-1, +-0.5: %s %s" % (e["name"], gr[1], gr[2]), case)
                continue
            for k, gv in enumerate(gr[1]):
                if gv is not None and not bool(torch.isfinite(gv).all()):
                    bad = xs.reshape(-1)[~torch.isfinite(gv).reshape(-1)][:3].tolist() if k == 0 else None
                    ck.finding("gradient:non-finite-at-special-input:%s:%s" % (e["name"], direction),
                               "%s %s: finite outputs but non-finite gradient w.r.t. %s%s" % (
                                   e["name"], direction, "the input" if k == 0 else "parameter %d" % (k - 1),
                                   " at x = %s" % bad if bad else ""), case)
                    break
    # a training step (forward + backward, gradients enabled) followed by evaluation-mode back-propagation: statistics gathered
    # in training mode are constants of the evaluation-mode function and must not drag the old graph along
    from nflows.transforms import base as base_, lu as lu_, normalization as norm_
    from nflows.flows.realnvp import SimpleRealNVP
    def bn_models():
        torch.manual_seed(seed)
        yield "Composite(LULinear, BatchNorm)", base_.CompositeTransform([lu_.LULinear(3, identity_init=False), norm_.BatchNorm(3)]).double(), 3
        torch.manual_seed(seed)
        yield "SimpleRealNVP(batch norm between layers)", SimpleRealNVP(4, 8, 2, 1, batch_norm_between_layers=True).double(), 4
    for name, mdl, D in bn_models():
        g = tgen(seed, "c16bn", name)
        ck.case(("c16-train-then-eval", name), nontrivial=True)
        case = {"search": "train-then-eval", "model": name, "seed": seed}
        mdl.train()
        for _ in range(2):
            xb = torch.randn(16, D, generator=g, dtype=torch.float64)
            out = mdl.log_prob(xb) if hasattr(mdl, "log_prob") else sum(v.sum() for v in mdl(xb))
            attempt(lambda: (out.sum() if out.dim() else out).backward())
            mdl.zero_grad()
        mdl.eval()
        x = torch.randn(4, D, generator=g, dtype=torch.float64, requires_grad=True)

        def f(xx):
            return mdl.log_prob(xx).sum() if hasattr(mdl, "log_prob") else sum(v.sum() for v in mdl(xx))
        params = [p_ for p_ in mdl.parameters() if p_.requires_grad]
        gr = attempt(torch.autograd.grad, f(x), [x] + params, allow_unused=True)
        if gr[0] != "ok":
            ck.finding("gradient:eval-backward-fails-after-training-step:%s" % name, "%s: %s %s" % (name, gr[1], str(gr[2])[:160]), case)
            continue
        with torch.no_grad():
            for k, (tn, gv) in enumerate(zip([x] + params, gr[1])):
                i = tn.numel() // 2
                d = fd_check(lambda: f(x.detach()), tn, [i])[0]
                a = 0.0 if gv is None else float(gv.reshape(-1)[i])
                if abs(a - d) > 1e-4 * (1 + abs(a) + abs(d)):
                    ck.finding("gradient:eval-gradient-wrong-after-training-step:%s" % name,
                               "%s: tensor %d entry %d: autograd %r, finite difference %r" % (name, k, i, a, d), case)
                    break
    # training mode with the regularisers the constructors offer (dropout, batch norm inside the conditioner nets): the
    # dropout mask is pinned by re-seeding before every evaluation, which makes the training-mode function deterministic
    from nflows.transforms import autoregressive as ar_, coupling as cp_
    from nflows.nn import nets as nets_
    from nflows.distributions import mixture as mix_

    def reg_models():
        yield "MaskedAffineAR(residual, dropout 0.3)", lambda: ar_.MaskedAffineAutoregressiveTransform(3, 8, num_blocks=2, dropout_probability=0.3), [3], None
        yield "MaskedAffineAR(feed-forward, dropout 0.3, batch norm)", lambda: ar_.MaskedAffineAutoregressiveTransform(
            3, 8, num_blocks=2, use_residual_blocks=False, dropout_probability=0.3, use_batch_norm=True), [3], None
        yield "MaskedAffineAR(tanh, ctx, dropout 0.5)", lambda: ar_.MaskedAffineAutoregressiveTransform(
            3, 8, context_features=2, num_blocks=1, activation=torch.tanh, dropout_probability=0.5), [3], [2]
        yield "MaskedPiecewiseRQAR(dropout 0.3)", lambda: ar_.MaskedPiecewiseRationalQuadraticAutoregressiveTransform(
            3, 8, num_bins=3, tails="linear", tail_bound=3.0, num_blocks=1, dropout_probability=0.3), [3], None
        yield "AffineCoupling(ResidualNet dropout 0.3, batch norm)", lambda: cp_.AffineCouplingTransform(
            [1, 0, 1], lambda i, o: nets_.ResidualNet(i, o, 8, num_blocks=2, dropout_probability=0.3, use_batch_norm=True)), [3], None
        yield "AffineCoupling(ConvResidualNet dropout 0.3, batch norm)", lambda: cp_.AffineCouplingTransform(
            [1, 0, 1], lambda i, o: nets_.ConvResidualNet(i, o, 4, num_blocks=1, dropout_probability=0.3, use_batch_norm=True)), [3, 2, 2], None
        yield "MADEMoG(dropout 0.3)", lambda: mix_.MADEMoG(3, 8, 2, num_blocks=2, num_mixture_components=2, dropout_probability=0.3), [3], [2]
    for name, mk, shape, cshape in reg_models():
        torch.manual_seed(seed)
        made = attempt(lambda: mk().double())
        ck.case(("c16-regularised", name), nontrivial=True)
        case = {"search": "training-mode-regularisers", "model": name, "seed": seed}
        if made[0] != "ok":
            continue
        mdl = made[1]
        catalogue.randomize(mdl, seed + 5, 0.3)
        mdl.train()
        g = tgen(seed, "c16reg", name)
        x = torch.randn([6] + shape, generator=g, dtype=torch.float64, requires_grad=True)
        c = None if cshape is None else torch.randn([6] + cshape, generator=g, dtype=torch.float64, requires_grad=True)

        def f(xx, cc):
            torch.manual_seed(seed + 99)       # pins the dropout mask
            if hasattr(mdl, "log_prob"):
                return mdl.log_prob(xx, cc).sum()
            yy, ll = mdl(xx, cc)
            return (yy * yy).sum() * 0.5 + ll.sum()
        r = attempt(f, x, c)
        if r[0] != "ok":
            ck.finding("gradient:training-forward-fails:%s" % name, "%s %s" % (r[1], str(r[2])[:160]), case)
            continue
        params = [p_ for p_ in mdl.parameters() if p_.requires_grad]
        tensors = [x] + ([c] if c is not None else []) + params
        gr = attempt(torch.autograd.grad, r[1], tensors, allow_unused=True)
        if gr[0] != "ok":
            ck.finding("gradient:backward-fails:%s:training" % name, "%s in training mode: %s %s" % (name, gr[1], str(gr[2])[:200]), case)
            continue
        if all(gv is None or not bool(gv.abs().sum() > 0) for gv in gr[1][len(tensors) - len(params):]):
            ck.finding("gradient:missing:%s:parameter:training" % name, "%s: no parameter received a gradient in training mode" % name, case)
            continue
        with torch.no_grad():
            for k, (tn, gv) in enumerate(zip(tensors, gr[1])):
                if tn.numel() == 0:
                    continue
                i = tn.numel() // 2
                d = fd_check(lambda: f(x.detach(), None if c is None else c.detach()), tn, [i])[0]
                a = 0.0 if gv is None else float(gv.reshape(-1)[i])
                if abs(a - d) > 1e-4 * (1 + abs(a) + abs(d)):
                    d2 = fd_check(lambda: f(x.detach(), None if c is None else c.detach()), tn, [i], h=1e-8)[0]   # ReLU kink in the stencil
                    if abs(a - d2) <= 1e-3 * (1 + abs(a) + abs(d2)):
                        continue
                    ck.finding("gradient:wrong:%s:training" % name,
                               "%s (training mode, pinned dropout mask): tensor %d entry %d: autograd %r, finite difference %r" % (name, k, i, a, d), case)
                    break
    # parameters collected BEFORE the first training call (as an optimiser built right after construction holds them): the
    # data-dependent initialisation happens inside that call; the objects collected before it are still the model's parameters
    # afterwards and receive the gradient
    from nflows.transforms import normalization as norm2_, base as base2_, lu as lu2_
    from nflows.flows.base import Flow as Flow2_
    from nflows.distributions import normal as normal2_

    def first_call_models():
        yield "ActNorm", lambda: norm2_.ActNorm(3), [3]
        yield "ActNorm(image)", lambda: norm2_.ActNorm(2), [2, 2, 3]
        yield "Composite(ActNorm, LULinear, ActNorm)", lambda: base2_.CompositeTransform([norm2_.ActNorm(3), lu2_.LULinear(3, identity_init=False), norm2_.ActNorm(3)]), [3]
        yield "Flow(Composite(ActNorm, BatchNorm), StandardNormal)", lambda: Flow2_(base2_.CompositeTransform([norm2_.ActNorm(3), norm2_.BatchNorm(3)]), normal2_.StandardNormal([3])), [3]
    for name, mk, shape in first_call_models():
        torch.manual_seed(seed)
        mdl = mk().double().train()
        held = [(n_, p_) for n_, p_ in mdl.named_parameters()]
        g = tgen(seed, "c16first", name)
        x = torch.randn([8] + shape, generator=g, dtype=torch.float64) * 1.7 + 0.4
        ck.case(("c16-first-call", name), nontrivial=True)
        case = {"search": "parameters-held-before-first-call", "model": name, "seed": seed}
        out = attempt(lambda: mdl.log_prob(x).sum() if hasattr(mdl, "log_prob") else sum((v * v).sum() for v in mdl(x)))
        if out[0] != "ok":
            continue
        now = dict(mdl.named_parameters())
        replaced = [n_ for n_, p_ in held if now.get(n_) is not p_]
        if replaced:
            ck.finding("gradient:parameters-replaced-by-first-call:%s" % name,
                       "%s: after the first training-mode call %s are NEW parameter objects; the ones collected before it are no longer part of the model"
                       % (name, replaced), case)
            continue
        gr = attempt(torch.autograd.grad, out[1], [p_ for _, p_ in held], allow_unused=True)
        if gr[0] != "ok":
            ck.finding("gradient:backward-fails:%s:first-call" % name, "%s: %s %s" % (name, gr[1], str(gr[2])[:160]), case)
            continue
        missing = [n_ for (n_, _), gv in zip(held, gr[1]) if gv is None or not bool(torch.isfinite(gv).all())]
        if missing:
            ck.finding("gradient:missing:%s:parameter:first-call" % name, "%s: no finite gradient for %s on the first training call" % (name, missing), case)
    # flows: log_prob gradients w.r.t. parameters, inputs and context
    from nflows.flows.base import Flow
    from nflows.distributions import normal
    from nflows.transforms.autoregressive import MaskedAffineAutoregressiveTransform
    from nflows.transforms import base, lu, nonlinearities as nl
    flows = [("Flow(MAF ctx, StandardNormal, embedding)", Flow(MaskedAffineAutoregressiveTransform(3, 8, context_features=4), normal.StandardNormal([3]),
                                                               embedding_net=torch.nn.Linear(2, 4)), 2),
             ("Flow(LU+Tanh-1, ConditionalDiagonalNormal)", Flow(base.CompositeTransform([lu.LULinear(2, identity_init=False), nl.LeakyReLU()]),
                                                                 normal.ConditionalDiagonalNormal([2])), 4),
             ("Flow(LU, DiagonalNormal)", Flow(lu.LULinear(2, identity_init=False), normal.DiagonalNormal([2])), None)]
    from nflows.distributions.mixture import MADEMoG as MoG_
    flows.append(("Flow(LU, MADEMoG)", Flow(lu.LULinear(2, identity_init=False), MoG_(2, 8, None, num_mixture_components=2, custom_initialization=True)), None))
    import copy as copy_
    variants = []
    for name, fl, cdim in flows:
        variants.append((name, fl, cdim, False))
        # ... and a deep copy whose parameters then moved (a teacher / EMA copy): ITS parameters receive ITS gradients
        variants.append((name + " (deep copy, parameters moved)", fl, cdim, True))
    for name, fl, cdim, copied in variants:
        torch.manual_seed(seed)
        if not copied:
            fl = fl.double().eval()
            catalogue.randomize(fl, seed + 3, 0.3)
        else:
            orig = fl
            fl = copy_.deepcopy(fl)
            catalogue.randomize(fl, seed + 9, 0.3)
        D = 3 if "MAF" in name else 2
        if copied:
            # the copy is its own model: the original, given the copy's parameters, is the same function with the same gradients
            xs_ = torch.randn(3, D, dtype=torch.float64)
            cs_ = None if cdim is None else torch.randn(3, cdim, dtype=torch.float64)
            lc = attempt(lambda: fl.log_prob(xs_, cs_).sum())
            gc = attempt(torch.autograd.grad, lc[1], [p for p in fl.parameters() if p.requires_grad], allow_unused=True) if lc[0] == "ok" else ("err",)
            orig.load_state_dict(fl.state_dict())
            lo = attempt(lambda: orig.log_prob(xs_, cs_).sum())
            go = attempt(torch.autograd.grad, lo[1], [p for p in orig.parameters() if p.requires_grad], allow_unused=True) if lo[0] == "ok" else ("err",)
            ck.case(("c16-flow-copy-twin", name), nontrivial=True)
            if lc[0] == "ok" and lo[0] == "ok" and gc[0] == "ok" and go[0] == "ok":
                names_ = [n_ for n_, p_ in fl.named_parameters() if p_.requires_grad]
                bad_ = None
                if abs(float(lc[1]) - float(lo[1])) > 1e-9 * (1 + abs(float(lo[1]))):
                    bad_ = "log_prob differs (%r vs %r)" % (float(lc[1]), float(lo[1]))
                else:
                    for n_, a_, b_ in zip(names_, gc[1], go[1]):
                        za, zb = (torch.zeros(1) if a_ is None else a_), (torch.zeros(1) if b_ is None else b_)
                        if (a_ is None) != (b_ is None) or float((za - zb).abs().max()) > 1e-8 * (1 + float(zb.abs().max())):
                            bad_ = "gradient of %s: copy %s, the original holding the same parameters %s" % (
                                n_, "none" if a_ is None else "%.4g" % float(za.abs().max()), "none" if b_ is None else "%.4g" % float(zb.abs().max()))
                            break
                if bad_:
                    ck.finding("gradient:deep-copy-not-its-own-model:%s" % name.split(" (deep")[0], "%s: %s" % (name, bad_),
                               {"search": "flow-deep-copy", "flow": name, "seed": seed})
                    continue
        x = torch.randn(3, D, dtype=torch.float64, requires_grad=True)
        c = None if cdim is None else torch.randn(3, cdim, dtype=torch.float64, requires_grad=True)
        ck.case(("c16-flow", name), nontrivial=True)
        case = {"search": "flow-gradients", "flow": name, "seed": seed}
        r = attempt(lambda: fl.log_prob(x, c).sum())
        if r[0] != "ok":
            ck.finding("gradient:flow-log_prob-fails:%s" % name, "%s %s" % (r[1], r[2]), case)
            continue
        params = [p for p in fl.parameters() if p.requires_grad]
        gr = attempt(torch.autograd.grad, r[1], [x] + ([c] if c is not None else []) + params, allow_unused=True)
        if gr[0] != "ok":
            ck.finding("gradient:flow-backward-fails:%s" % name, "%s %s" % (gr[1], gr[2]), case)
            continue
        tensors = [x] + ([c] if c is not None else []) + params
        with torch.no_grad():
            f = lambda: fl.log_prob(x.detach(), None if c is None else c.detach()).sum()
            for k, (tn, gv) in enumerate(zip(tensors, gr[1])):
                idxs = sorted({0, tn.numel() - 1})
                fd = fd_check(f, tn, idxs)
                for i, d in zip(idxs, fd):
                    a = 0.0 if gv is None else float(gv.reshape(-1)[i])
                    if abs(a - d) > 2e-5 * (1 + abs(a) + abs(d)):
                        ck.finding("gradient:flow-log_prob-%s:%s" % ("missing" if gv is None else "wrong", name),
                                   "%s: tensor %d entry %d: autograd %r, finite difference %r" % (name, k, i, a, d), case)
                        break


def run(tier, seed):
    ck = Check("C16", tier, seed, areas=[], gen_groups=["Tables", "Nonlin", "Norm", "SplineRQ"])
    ck.rule = ("every catalogue transform (float64, random parameters, evaluation and training mode) and three small flows: "
               "back-propagation of a random linear functional of outputs and log-abs-dets (resp. of log_prob) to inputs, "
               "context and every parameter must succeed with finite values and agree with central finite differences at "
               "three entries per tensor (kink artefacts re-tested with a smaller step); a parameter with non-zero "
               "finite-difference sensitivity must receive a gradient; distinct by (entry, mode)")
    ck.assumptions = ["torch.autograd computes the derivative of the composed function (engine contract)",
                      "UMNN's custom autograd Function is third-party: relaxed tolerance"]
    ck.build()
    ck.sample({"generated_table": "Gen/Tables.v grad_table"})
    search(ck, tier, seed)
    return ck.finish()


def replay(payload):
    print("replay:", payload.get("replay"))
    return 0
