"""C06: MADE conditioners are strictly autoregressive for every architecture and weight."""
import itertools
import math

import torch

from common import Check, Z, z, ModelErr
from implutil import attempt, rng, tgen, flat


def masked_layers(net, residual):
    """[(name, module, kind)] in evaluation order; kind 'h' hidden / 'o' output"""
    out = [("initial_layer", net.initial_layer, "h")]
    for bi, b in enumerate(net.blocks):
        if residual:
            out.append(("blocks.%d.linear_layers.0" % bi, b.linear_layers[0], "h"))
            out.append(("blocks.%d.linear_layers.1" % bi, b.linear_layers[1], "h"))
        else:
            out.append(("blocks.%d.linear" % bi, b.linear, "h"))
    out.append(("final_layer", net.final_layer, "o"))
    return out


def configs(tier):
    if tier == "quick":
        Fs, Hs, Bs, Ms = [1, 2, 3, 4], [1, 3, 5], [0, 1, 2], [1, 3]
        kinds = [("res", 0), ("ff", 0), ("ffr", 0), ("ffr", 1)]
        extras = [(False, 0.0), (True, 0.5)]
    else:
        Fs, Hs, Bs, Ms = [1, 2, 3, 4, 5, 6], [1, 2, 3, 5, 8], [0, 1, 2, 3], [1, 2, 3]
        kinds = [("res", 0), ("ff", 0)] + [("ffr", d) for d in range(5)]
        extras = [(False, 0.0), (True, 0.0), (False, 0.5), (True, 0.5)]
    for F, H, B, M, (kind, draw), ctx, (bn, dp), copy in itertools.product(
            Fs, Hs, Bs, Ms, kinds, [None, 2], extras, [0, 1]):
        yield dict(F=F, H=H, B=B, M=M, kind=kind, draw=draw, ctx=ctx, bn=bn, dp=dp, copy=copy)


def build(cfg, seed):
    from nflows.transforms import made as made_t
    from nflows.nn.nde import made as made_n
    mod = made_t if cfg["copy"] == 0 else made_n
    torch.manual_seed(seed * 1000003 + cfg["draw"] * 7919 + cfg["F"] * 31 + cfg["H"] * 17 + cfg["B"])
    net = mod.MADE(features=cfg["F"], hidden_features=cfg["H"], context_features=cfg["ctx"], num_blocks=cfg["B"],
                   output_multiplier=cfg["M"], use_residual_blocks=(cfg["kind"] == "res"),
                   random_mask=(cfg["kind"] == "ffr"), activation=torch.tanh if cfg["draw"] % 2 else torch.relu,
                   dropout_probability=cfg["dp"], use_batch_norm=cfg["bn"])
    # arbitrary (non-zero, non-tiny) weights everywhere, including the zero-initialised last block layers
    g = tgen(seed, "w", *sorted(cfg.items(), key=str))
    with torch.no_grad():
        for prm in net.parameters():
            prm.copy_(torch.randn(prm.shape, generator=g) * 1.5 + 0.25)
    return net


def run(tier, seed):
    ck = Check("C06", tier, seed, areas=["made"], gen_groups=["MadeT", "MadeN"])
    ck.rule = ("product of (features, hidden width, blocks, block type incl. random-mask draws, context, output "
               "multiplier, batch-norm, dropout, copy of the implementation); each network gets random non-zero "
               "weights; non-trivial = features >= 2 (there is something to be independent of); distinct by the "
               "configuration tuple")
    ck.assumptions = ["carrier hypothesis of the theorems: a * 0 = 0 * a = 0 (true for reals and finite floats; an "
                      "infinite or NaN weight times a zero mask entry is outside the theorem)",
                      "features >= 1, output_multiplier >= 1"]
    ck.build()
    drv = ck.driver("made") if ck.have_driver("made") else None
    mm = []
    ncorr = 0
    for cfg in configs(tier):
        key = tuple(sorted(cfg.items(), key=str))
        res = attempt(build, cfg, seed)
        ck.case(key, nontrivial=cfg["F"] >= 2)
        ck.count("kind=%s" % cfg["kind"])
        ck.count("copy=%d" % cfg["copy"])
        if res[0] == "err":
            # the constructor may reject (e.g. hidden width < ... never for these); record and compare with model
            ck.count("constructor-error:" + res[1])
            ck.finding("MADE:constructor-raises:%s" % res[1], "MADE(%s) raised %s: %s" % (cfg, res[1], res[2]),
                       {"search": "construct", "cfg": cfg})
            continue
        net = res[1]
        if drv is not None:
            ncorr += 1
            mm += corr_one(drv, net, cfg)
        search_one(ck, net, cfg, seed)
        # the same network restored from a checkpoint into a second instance (another way of building a MADE): buffers that are
        # rebuilt or skipped on loading must leave the connectivity as it was
        if cfg["dp"] == 0.0:
            res2 = attempt(build, cfg, seed)
            if res2[0] == "ok":
                import copy as _copy
                ld = attempt(res2[1].load_state_dict, _copy.deepcopy(net.state_dict()))
                if ld[0] == "ok":
                    ck.count("restored-from-checkpoint")
                    if drv is not None:
                        mm += [dict(m_, restored=True) for m_ in corr_one(drv, res2[1], cfg)]
                    search_one(ck, res2[1], cfg, seed, " [restored from a state dict]")
    # the same networks built in the opposite order, in a FRESH process: state kept at class or module level (a cache of
    # masks, say) makes a network depend on which networks were built before it
    import json as _json
    import subprocess
    import sys as _sys
    pr = subprocess.run([_sys.executable, "-c", "import prop_C06; prop_C06.reverse_pass(%r, %d)" % (tier, seed)],
                        capture_output=True, text=True, timeout=1200)
    nrev = 0
    for line in pr.stdout.splitlines():
        if line.startswith("CASES "):
            nrev = int(line.split()[1])
        elif line.startswith("FINDING "):
            f_ = _json.loads(line[8:])
            ck.finding(f_["key"], f_["what"] + " [networks built in reverse order in a fresh process]", f_["case"])
    if pr.returncode != 0:
        ck.finding("MADE:reverse-order-pass-crashed", pr.stderr[-400:], {"search": "reverse-order"})
    for i in range(nrev):
        ck.case(("reverse-order", i), nontrivial=True)
    if drv is not None:
        ck.sample({"cfg": dict(F=3, H=5, copy=0), "model_hidden_degrees": drv.call("hidden_degrees_seq", z(0), z(3), z(5))[0],
                   "model_output_degrees_m2": drv.call("output_degrees", z(0), z(3), z(6))[0]})
        ck.correspondence("mask-and-degree buffers of every masked layer", ncorr, mm)
    consequences(ck, seed, tier)
    return ck.finish()


def reverse_pass(tier, seed):
    """run in a subprocess: build the sequential-mask networks in reverse grid order and perturb; prints findings as JSON"""
    import json

    class Rec:
        def finding(self, key, what, case):
            print("FINDING " + json.dumps({"key": key, "what": what, "case": case}))
    n = 0
    for cfg in reversed(list(configs(tier))):
        if cfg["kind"] == "ffr" or cfg["ctx"] or cfg["bn"]:
            continue
        res = attempt(build, cfg, seed)
        if res[0] != "ok":
            continue
        n += 1
        search_one(Rec(), res[1], cfg, seed)
    print("CASES %d" % n)


def corr_one(drv, net, cfg):
    """exact comparison of degrees and mask buffers with the model"""
    out = []
    g = cfg["copy"]
    F = cfg["F"]
    prev = drv.call("input_degrees", z(g), z(F))[0]
    res = cfg["kind"] == "res"
    block_in = None
    for name, mod, kind in masked_layers(net, res):
        deg = [int(v) for v in mod.degrees.tolist()]
        mask = [int(v) for v in flat(mod.mask)]
        if kind == "o":
            mdeg = drv.call("output_degrees", z(g), z(F), z(F * cfg["M"]))[0]
            mmask = drv.call("output_mask", z(g), Z(mdeg), Z(prev))[0]
        else:
            if cfg["kind"] == "ffr":
                ok = drv.call("random_ok", z(g), z(F), Z(prev), Z(deg))[0]
                if not ok:
                    out.append({"cfg": cfg, "layer": name, "what": "random degrees outside model bounds", "impl": deg,
                                "in": prev})
                mdeg = deg
            else:
                mdeg = drv.call("hidden_degrees_seq", z(g), z(F), z(len(deg)))[0]
            mmask = drv.call("hidden_mask", z(g), Z(mdeg), Z(prev))[0]
        if mdeg != deg or mmask != mask:
            out.append({"cfg": cfg, "layer": name, "model_degrees": mdeg, "impl_degrees": deg,
                        "mask_equal": mmask == mask})
        if res and name.endswith("linear_layers.0"):
            block_in = prev
        if res and name.endswith("linear_layers.1"):
            if not drv.call("res_ok", Z(mdeg), Z(block_in))[0]:
                out.append({"cfg": cfg, "layer": name, "what": "model says residual degree check fails but impl built"})
        prev = mdeg
    return out


def search_one(ck, net, cfg, seed, how=""):
    """perturb input j (all rows): blocks 0..j must not change, bit for bit"""
    F, M = cfg["F"], cfg["M"]
    g = tgen(seed, "x", F, cfg["H"], cfg["B"])
    x = torch.randn(3, F, generator=g)
    ctx = torch.randn(3, cfg["ctx"], generator=g) if cfg["ctx"] else None
    for mode in ("eval", "train", "train, a single row"):
        net.train(mode != "eval")
        if mode.endswith("single row"):
            # batch norm in training mode needs more than one row; whatever a network returns for a single row (if it accepts
            # it at all) has to be autoregressive too
            x, ctx = x[:1], (None if ctx is None else ctx[:1])
        torch.manual_seed(12345)
        with torch.no_grad():
            b0 = attempt(net, x, ctx)
        if b0[0] != "ok":
            continue
        base = b0[1]
        for j in range(F):
            x2 = x.clone()
            x2[:, j] += torch.tensor([1.0, -2.5, 0.75])[:x.shape[0]]
            torch.manual_seed(12345)  # same dropout mask
            with torch.no_grad():
                out = net(x2, ctx)
            same = (out == base) | (torch.isnan(out) & torch.isnan(base))
            for i in range(0, j + 1):
                blk = same[:, i * M:(i + 1) * M]
                if not bool(blk.all()):
                    ck.finding("MADE:block-depends-on-later-input:copy%d:%s" % (cfg["copy"], cfg["kind"]),
                               "output block %d changed when input %d was perturbed (%s mode), cfg=%s%s" % (i, j, mode, cfg, how),
                               {"search": "perturb", "cfg": cfg, "mode": mode, "input": j, "block": i, "seed": seed, "how": how.strip()})
                    return


def consequences(ck, seed, tier):
    """the consequences named by the property: triangular Jacobian of masked autoregressive transforms,
    exact D-pass inverse, factorisation of the MADE mixture density"""
    from nflows.transforms import autoregressive as ar
    from nflows.distributions.mixture import MADEMoG
    for F in ([2, 3] if tier == "quick" else [1, 2, 3, 4, 5]):
        for rmask in (False, True):
            torch.manual_seed(seed + F)
            t = ar.MaskedAffineAutoregressiveTransform(features=F, hidden_features=7, num_blocks=2,
                                                       use_residual_blocks=not rmask, random_mask=rmask)
            with torch.no_grad():
                for prm in t.parameters():
                    prm.copy_(torch.randn(prm.shape) * 0.7)
            t = t.double().eval()
            x = torch.randn(4, F, dtype=torch.float64)
            y, lad = t(x)
            xr, ladr = t.inverse(y)
            ck.case(("ar-inverse", F, rmask), nontrivial=F >= 2)
            if not torch.allclose(xr, x, atol=1e-9, rtol=1e-9):
                ck.finding("MaskedAffineAutoregressive:inverse-not-exact",
                           "inverse(forward(x)) != x after %d passes (max err %g)" % (F, float((xr - x).abs().max())),
                           {"search": "ar-inverse", "F": F, "random_mask": rmask, "seed": seed})
            J = torch.autograd.functional.jacobian(lambda v: t(v[None])[0][0], x[0])
            ck.case(("ar-jacobian", F, rmask), nontrivial=F >= 2)
            if float(torch.triu(J, diagonal=1).abs().max()) if F > 1 else 0.0:
                ck.finding("MaskedAffineAutoregressive:jacobian-not-triangular", "upper triangle non-zero: %s" % J.tolist(),
                           {"search": "ar-jacobian", "F": F, "random_mask": rmask, "seed": seed})
    # mixed precision: the same float32 networks under torch.autocast (bfloat16 on the CPU), where the hidden layers see inputs of
    # another dtype than their weights - the masks still apply, output block i does not move with inputs k >= i
    for rmask, resid in ((False, True), (False, False), (True, False)):
        torch.manual_seed(seed % 100000 + 61)
        F_ = 4
        t = ar.MaskedAffineAutoregressiveTransform(features=F_, hidden_features=12, num_blocks=2, use_residual_blocks=resid, random_mask=rmask)
        with torch.no_grad():
            for prm in t.parameters():
                prm.copy_(torch.randn(prm.shape) * 0.6)
        t.eval()
        net = t.autoregressive_net
        x = torch.randn(3, F_)
        ck.case(("autocast", rmask, resid), nontrivial=True)
        try:
            with torch.no_grad(), torch.autocast("cpu", dtype=torch.bfloat16):
                o1 = net(x).float().reshape(3, F_, -1)
                leak = None
                for j in range(F_):
                    x2 = x.clone()
                    x2[:, j] += 1.5
                    o2 = net(x2).float().reshape(3, F_, -1)
                    if not torch.equal(o1[:, :j + 1], o2[:, :j + 1]):
                        leak = j
                        break
        except RuntimeError:
            ck.count("autocast-unavailable")
            continue
        if leak is not None:
            ck.finding("MADE:output-depends-on-later-input:autocast",
                       "MaskedAffineAutoregressive (residual %s, random mask %s) under torch.autocast(cpu, bfloat16): parameters of features <= %d "
                       "change when input %d changes" % (resid, rmask, leak, leak), {"search": "autocast", "residual": resid, "random_mask": rmask, "seed": seed})
    # many features, double precision, mild parameters (the map is well conditioned: the unchanged code reproduces x to 1e-14): one
    # pass per feature is exact - a loop that stops early, judging convergence at another precision, is not
    for F in ((12, 20) if tier == "quick" else (8, 12, 16, 20, 32)):
        for rep in range(2):
            torch.manual_seed(seed % 100000 + F + 1000 * rep)
            t = ar.MaskedAffineAutoregressiveTransform(features=F, hidden_features=16, num_blocks=2)
            with torch.no_grad():
                for prm in t.parameters():
                    prm.copy_(torch.randn(prm.shape) * 0.3)
            t = t.double().eval()
            x = torch.randn(4, F, dtype=torch.float64)
            with torch.no_grad():
                y, lad = t(x)
                xr, ladr = t.inverse(y)
            ck.case(("ar-inverse-many", F, rep), nontrivial=True)
            err = float(((xr - x).abs() / (1 + x.abs())).max())
            if err > 1e-12 or float((lad + ladr).abs().max()) > 1e-11 * (1 + float(lad.abs().max())):
                ck.finding("MaskedAffineAutoregressive:inverse-not-exact",
                           "%d features, float64: inverse(forward(x)) differs from x by %.3g (relative) after one pass per feature, log-dets by %.3g"
                           % (F, err, float((lad + ladr).abs().max())), {"search": "ar-inverse-many", "F": F, "rep": rep, "seed": seed})
    for F in ([2, 3] if tier == "quick" else [1, 2, 3, 4]):
        torch.manual_seed(seed + 100 + F)
        d = MADEMoG(features=F, hidden_features=6, context_features=2, num_blocks=1, num_mixture_components=3)
        d.eval()
        x = torch.randn(3, F)
        c = torch.randn(3, 2)
        with torch.no_grad():
            outs = d._made(x, c).reshape(3, F, 3, 3)
            for j in range(F):
                x2 = x.clone()
                x2[:, j] += 1.5
                outs2 = d._made(x2, c).reshape(3, F, 3, 3)
                ck.case(("mog-factor", F, j), nontrivial=F >= 2)
                if not torch.equal(outs[:, :j + 1], outs2[:, :j + 1]):
                    ck.finding("MADEMoG:conditional-depends-on-later-input",
                               "mixture parameters of feature <= %d changed with input %d" % (j, j),
                               {"search": "mog-factor", "F": F, "input": j, "seed": seed})
        # the factorised density itself: log_prob = sum over features of one-dimensional mixture log-densities whose weights sum to
        # one PER FEATURE - recomputed here from the network's outputs; also for inputs with an extra leading batch dimension
        # ([S, B, D], which log_prob supports by reshaping): each row's value is that row's
        made_ = d._made
        gx = torch.Generator(); gx.manual_seed(seed + 7 * F)
        for shape in ([4, F], [2, 3, F]):
            xs = torch.randn(shape, generator=gx)
            cs = None
            ck.case(("mog-density", F, len(shape)), nontrivial=F >= 2)
            torch.manual_seed(seed + 100 + F)
            du = MADEMoG(features=F, hidden_features=6, context_features=None, num_blocks=1, num_mixture_components=3).eval()
            with torch.no_grad():
                for prm in du.parameters():
                    prm.add_(torch.randn(prm.shape, generator=gx) * 0.5)
                got = attempt(du._made.log_prob, xs)
                flat_x = xs.reshape(-1, F)
                o = du._made(flat_x).reshape(flat_x.shape[0], F, 3, 3)
                lw = torch.log_softmax(o[..., 0], dim=-1)
                sd = torch.nn.functional.softplus(o[..., 2]) + du._made.epsilon
                comp = lw - 0.5 * (math.log(2 * math.pi) + 2 * torch.log(sd) + ((flat_x[..., None] - o[..., 1]) / sd) ** 2)
                ref = torch.logsumexp(comp, dim=-1).sum(-1).reshape(shape[:-1])
            if got[0] != "ok":
                if len(shape) == 2:
                    ck.finding("MADEMoG:log_prob-fails", "%s %s" % (got[1], got[2]), {"search": "mog-density", "F": F, "shape": shape, "seed": seed})
                continue
            if got[1].shape != ref.shape or not torch.allclose(got[1], ref, atol=1e-4, rtol=1e-4):
                ck.finding("MADEMoG:log_prob-is-not-the-sum-of-its-conditionals",
                           "inputs of shape %s: log_prob differs from the sum of the per-feature mixture log-densities by %g"
                           % (shape, float((got[1] - ref).abs().max()) if got[1].shape == ref.shape else float("nan")),
                           {"search": "mog-density", "F": F, "shape": shape, "seed": seed})


def replay(payload):
    rp = payload.get("replay", {})
    print("replay:", rp)
    if rp.get("search") == "perturb":
        cfg = rp["cfg"]
        net = build(cfg, rp["seed"])

        class Sink:
            def finding(self, key, what, replay):
                print("REPRODUCED:", key, what)
        search_one(Sink(), net, cfg, rp["seed"])
    return 0
