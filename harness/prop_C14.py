"""C14: normalisation layers follow their documented life-cycle over every history."""
import copy
import math

import torch

from common import Check, Z, F, f, z
from implutil import attempt, rng, tgen, flat, close

TRAIN, EVAL, FWD, INV, RELOAD = range(5)
NAMES = ["train()", "eval()", "forward(batch)", "inverse(batch)", "save+load into a fresh instance"]


def histories(tier, seed):
    r = rng(seed, "c14")
    hs = [[FWD], [EVAL, FWD, FWD, TRAIN, FWD, FWD], [FWD, FWD, EVAL, FWD, INV], [EVAL, INV, TRAIN, FWD, RELOAD, FWD, EVAL, FWD],
          [INV, FWD, INV], [EVAL, FWD, RELOAD, FWD, FWD], [FWD, RELOAD, EVAL, RELOAD, FWD, INV], [TRAIN, INV, EVAL, INV],
          # evaluation before any training, then the initialising step, then evaluation again (what was computed from the
          # uninitialised parameters must not outlive the initialisation)
          [EVAL, FWD, TRAIN, FWD, EVAL, FWD, INV], [EVAL, INV, FWD, TRAIN, FWD, EVAL, INV, FWD], [EVAL, FWD, TRAIN, FWD, FWD, EVAL, FWD, TRAIN, FWD],
          [EVAL, FWD, RELOAD, TRAIN, FWD, EVAL, FWD], [EVAL, FWD, EVAL, FWD, TRAIN, FWD, EVAL, FWD, RELOAD, FWD]]
    n = 40 if tier == "quick" else 600
    maxlen = 12 if tier == "quick" else 30
    while len(hs) < n:
        ln = r.randint(2, maxlen)
        hs.append([r.choice([TRAIN, EVAL, FWD, FWD, FWD, INV, RELOAD]) for _ in range(ln)])
    return hs


def per_feature(x):
    """[b, c] or [b, c, h, w] -> list over channels of flat value lists (order b, h, w)"""
    if x.dim() == 2:
        return [x[:, c].tolist() for c in range(x.shape[1])]
    return [x[:, c].reshape(-1).tolist() for c in range(x.shape[1])]


def run_actnorm(ck, drv, ops, dims, seed, mm, C=3):
    from nflows.transforms.normalization import ActNorm
    g = tgen(seed, "an", dims, tuple(ops), C)
    t = ActNorm(C)
    if bool(t.initialized):
        # every layer has its own life-cycle: what other instances of the process went through is not this one's history
        ck.finding("ActNorm:fresh-instance-already-initialised",
                   "a newly constructed ActNorm reports initialized = True (other instances were initialised earlier in this process)",
                   {"search": "an", "layer": "ActNorm", "dims": dims, "ops": [], "seed": seed})
    batches = []
    impl_rows = []
    first_train_fwd = None
    import random as _random
    rr = _random.Random("%s/%s/%s" % (seed, dims, ops))
    hw = rr.choice([(2, 2), (1, 3), (2, 3)])         # image size of this history; batch sizes vary per step, down to ONE image
    for k, op in enumerate(ops):
        shape = [rr.choice([2, 3, 4, 7]), C] if dims == 2 else [rr.choice([1, 1, 2, 3]), C, hw[0], hw[1]]
        x = (torch.randn(shape, generator=g, dtype=torch.float64) * 2.0 + 0.7)
        row = {"kind": 0, "y": None, "lad": None}
        before = (bool(t.initialized), t.log_scale.detach().clone(), t.shift.detach().clone())
        if op == TRAIN:
            t.train()
        elif op == EVAL:
            t.eval()
        elif op == RELOAD:
            new = ActNorm(C).double()
            keep = (bool(t.initialized), t.log_scale.detach().clone())
            new.load_state_dict(copy.deepcopy(t.state_dict()))
            if bool(t.initialized) != keep[0] or not torch.equal(t.log_scale.detach(), keep[1]):
                ck.finding("ActNorm:saved-instance-changed-by-loading-into-another",
                           "loading the state dict into a fresh instance changed the instance it was saved from",
                           {"search": "an", "layer": "ActNorm", "dims": dims, "ops": [NAMES[o] for o in ops[:k + 1]], "seed": seed})
            t = new
        elif op in (FWD, INV):
            t = t.double()
            r = attempt(t.forward if op == FWD else t.inverse, x)
            if r[0] != "ok":
                row["kind"] = r[1]
            else:
                row["y"], row["lad"] = r[1][0].detach(), r[1][1].detach()
        t = t.double()
        after = (bool(t.initialized), t.log_scale.detach().clone(), t.shift.detach().clone())
        was_init_step = (op == FWD and t.training and not before[0])
        hist = {"layer": "ActNorm", "dims": dims, "ops": [NAMES[o] for o in ops[:k + 1]], "codes": ops[:k + 1], "seed": seed}
        # the property, on the implementation
        if was_init_step:
            if not after[0]:
                ck.finding("ActNorm:not-initialised-by-first-training-forward", str(hist), {"search": "an", **hist})
            y = row["y"]
            if y is not None:
                pf = per_feature(y)
                for c, vals in enumerate(pf):
                    tv = torch.tensor(vals, dtype=torch.float64)
                    if abs(float(tv.mean())) > 1e-9 or abs(float(tv.var()) - 1) > 1e-9:
                        ck.finding("ActNorm:initialising-batch-not-normalised",
                                   "channel %d mean %g var %g after %s" % (c, float(tv.mean()), float(tv.var()), hist["ops"]),
                                   {"search": "an", **hist})
        else:
            changed = before[0] != after[0] or not torch.equal(before[1], after[1]) or not torch.equal(before[2], after[2])
            if changed:
                ck.finding("ActNorm:parameters-changed-outside-initialisation",
                           "step %s changed (initialized, log_scale, shift): %s -> %s" % (NAMES[op], before[0], after[0]),
                           {"search": "an", **hist})
        # whatever the history, a call that returns uses the parameters the layer holds NOW: y = exp(log_scale) * x + shift per
        # feature / channel (forward), x = (y - shift) / exp(log_scale) (inverse)
        if row["y"] is not None:
            shp = [1, C] + [1] * (x.dim() - 2)
            sc, sh_ = torch.exp(after[1]).reshape(shp), after[2].reshape(shp)
            expect = sc * x + sh_ if op == FWD else (x - sh_) / sc
            if not torch.allclose(row["y"], expect, atol=1e-9, rtol=1e-9):
                ck.finding("ActNorm:output-not-from-current-parameters",
                           "after %s the %s output differs from the affine map of the current log_scale / shift by %g"
                           % (hist["ops"], "forward" if op == FWD else "inverse", float((row["y"] - expect).abs().max())), {"search": "an", **hist})
        impl_rows.append((row, after, bool(t.training)))
        batches.append(x if op in (FWD, INV) else None)
    if drv is None:
        return
    # correspondence with the model, per channel
    for c in range(C):
        lens, vals = [], []
        for bt in batches:
            if bt is None:
                lens.append(0)
            else:
                v = per_feature(bt)[c]
                lens.append(len(v))
                vals += v
        flags, nums, outs = drv.call("an", Z(ops), Z(lens), F(vals))
        pos = 0
        for k, op in enumerate(ops):
            row, after, training = impl_rows[k]
            mk, minit, mtrain = flags[3 * k:3 * k + 3]
            mls, msh, mlad = nums[3 * k:3 * k + 3]
            bad = None
            if (mk == 0) != (row["kind"] == 0):
                bad = "outcome"
            elif bool(minit) != after[0] or bool(mtrain) != training:
                bad = "flags (initialized/training): model %s/%s impl %s/%s" % (minit, mtrain, after[0], training)
            elif not close(mls, float(after[1][c]), 1e-9) or not close(msh, float(after[2][c]), 1e-9):
                bad = "parameters: model (%g,%g) impl (%g,%g)" % (mls, msh, float(after[1][c]), float(after[2][c]))
            elif row["y"] is not None:
                my = outs[pos:pos + lens[k]]
                iy = per_feature(row["y"])[c]
                if not close(my, iy, 1e-9):
                    bad = "outputs"
            if op in (FWD, INV) and row["kind"] == 0:
                pos += lens[k]
            if bad:
                mm.append({"layer": "ActNorm", "dims": dims, "channel": c, "ops": [NAMES[o] for o in ops[:k + 1]], "what": bad})
                return
        # log-det: sum over channels x positions
    # log-det aggregation (h*w*sum(log_scale)) checked once per history on the implementation against the model's per-channel lad
    for k, op in enumerate(ops):
        row, after, _ = impl_rows[k]
        if row["lad"] is not None:
            npos = 1 if dims == 2 else hw[0] * hw[1]
            expect = (1 if op == FWD else -1) * npos * float(after[1].sum())
            if not close(float(row["lad"][0]), expect, 1e-9):
                mm.append({"layer": "ActNorm", "dims": dims, "what": "log-det aggregation", "impl": float(row["lad"][0]), "model": expect})
                return


def run_batchnorm(ck, drv, ops, seed, mm):
    from nflows.transforms.normalization import BatchNorm
    g = tgen(seed, "bn", tuple(ops))
    C = 2
    t = BatchNorm(C, eps=1e-3, momentum=0.25).double()
    with torch.no_grad():
        t.unconstrained_weight.copy_(torch.tensor([0.3, -0.7], dtype=torch.float64))
        t.bias.copy_(torch.tensor([0.2, -1.1], dtype=torch.float64))
    batches, rows = [], []
    import random as _random
    rr = _random.Random("%s/bn/%s" % (seed, ops))
    for k, op in enumerate(ops):
        x = torch.randn([rr.choice([2, 3, 5, 8]), C], generator=g, dtype=torch.float64) * 1.5 + 0.3
        row = {"kind": 0, "y": None, "lad": None}
        before = (t.running_mean.clone(), t.running_var.clone())
        training_before = t.training
        if op == TRAIN:
            t.train()
        elif op == EVAL:
            t.eval()
        elif op == RELOAD:
            new = BatchNorm(C, eps=1e-3, momentum=0.25).double()
            new.load_state_dict(copy.deepcopy(t.state_dict()))
            t = new
        else:
            r = attempt(t.forward if op == FWD else t.inverse, x)
            if r[0] != "ok":
                row["kind"] = r[1]
            else:
                row["y"], row["lad"] = r[1][0].detach(), r[1][1].detach()
        after = (t.running_mean.clone(), t.running_var.clone())
        hist = {"layer": "BatchNorm", "ops": [NAMES[o] for o in ops[:k + 1]], "codes": ops[:k + 1], "seed": seed}
        # the property on the implementation
        if op == FWD and training_before:
            em = 0.75 * before[0] + 0.25 * x.mean(0)
            ev = 0.75 * before[1] + 0.25 * x.var(0)
            if not torch.allclose(after[0], em, atol=1e-12) or not torch.allclose(after[1], ev, atol=1e-12):
                ck.finding("BatchNorm:running-statistics-not-momentum-rule", str(hist), {"search": "bn", **hist})
            yy = row["y"]
            w = torch.nn.functional.softplus(t.unconstrained_weight) + 1e-3
            exp = w * (x - x.mean(0)) / torch.sqrt(x.var(0) + 1e-3) + t.bias
            if yy is None or not torch.allclose(yy, exp.detach(), atol=1e-10):
                ck.finding("BatchNorm:training-forward-not-batch-statistics", str(hist), {"search": "bn", **hist})
        else:
            if not torch.equal(before[0], after[0]) or not torch.equal(before[1], after[1]):
                ck.finding("BatchNorm:running-statistics-written-outside-training-forward", str(hist), {"search": "bn", **hist})
            if op == FWD:
                w = torch.nn.functional.softplus(t.unconstrained_weight) + 1e-3
                exp = w * (x - before[0]) / torch.sqrt(before[1] + 1e-3) + t.bias
                if row["y"] is None or not torch.allclose(row["y"], exp.detach(), atol=1e-10):
                    ck.finding("BatchNorm:eval-forward-not-running-statistics", str(hist), {"search": "bn", **hist})
            if op == INV:
                if training_before and row["kind"] != "InverseNotAvailable":
                    ck.finding("BatchNorm:inverse-offered-in-training-mode", str(hist), {"search": "bn", **hist})
                if not training_before and row["kind"] != 0:
                    ck.finding("BatchNorm:inverse-refused-in-eval-mode", "%s: %s" % (hist, row["kind"]), {"search": "bn", **hist})
        rows.append((row, after, bool(t.training)))
        batches.append(x if op in (FWD, INV) else None)
    if drv is None:
        return
    for c in range(C):
        lens, vals = [], []
        for bt in batches:
            if bt is None:
                lens.append(0)
            else:
                lens.append(bt.shape[0])
                vals += bt[:, c].tolist()
        uw = [0.3, -0.7][c]
        bias = [0.2, -1.1][c]
        flags, nums, outs = drv.call("bn", f(1e-3), f(0.25), f(uw), f(bias), Z(ops), Z(lens), F(vals))
        pos = 0
        for k, op in enumerate(ops):
            row, after, training = rows[k]
            mk, mtrain = flags[2 * k:2 * k + 2]
            mrm, mrv, mlad = nums[3 * k:3 * k + 3]
            bad = None
            kinds = {0: 0, 2: "InverseNotAvailable"}
            if kinds.get(mk, mk) != row["kind"]:
                bad = "outcome: model %s impl %s" % (mk, row["kind"])
            elif bool(mtrain) != training:
                bad = "training flag"
            elif not close(mrm, float(after[0][c]), 1e-9) or not close(mrv, float(after[1][c]), 1e-9):
                bad = "running statistics: model (%g,%g) impl (%g,%g)" % (mrm, mrv, float(after[0][c]), float(after[1][c]))
            elif row["y"] is not None:
                if not close(outs[pos:pos + lens[k]], row["y"][:, c].tolist(), 1e-8):
                    bad = "outputs"
            if op in (FWD, INV) and row["kind"] == 0:
                pos += lens[k]
            if bad:
                mm.append({"layer": "BatchNorm", "channel": c, "ops": [NAMES[o] for o in ops[:k + 1]], "what": bad})
                return


def frozen_in_a_flow(ck, seed):
    """the layers inside a flow: a normalisation layer that was put in evaluation mode (frozen) while the flow trains keeps that
    mode through the flow's own calls - sampling only calls inverses - and the next forward pass then neither moves BatchNorm's
    running statistics nor runs ActNorm's initialisation"""
    from nflows.flows.base import Flow
    from nflows.flows.realnvp import SimpleRealNVP
    from nflows.distributions.normal import StandardNormal
    from nflows.transforms.base import CompositeTransform
    from nflows.transforms.normalization import ActNorm, BatchNorm
    from nflows.transforms.standard import PointwiseAffineTransform
    torch.manual_seed(seed % 100000 + 3)
    flows = (("SimpleRealNVP(batch norm between layers)", lambda: SimpleRealNVP(features=4, hidden_features=8, num_layers=2, num_blocks_per_layer=1,
                                                                                 batch_norm_between_layers=True)),
             ("Flow(affine ; ActNorm ; BatchNorm, StandardNormal)", lambda: Flow(CompositeTransform([PointwiseAffineTransform(0.1, 1.2), ActNorm(4), BatchNorm(4)]),
                                                                               StandardNormal([4]))))
    for fname, mk in flows:
        for call in ("sample", "sample_and_log_prob", "transform_to_noise"):
            fl = mk()
            fl.train()
            g = tgen(seed, "c14-flow", fname, call)
            for _ in range(3):
                fl.log_prob(torch.randn(32, 4, generator=g) * 2.0 + 1.0)
            norms = [m for m in fl.modules() if isinstance(m, (BatchNorm, ActNorm))]
            for m in norms:
                m.eval()
            flags = [m.training for m in fl.modules()]
            state = {k: v.clone() for k, v in fl.state_dict().items()}
            ck.case(("c14-flow", fname, call), nontrivial=True)
            case = {"search": "frozen-layers-in-a-flow", "flow": fname, "call": call, "seed": seed}
            with torch.no_grad():
                r = attempt(fl.sample, 5) if call == "sample" else (attempt(fl.sample_and_log_prob, 5) if call == "sample_and_log_prob"
                                                                     else attempt(fl.transform_to_noise, torch.randn(6, 4, generator=g)))
            if r[0] != "ok":
                ck.count("flow-call-raises:%s:%s" % (call, r[1]))
                continue
            now = [m.training for m in fl.modules()]
            if now != flags:
                ck.finding("norm:mode-changed-by-flow-call:%s" % call,
                           "%s: flow in training mode, normalisation layers frozen with eval(); after flow.%s the training flags went from %s to %s"
                           % (fname, call, flags, now), case)
                continue
            fl.log_prob(torch.randn(16, 4, generator=g) * 3.0 - 2.0)
            moved = [k for k, v in fl.state_dict().items() if ("running" in k or "initialized" in k) and not torch.equal(v, state[k])]
            if moved:
                ck.finding("norm:frozen-layer-state-moved:%s" % call, "%s: after flow.%s a forward pass changed %s of layers that are in evaluation mode"
                           % (fname, call, moved), case)


def run(tier, seed):
    ck = Check("C14", tier, seed, areas=["norm"], gen_groups=["Norm"])
    ck.rule = ("histories over {train(), eval(), forward(batch), inverse(batch), save+load into a fresh instance} with "
               "fresh random batches of varying size (2-7 rows; 1-3 images of 2x2, 1x3 or 2x3 pixels), run in lock-step on ActNorm (2-D and 4-D) and BatchNorm and on the extracted model "
               "per feature/channel; non-trivial = at least one forward after the initialising step; distinct by "
               "(layer, dims, op sequence)")
    ck.assumptions = ["a freshly constructed instance is in training mode (torch default)",
                      "initialising batches have >= 2 elements per channel and non-zero variance"]
    ck.build()
    drv = ck.driver("norm") if ck.have_driver("norm") else None
    mm, n = [], 0
    for hi, ops in enumerate(histories(tier, seed)):
        for dims in (2, 4):
            n += 1
            ck.case(("an", dims, tuple(ops)), nontrivial=ops.count(FWD) >= 2)
            ck.count("ActNorm-%dD" % dims)
            run_actnorm(ck, drv, ops, dims, seed + hi, mm)
            if hi % 3 == 0:
                # a single feature / a single-channel image: a size-one axis is still an axis
                n += 1
                ck.case(("an", dims, tuple(ops), "one-feature"), nontrivial=ops.count(FWD) >= 2)
                run_actnorm(ck, drv, ops, dims, seed + hi, mm, C=1)
        n += 1
        ck.case(("bn", tuple(ops)), nontrivial=ops.count(FWD) >= 2)
        ck.count("BatchNorm")
        run_batchnorm(ck, drv, ops, seed + hi, mm)
    frozen_in_a_flow(ck, seed)
    ck.sample({"history": [NAMES[o] for o in histories(tier, seed)[3]]})
    if drv is not None:
        ck.correspondence("lock-step histories: flags, parameters / running statistics, outputs, outcome", n, mm)
    return ck.finish()


def replay(payload):
    print("replay:", payload.get("replay"))
    return 0
