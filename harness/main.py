"""Entry point: ./check <id> [quick|thorough] [--replay file]"""
import importlib
import json
import sys

from common import tier_and_seed


def main(argv):
    if not argv:
        print("usage: check <property-id> [quick|thorough] [--replay <file>]")
        return 2
    pid = argv[0]
    tier, seed = tier_and_seed(argv[1:])
    mod = importlib.import_module("prop_" + pid)
    if "--replay" in argv:
        path = argv[argv.index("--replay") + 1]
        payload = json.load(open(path))
        return mod.replay(payload)
    return mod.run(tier, seed)


if __name__ == "__main__":
    sys.exit(main(sys.argv[1:]))
