"""Entry point: ./check <id> [quick|thorough] [--replay file]"""
import importlib
import json
import sys

from common import tier_and_seed


def main(argv):
    if not argv:
        print("usage: check <property-id> [quick|thorough] [--replay <file>]")
        return 2
    pid = argv[0]
    tier, seed = tier_and_seed(argv[1:])
    mod = importlib.import_module("prop_" + pid)
    if "--replay" in argv:
        path = argv[argv.index("--replay") + 1]
        payload = json.load(open(path))
        return mod.replay(payload)
    try:
        return mod.run(tier, seed)
    except Exception as ex:     # the implementation (or the harness) raised where no exception was expected
        import traceback
        import common
        tb = traceback.format_exc()
        frames = [f for f in traceback.extract_tb(ex.__traceback__) if "/nflows/" in f.filename]
        where = "%s:%s" % (frames[-1].filename.split("/nflows/")[-1], frames[-1].name) if frames else "harness"
        ck = common.CURRENT
        if ck is None:
            print(tb)
            print("VIOLATION property=%s replay=none no-failing-input-found" % pid)
            return 1
        ck.finding("unexpected-exception:%s:%s" % (type(ex).__name__, where),
                   "the search stopped on an exception raised at %s: %s" % (where, str(ex)[:200]),
                   {"search": "exception", "traceback": tb[-3000:]})
        return ck.finish()


if __name__ == "__main__":
    sys.exit(main(sys.argv[1:]))
