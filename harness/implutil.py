"""Helpers for driving the real nflows implementation."""
import itertools
import math
import random

import torch

torch.set_num_threads(4)
import warnings
warnings.filterwarnings("ignore")

EXC_NAMES = {"InputOutsideDomain": "InputOutsideDomain", "InverseNotAvailable": "InverseNotAvailable"}


def exc_kind(ex):
    n = type(ex).__name__
    if n in EXC_NAMES:
        return n
    for base, name in ((TypeError, "TypeError"), (ValueError, "ValueError"), (IndexError, "IndexError"),
                       (AssertionError, "AssertionError"), (AttributeError, "AttributeError"),
                       (RuntimeError, "RuntimeError"), (NotImplementedError, "RuntimeError")):
        if isinstance(ex, base):
            return name
    return n


def attempt(fn, *a, **kw):
    """-> ('ok', value) | ('err', kind, message)"""
    try:
        return ("ok", fn(*a, **kw))
    except Exception as ex:  # noqa
        return ("err", exc_kind(ex), str(ex)[:200])


def close(a, b, tol=1e-9, scale=1.0):
    if isinstance(a, (list, tuple)):
        return len(a) == len(b) and all(close(x, y, tol, scale) for x, y in zip(a, b))
    if math.isnan(a) or math.isnan(b):
        return math.isnan(a) and math.isnan(b)
    if math.isinf(a) or math.isinf(b):
        return a == b
    return abs(a - b) <= tol * scale * (1.0 + abs(a) + abs(b))


def shapes_upto(maxdims, maxsize, mindims=1):
    for nd in range(mindims, maxdims + 1):
        for s in itertools.product(range(1, maxsize + 1), repeat=nd):
            yield list(s)


def iota(shape, dtype=torch.int64, start=1):
    n = 1
    for s in shape:
        n *= s
    return torch.arange(start, start + n, dtype=dtype).reshape(shape)


def flat(t):
    return t.reshape(-1).tolist()


def stable_hash(*parts):
    """process-independent hash (Python's hash() of str depends on PYTHONHASHSEED)"""
    import zlib
    return zlib.crc32(repr(parts).encode()) & 0x7FFFFFFF


def rng(seed, *salt):
    return random.Random(stable_hash(seed, *salt))


def tgen(seed, *salt):
    g = torch.Generator()
    g.manual_seed(stable_hash(seed, *salt))
    return g
