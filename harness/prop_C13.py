"""C13: evaluation is free of side effects on arguments and on the model."""
import copy

import torch

from common import Check
from implutil import attempt, tgen
import catalogue


def state_equal(a, b):
    return a.keys() == b.keys() and all(torch.equal(a[k], b[k]) if a[k].dtype == b[k].dtype else False for k in a)


def variants(x):
    """the same values as a contiguous tensor, a non-contiguous view, an expanded-then-sliced view, a grad leaf"""
    out = [("contiguous", x.clone())]
    big = torch.zeros([x.shape[0], 2] + list(x.shape[1:]), dtype=x.dtype)
    big[:, 0] = x
    out.append(("strided-view", big[:, 0]))
    if x.dim() >= 2:
        out.append(("transposed-view", x.clone().transpose(0, 1).contiguous().transpose(0, 1)))
    out.append(("requires-grad", x.clone().requires_grad_(True)))
    return out


def search(ck, tier, seed):
    ents = catalogue.entries(tier) + catalogue.boundary_entries()
    # single-channel / single-pixel images: permute + reshape is then a VIEW of the argument, not a copy
    from nflows.transforms import normalization as norm_
    for nm_, shp_ in (("ActNorm(image, one channel)", [1, 2, 3]), ("ActNorm(image, one pixel)", [3, 1, 1])):
        ents.append(dict(name=nm_, make=(lambda c_=shp_[0]: norm_.ActNorm(c_)), shape=shp_, ctx=None, dom="real", inv_dom=None,
                         umnn=False, kinks=False, train_ok=True))
    todo = [(e, mode, dt) for e in ents for mode in ("eval", "train") for dt in (torch.float32, torch.float64)]
    # the first training-mode call of a fresh instance (data-dependent initialisation happens inside it)
    todo += [(e, "first-train", dt) for e in ents for dt in (torch.float32, torch.float64)
             if any(k in e["name"] for k in ("ActNorm", "BatchNorm", "Multiscale"))]
    for e, mode, dtype in todo:
        if True:
            t = attempt(catalogue.build, e, seed, dtype, mode != "eval", False, mode == "first-train")
            if t[0] != "ok":
                continue
            t = t[1]
            x, ctx = catalogue.sample_inputs(e, 4, seed + 5, dtype)
            for vname, xv in variants(x):
                for direction in ("forward", "inverse"):
                    if mode == "first-train":
                        if direction == "inverse":
                            continue
                        t = catalogue.build(e, seed, dtype, True, False, True)     # a fresh instance per first call
                    ck.case(("c13", e["name"], mode, str(dtype), vname, direction), nontrivial=True)
                    ck.count(mode)
                    if direction == "inverse":
                        with torch.no_grad():
                            r0 = attempt(t.forward, x, ctx)
                        if r0[0] != "ok":
                            continue
                        base = r0[1][0].detach()
                        arg = dict(variants(base))[vname] if vname in dict(variants(base)) else base.clone()
                    else:
                        arg = xv
                    before = arg.detach().clone()
                    ver = arg._version
                    cbefore = None if ctx is None else ctx.clone()
                    cver = None if ctx is None else ctx._version
                    sd0 = copy.deepcopy(t.state_dict())
                    fn = t.forward if direction == "forward" else t.inverse
                    r1 = attempt(fn, arg, ctx)
                    case = {"search": "side-effects", "entry": e["name"], "mode": mode, "dtype": str(dtype), "input": vname, "direction": direction, "seed": seed}
                    if r1[0] != "ok":
                        continue
                    if not torch.equal(arg.detach(), before) or arg._version != ver:
                        ck.finding("side-effect:argument-modified:%s" % e["name"],
                                   "%s %s (%s, %s %s input): the input tensor was written (version %d -> %d)"
                                   % (e["name"], direction, mode, dtype, vname, ver, arg._version), case)
                    if ctx is not None and (not torch.equal(ctx, cbefore) or ctx._version != cver):
                        ck.finding("side-effect:context-modified:%s" % e["name"], "%s %s (%s)" % (e["name"], direction, mode), case)
                    sd1 = t.state_dict()
                    if not state_equal(sd0, sd1):
                        changed = [k for k in sd0 if not torch.equal(sd0[k], sd1[k])]
                        documented = all(("running_" in k) or ("num_batches_tracked" in k) or ("log_scale" in k) or ("shift" in k) or ("initialized" in k) for k in changed)
                        if mode == "eval" or not documented:      # training / first training call: documented statistics only
                            ck.finding("side-effect:state-modified:%s:%s" % (mode, e["name"]),
                                       "%s %s in %s mode changed %s" % (e["name"], direction, mode, changed), case)
                    if mode == "eval":
                        r2 = attempt(fn, arg, ctx)
                        if r2[0] == "ok" and not (torch.equal(r1[1][0], r2[1][0]) and torch.equal(r1[1][1], r2[1][1])):
                            ck.finding("side-effect:repeat-call-differs:%s" % e["name"], "%s %s" % (e["name"], direction), case)
    # a batch of ANOTHER dtype than the model's (float32 data into a float64 model and back): whether the call is accepted or
    # refused, the model's parameters and buffers keep their values and dtypes, and a call with the model's own dtype afterwards
    # returns what it returned before
    for e in ents:
        for mdt, xdt in ((torch.float64, torch.float32), (torch.float32, torch.float64)):
            t = attempt(catalogue.build, e, seed, mdt, False)
            if t[0] != "ok":
                continue
            t = t[1]
            x, ctx = catalogue.sample_inputs(e, 3, seed + 6, mdt)
            ck.case(("c13-cross-dtype", e["name"], str(mdt), str(xdt)), nontrivial=True)
            ck.count("cross-dtype")
            case = {"search": "cross-dtype", "entry": e["name"], "model_dtype": str(mdt), "input_dtype": str(xdt), "seed": seed}
            with torch.no_grad():
                r0 = attempt(t.forward, x, ctx)
            if r0[0] != "ok":
                continue
            sd0 = copy.deepcopy(t.state_dict())
            with torch.no_grad():
                attempt(t.forward, x.to(xdt), None if ctx is None else ctx.to(xdt))
                attempt(t.inverse, r0[1][0].to(xdt), None if ctx is None else ctx.to(xdt))
            sd1 = t.state_dict()
            if not state_equal(sd0, sd1):
                changed = [k for k in sd0 if sd0[k].dtype != sd1[k].dtype or not torch.equal(sd0[k], sd1[k])]
                ck.finding("side-effect:state-modified:eval:cross-dtype:%s" % e["name"],
                           "%s (%s model) called with a %s batch in evaluation mode changed %s" % (e["name"], mdt, xdt, changed), case)
                continue
            with torch.no_grad():
                r2 = attempt(t.forward, x, ctx)
            if r2[0] == "ok" and not (torch.equal(r0[1][0], r2[1][0]) and torch.equal(r0[1][1], r2[1][1])):
                ck.finding("side-effect:repeat-call-differs:cross-dtype:%s" % e["name"],
                           "%s: the same %s call returns something else after a %s batch went through" % (e["name"], mdt, xdt), case)
    # distributions and flows: log_prob / sample do not modify arguments or (in eval mode) state
    from nflows.distributions import normal, discrete, mixture
    from nflows.flows.base import Flow
    from nflows.transforms.autoregressive import MaskedAffineAutoregressiveTransform
    dists = [("StandardNormal", normal.StandardNormal([3]), [3], None),
             ("ConditionalDiagonalNormal", normal.ConditionalDiagonalNormal([3]), [3], 6),
             ("DiagonalNormal", normal.DiagonalNormal([3]), [3], None),
             ("ConditionalIndependentBernoulli", discrete.ConditionalIndependentBernoulli([3]), [3], 3),
             ("MADEMoG", mixture.MADEMoG(3, 8, 2, num_mixture_components=2), [3], 2),
             ("ConditionalDiagonalNormal(scalar event)", normal.ConditionalDiagonalNormal([]), [], 2),
             ("ConditionalDiagonalNormal(one feature)", normal.ConditionalDiagonalNormal([1]), [1], 2),
             ("Flow", Flow(MaskedAffineAutoregressiveTransform(3, 8, context_features=2), normal.StandardNormal([3])), [3], 2)]
    from nflows.transforms import normalization as nm13_, base as b13_, standard as st13_
    dists.append(("Flow(mixed modes: training flow, frozen BatchNorm / ActNorm)",
                  Flow(b13_.CompositeTransform([st13_.PointwiseAffineTransform(0.1, 1.2), nm13_.BatchNorm(3), nm13_.ActNorm(3)]), normal.StandardNormal([3])), [3], None))
    for name, d, ev, cf in dists:
        d.eval()
        if "mixed modes" in name:
            d.train()
            for m_ in d.modules():
                if isinstance(m_, (nm13_.BatchNorm, nm13_.ActNorm)):
                    m_.eval()
        g = tgen(seed, "c13d", name)
        x = torch.rand(4, *ev, generator=g)
        if "Bernoulli" in name:
            x = (x > 0.5).float()
        c = None if cf is None else torch.randn(4, cf, generator=g)
        calls = [("log_prob", None, None), ("transform_to_noise", None, None)]
        # sample counts 1 and 3 (one draw per row makes repeat_rows / split return views), batched and not
        calls += [("sample", n_, bs_) for n_ in (1, 3) for bs_ in (None, 1, 2)] + [("sample_and_log_prob", n_, None) for n_ in (1, 3)]
        calls += [("mean", None, None)]
        for call, n_, bs_ in calls:
            if not hasattr(d, call) or (call not in ("log_prob", "mean") and name == "DiagonalNormal"):
                continue
            ck.case(("c13-dist", name, call, n_, bs_), nontrivial=True)
            xb, cb = x.clone(), None if c is None else c.clone()
            sd0 = copy.deepcopy(d.state_dict())
            modes0 = [m_.training for m_ in d.modules()]
            if call in ("log_prob", "transform_to_noise"):
                r = attempt(getattr(d, call), x, c)
            elif call == "mean":
                r = attempt(d.mean, c)
            elif bs_ is not None:
                r = attempt(d.sample, n_, c, bs_)
            else:
                r = attempt(getattr(d, call), n_, c)
            if r[0] != "ok":
                continue
            case = {"search": "dist", "class": name, "call": call, "n": n_, "batch_size": bs_}
            if not torch.equal(x, xb) or (c is not None and not torch.equal(c, cb)):
                ck.finding("side-effect:argument-modified:%s.%s" % (name, call), "%s.%s modified its arguments" % (name, call), case)
            if not state_equal(sd0, d.state_dict()):
                ck.finding("side-effect:state-modified:eval:%s.%s" % (name, call), "%s.%s changed the state dict" % (name, call), case)
            modes1 = [m_.training for m_ in d.modules()]
            if modes1 != modes0:
                ck.finding("side-effect:module-modes-changed:%s" % call,
                           "%s.%s changed the training flags of its modules from %s to %s" % (name, call, modes0, modes1), case)
                for m_, f_ in zip(d.modules(), modes0):
                    m_.training = f_


def run(tier, seed):
    ck = Check("C13", tier, seed, areas=[], gen_groups=["Tables"])
    ck.rule = ("every catalogue transform x {eval, train, first training call of a fresh normalisation layer} x {float32, float64} x {forward, inverse} x inputs that are contiguous / strided views / "
               "transposed views / grad leaves: argument data and _version, context, state_dict and repeated outputs compared "
               "bit-for-bit; distributions and flows: log_prob / sample / sample_and_log_prob / transform_to_noise; "
               "non-trivial = all; distinct by (entry, mode, input kind, direction)")
    ck.assumptions = ["the translator's alias analysis (which expressions are views, fresh tensors, call results) is trusted for "
                      "the table and validated by this dynamic check"]
    ck.build()
    import json, os
    from common import GEN
    try:
        st = json.load(open(os.path.join(GEN, "STATUS.json")))["Tables"]
        ck.sample({"generated_table": "Gen/Tables.v inplace_table", "translator_ok": st["ok"]})
    except Exception:
        pass
    search(ck, tier, seed)
    return ck.finish()


def replay(payload):
    print("replay:", payload.get("replay"))
    return 0
