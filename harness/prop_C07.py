"""C07: coupling layers leave identity features untouched and condition only on them."""
import itertools

import torch
from torch import nn

from common import Check, Z, F, z, ModelErr
from implutil import attempt, rng, tgen, flat

NEG = [-2.0, -1.0, 0.0]
POS = [0.5, 1.0, 3.0]


class RecNet(nn.Module):
    """Integer-valued recording conditioner: out[o] = (o+1) * sum_c (c+1) * in[c] + o (+ sum of context)"""

    def __init__(self, nin, nout):
        super().__init__()
        self.nin, self.nout = nin, nout
        self.calls = []

    def forward(self, inputs, context=None):
        w = torch.arange(1, self.nin + 1, dtype=inputs.dtype)
        shape = [1, self.nin] + [1] * (inputs.dim() - 2)
        s = (inputs * w.reshape(shape)).sum(1, keepdim=True)            # [b,1,...]
        o = torch.arange(self.nout, dtype=inputs.dtype).reshape([1, self.nout] + [1] * (inputs.dim() - 2))
        out = (o + 1) * s + o
        if context is not None:
            out = out + context.sum(1).reshape([-1] + [1] * (inputs.dim() - 1))
        self.calls.append((inputs.detach().clone(), None if context is None else context.detach().clone(), out.detach().clone()))
        return out


def mask_values(pattern):
    return [POS[i % 3] if bit else NEG[i % 3] for i, bit in enumerate(pattern)]


def all_patterns(F):
    return list(itertools.product([0, 1], repeat=F))


def run(tier, seed):
    ck = Check("C07", tier, seed, areas=["coupling"], gen_groups=["Context"])
    ck.rule = ("every mask pattern over F features (F <= 4 quick / 6 thorough) with numeric values from {-2,-1,0} and "
               "{0.5,1,3}, x {additive, affine} couplings with an integer-valued recording conditioner (exact "
               "comparison with the extracted model, 2-D and 4-D, with/without context) and x the seven coupling "
               "classes with random residual networks (bit-exact perturbation experiment); non-trivial = mask has "
               "both identity and transformed features; distinct by (class, mask, dims, context)")
    ck.build()
    drv = ck.driver("coupling") if ck.have_driver("coupling") else None
    from nflows.transforms import coupling as cp
    maxF = 4 if tier == "quick" else 6
    mm_idx, mm_val, n_idx, n_val = [], [], 0, 0
    # exhaustively up to maxF features, then larger masks whose two sides are irregularly spaced (not arithmetic progressions,
    # although their first two and last indices may suggest one), fixed and random
    import random as _random
    rr_ = _random.Random("c07-big-%d" % seed)
    big = [(1, 0, 1, 1, 0, 0, 1, 0), (0, 1, 0, 0, 1, 1, 0, 1), (1, 0, 1, 1, 0, 0, 1), (0, 1, 0, 0, 1, 1, 0), (1, 1, 0, 1, 0, 0, 0, 1, 0),
           (0, 0, 1, 0, 1, 1, 0, 0, 0, 1)]
    big += [tuple(rr_.randint(0, 1) for _ in range(rr_.randint(7, 11))) for _ in range(8 if tier == "quick" else 40)]
    big = [p_ for p_ in big if 0 < sum(p_) < len(p_)]
    for pat in [p_ for Fe_ in range(1, maxF + 1) for p_ in all_patterns(Fe_)] + big:
        Fe = len(pat)
        if True:
            mask = mask_values(pat)
            imask = [int(2 * v) for v in mask]
            nontriv = 0 < sum(pat) < Fe
            # --- index buffers
            res = attempt(cp.AdditiveCouplingTransform, mask, lambda i, o: RecNet(i, o))
            ck.case(("mask", tuple(mask)), nontrivial=nontriv)
            if res[0] != "ok":
                ck.count("constructor-raises:" + res[1])
                continue
            t = res[1]
            if drv is not None:
                m = drv.call("idx", Z(imask))
                n_idx += 1
                im = [t.identity_features.tolist(), t.transform_features.tolist()]
                if m != im:
                    mm_idx.append({"mask": mask, "model": m, "impl": im})
            # --- exact value correspondence, additive + affine, 2-D and 4-D
            for kind, cls in ((0, cp.AdditiveCouplingTransform), (1, cp.AffineCouplingTransform)):
                for dims in (2, 4):
                    for ctxd in (None, 2):
                        if tier == "quick" and Fe == maxF and (dims == 4) != (ctxd is None):
                            continue
                        kw = {"scale_activation": (lambda v: v + 3.0)} if kind == 1 else {}
                        t = cls(mask, lambda i, o: RecNet(i, o), **kw)
                        shape = [2, Fe] if dims == 2 else [2, Fe, 2, 3]
                        npos = 1 if dims == 2 else 6
                        numel = 2 * Fe * npos
                        x = (torch.arange(numel, dtype=torch.float64).reshape(shape) % 7) + 1
                        ctx = None if ctxd is None else torch.tensor([[1.0, 2.0], [3.0, -1.0]], dtype=torch.float64)
                        key = (cls.__name__, tuple(mask), dims, ctxd)
                        ck.case(key, nontrivial=nontriv)
                        r = attempt(t, x, ctx)
                        if r[0] != "ok":
                            ck.count("forward-raises:" + r[1])
                            if nontriv:
                                ck.finding("coupling:forward-raises:%s" % cls.__name__, "mask %s dims %d: %s" % (mask, dims, r[1:]),
                                           {"search": "fwd", "mask": mask, "cls": cls.__name__, "dims": dims})
                            continue
                        y, _ = r[1]
                        seen_in, _, params = t.transform_net.calls[-1]
                        ri = attempt(t.inverse, y, ctx)
                        if ri[0] != "ok" or not torch.equal(ri[1][0], x):
                            ck.finding("coupling:inverse-does-not-undo-forward:%s" % cls.__name__,
                                       "mask %s dims %d ctx %s" % (mask, dims, ctxd),
                                       {"search": "fwd", "mask": mask, "cls": cls.__name__, "dims": dims})
                        if not torch.equal(y[:, t.identity_features], x[:, t.identity_features]):
                            ck.finding("coupling:identity-features-changed:%s" % cls.__name__,
                                       "mask %s dims %d: outputs at identity positions differ from inputs" % (mask, dims),
                                       {"search": "fwd", "mask": mask, "cls": cls.__name__, "dims": dims})
                        if drv is not None:
                            for b in range(2):
                                n_val += 1
                                m = drv.call("fwd", Z(imask), z(kind), z(npos), F(flat(x[b])), F(flat(params[b])))
                                bad = None
                                if m[0] != flat(y[b]):
                                    bad = "outputs"
                                elif m[1] != flat(seen_in[b]):
                                    bad = "conditioner input (model says the network is shown %s, it was shown %s)" % (m[1], flat(seen_in[b]))
                                mi = drv.call("inv", Z(imask), z(kind), z(npos), F(flat(y[b])), F(flat(params[b])))
                                if bad is None and mi[0] != flat(x[b]):
                                    bad = "inverse outputs"
                                if bad:
                                    mm_val.append({"cls": cls.__name__, "mask": mask, "dims": dims, "what": bad,
                                                   "model": m[0], "impl": flat(y[b])})
    # ---- bit-for-bit: an identity feature holding -0.0 (or a subnormal) comes back with its sign bit, in both directions
    for cls, kw in ((cp.AdditiveCouplingTransform, {}), (cp.AffineCouplingTransform, {"scale_activation": (lambda v: v + 3.0)})):
        for pat in ((0, 1, 0, 1), (1, 0, 0), (0, 1)):
            for dims in (2, 4):
                t = cls(mask_values(pat), lambda i, o: RecNet(i, o), **kw)
                shape = [2, len(pat)] if dims == 2 else [2, len(pat), 2, 2]
                x = torch.full(shape, -0.0, dtype=torch.float64)
                x[1] = 5e-324
                x[:, t.transform_features] = 1.5
                ck.case(("negative-zero", cls.__name__, pat, dims), nontrivial=True)
                for direction in ("forward", "inverse"):
                    r = attempt(getattr(t, direction), x)
                    if r[0] != "ok":
                        continue
                    yi, xi = r[1][0][:, t.identity_features], x[:, t.identity_features]
                    if not torch.equal(yi, xi) or not torch.equal(torch.signbit(yi), torch.signbit(xi)):
                        ck.finding("coupling:identity-features-changed:bits:%s" % cls.__name__,
                                   "mask %s, %d-D, %s: identity features holding -0.0 / 5e-324 come back as %s (sign bits %s)"
                                   % (pat, dims, direction, yi.reshape(-1)[:4].tolist(), torch.signbit(yi).reshape(-1)[:4].tolist()),
                                   {"search": "negative-zero", "cls": cls.__name__, "mask": list(pat), "dims": dims, "direction": direction})
                        break
    # ---- a layer restored from another layer's state (same split sizes, another pattern: the two alternating masks of a
    # RealNVP stack): the two index sets still partition the features, the restored layer splits as its donor does, and the
    # identity half passes through it unchanged
    for pa, pb in (((0, 1, 0, 1), (1, 0, 1, 0)), ((1, 0, 1, 0), (0, 1, 0, 1)), ((1, 1, 0, 0, 1), (0, 1, 0, 1, 1)), ((0, 1, 1), (1, 1, 0)),
                   ((1, 0, 1, 1, 0, 0), (0, 1, 0, 1, 0, 1))):
        for cls, kw in ((cp.AdditiveCouplingTransform, {}), (cp.AffineCouplingTransform, {"scale_activation": (lambda v: v + 3.0)})):
            donor = cls(mask_values(pa), lambda i, o: RecNet(i, o), **kw)
            t = cls(mask_values(pb), lambda i, o: RecNet(i, o), **kw)
            ck.case(("restored", cls.__name__, pa, pb), nontrivial=True)
            case = {"search": "restored-layer", "cls": cls.__name__, "donor": list(pa), "own": list(pb)}
            r = attempt(t.load_state_dict, donor.state_dict())
            if r[0] != "ok":
                ck.count("restored-layer-load-raises")
                continue
            idf, trf = t.identity_features.tolist(), t.transform_features.tolist()
            if sorted(idf + trf) != list(range(len(pa))):
                ck.finding("coupling:index-sets-do-not-partition:restored:%s" % cls.__name__,
                           "a layer built with mask %s and loaded from a layer with mask %s has identity %s / transformed %s" % (pb, pa, idf, trf), case)
                continue
            x = (torch.arange(2 * len(pa), dtype=torch.float64).reshape(2, len(pa)) % 7) + 1
            r = attempt(t, x)
            rd = attempt(donor, x)
            if r[0] != "ok" or rd[0] != "ok":
                continue
            if not torch.equal(r[1][0][:, idf], x[:, idf]):
                ck.finding("coupling:identity-features-changed:restored:%s" % cls.__name__, "restored layer, masks %s <- %s" % (pb, pa), case)
            if [idf, trf] == [donor.identity_features.tolist(), donor.transform_features.tolist()] and not torch.equal(r[1][0], rd[1][0]):
                ck.finding("coupling:restored-layer-differs-from-donor:%s" % cls.__name__, "masks %s <- %s" % (pb, pa), case)
            ri = attempt(t.inverse, r[1][0])
            if ri[0] != "ok" or not torch.equal(ri[1][0], x):
                ck.finding("coupling:inverse-does-not-undo-forward:restored:%s" % cls.__name__, "masks %s <- %s" % (pb, pa), case)
    # ... and the layers built AFTER those loads (and the donors, which were only read) still split as their own masks say: a
    # layer's index buffers are its own, not shared with the layers that were loaded
    for pa, pb in (((0, 1, 0, 1), (1, 0, 1, 0)), ((1, 1, 0, 0, 1), (0, 1, 0, 1, 1)), ((0, 1, 1), (1, 1, 0)), ((1, 0, 1, 1, 0, 0), (0, 1, 0, 1, 0, 1))):
        first = cp.AdditiveCouplingTransform(mask_values(pb), lambda i, o: RecNet(i, o))
        donor = cp.AdditiveCouplingTransform(mask_values(pa), lambda i, o: RecNet(i, o))
        loaded = cp.AdditiveCouplingTransform(mask_values(pb), lambda i, o: RecNet(i, o))
        attempt(loaded.load_state_dict, donor.state_dict())
        later = cp.AffineCouplingTransform(mask_values(pb), lambda i, o: RecNet(i, o), scale_activation=(lambda v: v + 3.0))
        ck.case(("after-load", pa, pb), nontrivial=True)
        for who, lay, pat in (("a layer built before the load", first, pb), ("the donor", donor, pa), ("a layer built after the load", later, pb)):
            want = [[i for i, m_ in enumerate(pat) if m_ <= 0], [i for i, m_ in enumerate(pat) if m_ > 0]]
            got = [lay.identity_features.tolist(), lay.transform_features.tolist()]
            if got != want:
                ck.finding("coupling:index-buffers-shared-between-layers",
                           "after a layer with mask %s was loaded from a layer with mask %s, %s (mask %s) has identity %s / transformed %s"
                           % (pb, pa, who, pat, got[0], got[1]), {"search": "after-load", "donor": list(pa), "own": list(pb), "who": who})
                break
    ck.sample({"mask": mask_values((0, 1, 0, 1)), "model_idx": drv.call("idx", Z([0, 2, -2, 6])) if drv else None})
    if drv is not None:
        ck.correspondence("identity/transform index buffers", n_idx, mm_idx)
        ck.correspondence("additive/affine coupling values, conditioner inputs, inverse (exact)", n_val, mm_val)
    layouts(ck, drv, cp, tier)
    perturbation(ck, cp, tier, seed)
    return ck.finish()


def layouts(ck, drv, cp, tier):
    """parameter layout of the piecewise couplings: what _piecewise_cdf receives vs the model"""
    if drv is None:
        return
    mm, n = [], 0
    for dims in (2, 4):
        for mask in ([1.0, -1.0, 1.0], [0.0, 1.0], [1.0, 1.0, 0.0, 1.0]):
            for bins in (1, 3):
                t = cp.PiecewiseLinearCouplingTransform(mask, lambda i, o: RecNet(i, o), num_bins=bins)
                got = {}
                orig = t._piecewise_cdf

                def spy(inputs, transform_params, inverse=False, _o=orig, _g=got):
                    _g["p"] = transform_params.detach().clone()
                    return torch.zeros_like(inputs), torch.zeros_like(inputs)
                t._piecewise_cdf = spy
                T = int(t.num_transform_features)
                Fe = len(mask)
                shape = [2, Fe] if dims == 2 else [2, Fe, 2, 2]
                x = torch.arange(float(torch.tensor(shape).prod()), dtype=torch.float64).reshape(shape) + 1
                t(x)
                params = t.transform_net.calls[-1][2]
                for b in range(2):
                    n += 1
                    ck.case(("layout", dims, tuple(mask), bins))
                    if dims == 2:
                        m = drv.call("params_2d", z(bins), z(T), F(flat(params[b])))[0]
                    else:
                        m = drv.call("params_4d", z(bins), z(T), z(4), F(flat(params[b])))[0]
                    if m != flat(got["p"][b]):
                        mm.append({"dims": dims, "mask": mask, "bins": bins, "model": m, "impl": flat(got["p"][b])})
    ck.correspondence("piecewise coupling parameter layout", n, mm)


def perturbation(ck, cp, tier, seed):
    from nflows.nn import nets
    classes = [
        ("AdditiveCouplingTransform", lambda m, f, **k: cp.AdditiveCouplingTransform(m, f), {}),
        ("AffineCouplingTransform", lambda m, f, **k: cp.AffineCouplingTransform(m, f), {}),
        ("PiecewiseLinearCouplingTransform", lambda m, f, **k: cp.PiecewiseLinearCouplingTransform(m, f, num_bins=3, **k), {"tails": "linear", "tail_bound": 2.0}),
        ("PiecewiseQuadraticCouplingTransform", lambda m, f, **k: cp.PiecewiseQuadraticCouplingTransform(m, f, num_bins=3, **k), {"tails": "linear", "tail_bound": 2.0}),
        ("PiecewiseCubicCouplingTransform", lambda m, f, **k: cp.PiecewiseCubicCouplingTransform(m, f, num_bins=3, **k), {"tails": "linear", "tail_bound": 2.0}),
        ("PiecewiseRationalQuadraticCouplingTransform", lambda m, f, **k: cp.PiecewiseRationalQuadraticCouplingTransform(m, f, num_bins=3, **k), {"tails": "linear", "tail_bound": 2.0}),
        ("UMNNCouplingTransform", lambda m, f, **k: cp.UMNNCouplingTransform(m, f, integrand_net_layers=[8, 8], cond_size=3, nb_steps=8), {}),
    ]
    maxF = 3 if tier == "quick" else 5
    import random as _random
    rr_ = _random.Random("c07-big-perturb-%d" % seed)
    bigp = [(1, 0, 1, 1, 0, 0, 1, 0), (0, 1, 0, 0, 1, 1, 0, 1), (0, 0, 1, 0, 1, 1, 0, 0, 0, 1)]
    bigp += [tuple(rr_.randint(0, 1) for _ in range(rr_.randint(7, 10))) for _ in range(3 if tier == "quick" else 12)]
    bigp = [p_ for p_ in bigp if 0 < sum(p_) < len(p_)]
    for name, ctor, kw in classes:
        pats = [p_ for Fe_ in range(2, maxF + 1) for p_ in all_patterns(Fe_)]
        if name in ("AffineCouplingTransform", "PiecewiseRationalQuadraticCouplingTransform"):
            pats += bigp
        for pat in pats:
            Fe = len(pat)
            if True:
                if not 0 < sum(pat) < Fe:
                    continue
                mask = mask_values(pat)
                for dims in (2, 4):
                    for uncond in (False, True, "img_shape only"):
                        # "img_shape only": the per-pixel parameter shape is passed although NO unconditional transform is requested
                        if uncond == "img_shape only":
                            if dims != 4 or not name.startswith("Piecewise"):
                                continue
                        if uncond and not name.startswith("Piecewise"):
                            continue
                        if name.startswith("UMNN") and Fe > 3:
                            continue
                        if tier == "quick" and uncond is True and (dims == 4 or Fe == maxF):
                            continue
                        ctxd = 2 if (sum(pat) + Fe) % 2 else None
                        torch.manual_seed(seed + Fe)
                        # conditioners with their regularisers switched on (dropout, batch norm) for the two-feature masks: in
                        # evaluation mode they are deterministic functions of (identity features, context) all the same
                        dp_ = 0.3 if Fe == 2 else 0.0
                        if dims == 2:
                            mk = lambda i, o: nets.ResidualNet(i, o, hidden_features=8, context_features=ctxd, num_blocks=1,
                                                               dropout_probability=dp_, use_batch_norm=dp_ > 0)
                        else:
                            mk = lambda i, o: nets.ConvResidualNet(i, o, hidden_channels=4, context_channels=ctxd, num_blocks=1,
                                                                   dropout_probability=dp_, use_batch_norm=dp_ > 0)
                        extra = dict(kw)
                        if uncond is True:
                            extra["apply_unconditional_transform"] = True
                            if dims == 4:
                                extra["img_shape"] = [2, 2]
                        elif uncond:
                            extra["img_shape"] = [2, 2]
                            uncond = False
                        r = attempt(ctor, mask, mk, **extra)
                        key = ("perturb", name, tuple(mask), dims, uncond, "img_shape" in extra)
                        ck.case(key)
                        ck.count(name)
                        if r[0] != "ok":
                            ck.count("ctor-raises:%s:%s" % (name, r[1]))
                            continue
                        t = r[1].eval()
                        g = tgen(seed, name, Fe, dims)
                        shape = [3, Fe] if dims == 2 else [3, Fe, 2, 2]
                        x = torch.rand(shape, generator=g) * 1.6 - 0.8
                        ctx = None
                        if ctxd:
                            ctx = torch.randn([3, ctxd] if dims == 2 else [3, ctxd, 2, 2], generator=g)
                        for direction in ("forward", "inverse"):
                            fn = t.forward if direction == "forward" else t.inverse
                            with torch.no_grad():
                                b0 = attempt(fn, x, ctx)
                            if b0[0] != "ok":
                                ck.count("%s-raises:%s" % (direction, b0[1]))
                                continue
                            y0 = b0[1][0]
                            idf, trf = t.identity_features.tolist(), t.transform_features.tolist()
                            if not uncond and not torch.equal(y0[:, idf], x[:, idf]):
                                ck.finding("coupling:identity-features-changed:%s" % name,
                                           "%s mask %s dims %d" % (direction, mask, dims),
                                           {"search": "perturb", "cls": name, "mask": mask, "dims": dims})
                            for j in range(Fe):
                                x2 = x.clone()
                                x2[:, j] = x2[:, j] * 0.5 + 0.1
                                with torch.no_grad():
                                    y2 = fn(x2, ctx)[0]
                                # identity channels are compared bit for bit (no arithmetic touches them); transformed channels with a
                                # tolerance of a few float32 ulps: when the perturbed element moves into or out of a spline's interval
                                # the masked subset changes size, and vectorised transcendental kernels may round the SAME scalar
                                # differently depending on its position in the vector (observed with the cubic inverse, 1 ulp)
                                def same(c_):
                                    if c_ in idf and not uncond:
                                        return torch.equal(y2[:, c_], y0[:, c_])
                                    return bool(((y2[:, c_] - y0[:, c_]).abs() <= 2e-5 * (1 + y0[:, c_].abs())).all())
                                changed = [c for c in range(Fe) if not same(c)]
                                if j in trf:
                                    bad = [c for c in changed if c != j]
                                else:
                                    bad = [c for c in changed if c in idf and c != j] if not uncond else []
                                if dims == 4 and j in trf and not bad:
                                    # one position of a transformed channel: nothing but that position may move
                                    x3 = x.clone()
                                    x3[:, j, 0, 1] = x3[:, j, 0, 1] * 0.5 + 0.1
                                    with torch.no_grad():
                                        y3 = fn(x3, ctx)[0]
                                    moved = (y3 - y0).abs() > 2e-5 * (1 + y0.abs())
                                    moved[:, j, 0, 1] = False
                                    if bool(moved.any()):
                                        bad = sorted({int(c) for c in torch.nonzero(moved)[:, 1]})
                                if bad:
                                    ck.finding("coupling:unexpected-dependency:%s" % name,
                                               "%s: perturbing feature %d (%s) changed outputs %s; mask %s dims %d uncond %s"
                                               % (direction, j, "transformed" if j in trf else "identity", bad, mask, dims, uncond),
                                               {"search": "perturb", "cls": name, "mask": mask, "dims": dims, "feature": j})
                                    break


def replay(payload):
    print("replay:", payload.get("replay"))
    return 0
