"""C04: samples and densities of a flow agree, row by row."""
import math

import numpy as np
import torch
from torch import nn

from common import Check, F, z
from implutil import attempt, tgen, close, flat


def revealing_flow(D, ctxdim, embed):
    """a flow whose samples reveal the context row that produced them: x = noise + 1000 * sum(context)"""
    from nflows.flows.base import Flow
    from nflows.distributions.normal import StandardNormal
    from nflows.transforms.base import Transform

    class Shift(Transform):
        def forward(self, inputs, context=None):
            return inputs - 1000.0 * context.sum(1, keepdim=True), inputs.new_zeros(inputs.shape[0])

        def inverse(self, inputs, context=None):
            return inputs + 1000.0 * context.sum(1, keepdim=True), inputs.new_zeros(inputs.shape[0])

    class Emb(nn.Module):
        def forward(self, c):
            return None if c is None else torch.cat([c, c * 0.0], 1)
    return Flow(Shift(), StandardNormal([D]), embedding_net=Emb() if embed else None)


def library_flows():
    from nflows.flows.base import Flow
    from nflows.flows.autoregressive import MaskedAutoregressiveFlow
    from nflows.distributions import normal
    from nflows.transforms import autoregressive as ar, base, lu, nonlinearities as nl, coupling as cp
    from nflows.nn import nets
    out = []
    out.append(("Flow(MAF-transform ctx, StandardNormal)", lambda: Flow(ar.MaskedAffineAutoregressiveTransform(2, 8, context_features=3), normal.StandardNormal([2])), 2, 3))
    out.append(("Flow(LU+LeakyReLU, ConditionalDiagonalNormal)", lambda: Flow(base.CompositeTransform([lu.LULinear(2, identity_init=False), nl.LeakyReLU()]), normal.ConditionalDiagonalNormal([2])), 2, 4))
    out.append(("Flow(RQ coupling ctx, StandardNormal, embedding)", lambda: Flow(cp.PiecewiseRationalQuadraticCouplingTransform(
        [1, 0], lambda i, o: nets.ResidualNet(i, o, 8, context_features=3, num_blocks=1), num_bins=3, tails="linear", tail_bound=3.0),
        normal.StandardNormal([2]), embedding_net=nn.Linear(2, 3)), 2, 2))
    out.append(("Flow(MAF-transform ctx, ConditionalDiagonalNormal, embedding)", lambda: Flow(ar.MaskedAffineAutoregressiveTransform(2, 8, context_features=4),
                normal.ConditionalDiagonalNormal([2]), embedding_net=nn.Linear(3, 4)), 2, 3))
    out.append(("MaskedAutoregressiveFlow (no context)", lambda: MaskedAutoregressiveFlow(2, 8, 2, 1), 2, None))
    from nflows.transforms import qr as qr_, svd as svd_, linear as lin_
    import catalogue as cat_

    def moved(mk_t, D_):
        def make():
            t_ = mk_t()
            cat_.randomize(t_, 11, 0.5)
            return Flow(base.CompositeTransform([t_, nl.LeakyReLU(0.5)]), normal.StandardNormal([D_]))
        return make
    out.append(("Flow(QRLinear(3 reflections, using_cache) + LeakyReLU, StandardNormal), parameters moved", moved(lambda: qr_.QRLinear(3, 3, using_cache=True), 3), 3, None))
    out.append(("Flow(SVDLinear(4 reflections, using_cache) + LeakyReLU, StandardNormal), parameters moved",
                moved(lambda: svd_.SVDLinear(3, 4, using_cache=True, identity_init=False), 3), 3, None))
    out.append(("Flow(LULinear(using_cache) + LeakyReLU, StandardNormal), parameters moved", moved(lambda: lu.LULinear(3, using_cache=True, identity_init=False), 3), 3, None))
    out.append(("Flow(NaiveLinear(using_cache) + LeakyReLU, StandardNormal), parameters moved", moved(lambda: lin_.NaiveLinear(3, using_cache=True), 3), 3, None))
    from nflows.transforms import permutations as perm
    out.append(("MaskedAutoregressiveFlow(4 features, random permutations)", lambda: MaskedAutoregressiveFlow(4, 8, 2, 1, use_random_permutations=True), 4, None))
    out.append(("Flow(RandomPermutation ; MAF-transform ctx ; RandomPermutation, StandardNormal)", lambda: Flow(base.CompositeTransform([
        perm.RandomPermutation(5), ar.MaskedAffineAutoregressiveTransform(5, 8, context_features=3), perm.RandomPermutation(5)]), normal.StandardNormal([5])), 5, 3))
    out.append(("Flow(Sigmoid-1 o affine 1-D, StandardNormal)", lambda: Flow(base.CompositeTransform([nl.LeakyReLU(0.3)]), normal.StandardNormal([1])), 1, None))
    return out


def search(ck, drv, tier, seed):
    from nflows.distributions.normal import StandardNormal
    mm, ncorr = [], 0
    # ---- pairing with a context-revealing flow, recorded noise
    for D in (1, 2):
        for k in (1, 2, 4):
            for n in (1, 2, 5):
                for embed in (False, True):
                    fl = revealing_flow(D, 1, embed)
                    ctx = torch.arange(1, k + 1, dtype=torch.float64).reshape(k, 1)   # float64: 1000 * id + noise keeps the noise digits
                    rec = {}
                    orig = fl._distribution._sample

                    def spy(num, context, _o=orig, _r=rec):
                        out = _o(num, context)
                        _r["noise"] = out.detach().clone()
                        return out
                    fl._distribution._sample = spy
                    torch.manual_seed(seed + k * 10 + n)
                    r = attempt(fl.sample_and_log_prob, n, ctx)
                    ck.case(("pair", D, k, n, embed), nontrivial=k > 1 and n > 1)
                    case = {"search": "pairing", "D": D, "rows": k, "n": n, "embedding": embed, "seed": seed}
                    if r[0] != "ok":
                        ck.finding("pairing:sample_and_log_prob-fails", "%s: %s" % (case, r[1:]), case)
                        continue
                    s, lp = r[1]
                    if list(s.shape) != [k, n, D] or list(lp.shape) != [k, n]:
                        ck.finding("pairing:shapes", "samples %s log_prob %s" % (list(s.shape), list(lp.shape)), case)
                        continue
                    block = torch.round(s / 1000.0)
                    want = torch.arange(1, k + 1, dtype=s.dtype).reshape(k, 1, 1).expand(k, n, D)
                    if not torch.equal(block, want):
                        ck.finding("pairing:sample-drawn-under-wrong-context-row",
                                   "rows %d n %d: sample blocks carry context ids %s" % (k, n, block[..., 0].tolist()), case)
                    # the returned value is log_prob of that sample under that row
                    lp2 = fl.log_prob(s.reshape(k * n, D), ctx.repeat_interleave(n, 0)).reshape(k, n)
                    if not torch.allclose(lp.double(), lp2.double(), atol=1e-5):
                        ck.finding("pairing:returned-log_prob-is-not-log_prob-of-sample", "max diff %g" % float((lp - lp2).abs().max()), case)
                    if drv is not None and "noise" in rec:
                        ncorr += 1
                        m = drv.call("pairing", z(n), z(D), F(flat(rec["noise"].double())), F(ctx.reshape(-1).double().tolist()))[0]
                        if not close(m, flat(s.double()), 1e-6):
                            mm.append({"rows": k, "n": n, "D": D, "embedding": embed})
    # ---- a base distribution whose own draws reveal the context row (mean = 1000 * id), alone and under a flow
    from nflows.distributions.normal import ConditionalDiagonalNormal
    from nflows.flows.base import Flow
    from nflows.transforms.standard import IdentityTransform, PointwiseAffineTransform

    class Enc(nn.Module):
        def __init__(self, D):
            super().__init__()
            self.D = D

        def forward(self, c):
            return torch.cat([1000.0 * c.expand(-1, self.D), torch.zeros(c.shape[0], self.D, dtype=c.dtype)], 1)
    for D in (1, 2):
        class Emb(nn.Module):          # an embedding network that is not the identity: c -> 3 c + 7
            def forward(self, c):
                return None if c is None else 3.0 * c + 7.0
        objs = {"ConditionalDiagonalNormal": ConditionalDiagonalNormal([D], context_encoder=Enc(D)),
                "Flow(Identity, ConditionalDiagonalNormal, embedding 3c+7)": Flow(IdentityTransform(), ConditionalDiagonalNormal([D], context_encoder=Enc(D)),
                                                                               embedding_net=Emb()),
                "Flow(Identity, ConditionalDiagonalNormal)": Flow(IdentityTransform(), ConditionalDiagonalNormal([D], context_encoder=Enc(D))),
                "Flow(Affine, ConditionalDiagonalNormal)": Flow(PointwiseAffineTransform(0.25, 1.0), ConditionalDiagonalNormal([D], context_encoder=Enc(D)))}
        for name, d in objs.items():
            for k in (1, 2, 3):
                for n in (1, 2, 5):
                    ctx = torch.arange(1, k + 1, dtype=torch.float32).reshape(k, 1)
                    ck.case(("base-rows", name, D, k, n), nontrivial=k > 1 and n > 1)
                    case = {"search": "base-rows", "object": name, "D": D, "rows": k, "n": n, "seed": seed}
                    for meth in ("sample", "sample_and_log_prob", "sample/batch_size=1", "sample/batch_size=2"):
                        torch.manual_seed(seed + k + n)
                        if "/" in meth:       # Flow.sample inherits the batching loop of Distribution.sample
                            r = attempt(d.sample, n, ctx, int(meth[-1]))
                        else:
                            r = attempt(getattr(d, meth), n, ctx)
                        if r[0] != "ok":
                            ck.finding("base-rows:%s-fails:%s" % (meth, name), "%s %s" % (r[1], r[2]), case)
                            continue
                        smp = r[1] if meth.startswith("sample") and meth != "sample_and_log_prob" else r[1][0]
                        if list(smp.shape) != [k, n, D]:
                            ck.finding("base-rows:shape:%s" % name, "%s -> %s" % (meth, list(smp.shape)), case)
                            continue
                        ids = torch.round((smp - (0.25 if "Affine" in name else 0.0)) / 1000.0)
                        want = ctx.reshape(k, 1, 1).expand(k, n, D)
                        if "embedding" in name:
                            want = 3.0 * want + 7.0
                        if not torch.equal(ids, want):
                            ck.finding("pairing:sample-drawn-under-wrong-context-row:%s:%s" % (name, meth),
                                       "rows %d n %d: blocks carry context ids %s" % (k, n, ids[..., 0].tolist()), case)
                        if meth == "sample_and_log_prob":
                            lp2 = d.log_prob(smp.reshape(k * n, D), ctx.repeat_interleave(n, 0)).reshape(k, n)
                            if not torch.allclose(r[1][1], lp2, atol=2e-2 if "embedding" in name else 2e-3):
                                ck.finding("pairing:returned-log_prob-is-not-log_prob-of-sample:%s" % name,
                                           "max diff %g" % float((r[1][1] - lp2).abs().max()), case)
    # ---- class-conditional use: the context is a 1-D tensor of integer labels (no feature axis), mapped to parameters by the encoder
    class EncLabel(nn.Module):
        def __init__(self, D):
            super().__init__()
            self.D = D

        def forward(self, c):
            cf = c.to(torch.float32).reshape(-1, 1)
            return torch.cat([1000.0 * cf.expand(-1, self.D), torch.zeros(cf.shape[0], self.D)], 1)
    for D in (1, 2):
        for name, d in (("ConditionalDiagonalNormal(label encoder)", ConditionalDiagonalNormal([D], context_encoder=EncLabel(D))),
                        ("Flow(Affine, ConditionalDiagonalNormal(label encoder))", Flow(PointwiseAffineTransform(0.25, 1.0), ConditionalDiagonalNormal([D], context_encoder=EncLabel(D))))):
            for k in (2, 3):
                for n in (2, 5):
                    labels = torch.arange(1, k + 1)
                    ck.case(("label-rows", name, D, k, n), nontrivial=True)
                    case = {"search": "label-context", "object": name, "D": D, "rows": k, "n": n, "seed": seed}
                    torch.manual_seed(seed + k + n)
                    r = attempt(d.sample_and_log_prob, n, labels)
                    if r[0] != "ok":
                        ck.count("label-context-rejected")
                        continue
                    smp, lp = r[1]
                    if list(smp.shape) != [k, n, D]:
                        ck.finding("base-rows:shape:%s" % name, "1-D label context -> %s" % list(smp.shape), case)
                        continue
                    ids = torch.round((smp - (0.25 if "Affine" in name else 0.0)) / 1000.0)
                    want = labels.to(torch.float32).reshape(k, 1, 1).expand(k, n, D)
                    lp2 = attempt(lambda: d.log_prob(smp.reshape(k * n, D), labels.repeat_interleave(n)).reshape(k, n))
                    if not torch.equal(ids, want):
                        ck.finding("pairing:sample-drawn-under-wrong-context-row:%s" % name,
                                   "1-D label context %s, n %d: blocks carry labels %s" % (labels.tolist(), n, ids[..., 0].tolist()), case)
                    elif lp2[0] == "ok" and not torch.allclose(lp, lp2[1], atol=2e-3):
                        ck.finding("pairing:returned-log_prob-is-not-log_prob-of-sample:%s" % name,
                                   "1-D label context: max diff %g" % float((lp - lp2[1]).abs().max()), case)
    if drv is not None:
        ck.correspondence("merge / repeat_rows / invert / split pairing vs Flow.sample_and_log_prob on recorded noise", ncorr, mm)
    # ---- library flows: log_prob(sample) = returned log_prob, per row; sample(n, ctx) shapes
    for name, mk, D, cd in library_flows():
        torch.manual_seed(seed)
        fl = mk().eval()
        for k in ((None,) if cd is None else (1, 3)):
            for n in (1, 4):
                ctx = None if k is None else torch.randn(k, cd)
                ck.case(("lib", name, k, n), nontrivial=True)
                case = {"search": "library-flow", "flow": name, "rows": k, "n": n, "seed": seed}
                torch.manual_seed(seed + n)
                with torch.no_grad():
                    r = attempt(fl.sample_and_log_prob, n, ctx)
                if r[0] != "ok":
                    ck.finding("flow:sample_and_log_prob-fails:%s" % name, "%s %s" % (r[1], r[2]), case)
                    continue
                s, lp = r[1]
                with torch.no_grad():
                    if k is None:
                        lp2 = fl.log_prob(s)
                    else:
                        lp2 = fl.log_prob(s.reshape(k * n, D), ctx.repeat_interleave(n, 0)).reshape(k, n)
                if lp.shape != lp2.shape or not torch.allclose(lp, lp2, atol=2e-4, rtol=2e-4):
                    ck.finding("flow:returned-log_prob-is-not-log_prob-of-sample:%s" % name,
                               "rows %s n %d: max diff %g" % (k, n, float((lp - lp2).abs().max())), case)
    # ---- a flow that has been used keeps no memory of it: after its parameters change (another checkpoint loaded) or after the
    # SAME context tensor is overwritten in place, sampling and log_prob agree with a twin that was built with the new parameters
    # and has never been called (same generator seed -> same noise).  Evaluation mode, no gradients, as at deployment.
    for name, mk, D, cd in library_flows():
        torch.manual_seed(seed)
        A = mk().eval()
        torch.manual_seed(seed + 1)
        B = mk().eval()
        from catalogue import randomize as _rnd
        _rnd(B, seed + 2, 0.5)
        g = torch.Generator(); g.manual_seed(seed + 3)
        c = torch.randn(3, cd, generator=g) if cd is not None else None
        c_new = torch.randn(3, cd, generator=g) if cd is not None else None
        x = torch.randn(3, D, generator=g) * 0.5
        ck.case(("twin", name), nontrivial=True)
        case = {"search": "used-flow-vs-fresh-twin", "flow": name, "seed": seed}
        with torch.no_grad():
            attempt(A.sample_and_log_prob, 2, c)
            attempt(A.sample, 2, c)
            attempt(A.log_prob, x, c)
        if attempt(A.load_state_dict, B.state_dict())[0] != "ok":
            continue

        def same(u, v):
            return u.shape == v.shape and bool(torch.allclose(u, v, atol=1e-5, rtol=1e-5, equal_nan=True))
        for what in ("after load_state_dict", "after the context tensor was overwritten in place"):
            if what.startswith("after the context"):
                if c is None:
                    break
                c.copy_(c_new)
            cb = c.clone() if c is not None else None
            with torch.no_grad():
                torch.manual_seed(seed + 9); ra = attempt(A.sample_and_log_prob, 4, c)
                torch.manual_seed(seed + 9); rb = attempt(B.sample_and_log_prob, 4, cb)
                torch.manual_seed(seed + 10); sa = attempt(A.sample, 4, c)
                torch.manual_seed(seed + 10); sb = attempt(B.sample, 4, cb)
                la, lb = attempt(A.log_prob, x, c), attempt(B.log_prob, x, cb)
            if "ok" not in (ra[0], rb[0], sa[0], sb[0], la[0], lb[0]):
                continue
            bad = None
            if ra[0] != rb[0] or (ra[0] == "ok" and not (same(ra[1][0], rb[1][0]) and same(ra[1][1], rb[1][1]))):
                bad = "sample_and_log_prob"
            elif sa[0] != sb[0] or (sa[0] == "ok" and not same(sa[1], sb[1])):
                bad = "sample"
            elif la[0] != lb[0] or (la[0] == "ok" and not same(la[1], lb[1])):
                bad = "log_prob"
            if not bad and ra[0] == "ok":
                # ... and what the restored flow returns with its samples is what its log_prob says about them
                with torch.no_grad():
                    s_, lp_ = ra[1]
                    if c is None:
                        l2 = attempt(A.log_prob, s_)
                    else:
                        l2 = attempt(lambda: A.log_prob(s_.reshape(-1, D), c.repeat_interleave(4, 0)).reshape(lp_.shape))
                if l2[0] == "ok" and not torch.allclose(lp_, l2[1], atol=2e-4, rtol=2e-4):
                    bad = "sample_and_log_prob's log-probabilities (not log_prob of its samples, max diff %.3g)," % float((lp_ - l2[1]).abs().max())
            if bad:
                ck.finding("flow:used-flow-differs-from-fresh-twin:%s" % name,
                           "%s: %s %s differs from a never-called twin holding the same parameters (same noise)" % (name, bad, what), case)
                break
    # ---- the noise is standard normal whatever the dtype of the context (only its size and device matter)
    from nflows.transforms.standard import PointwiseAffineTransform as PA
    for dname, mkctx in (("int64", lambda: torch.tensor([[3], [1]], dtype=torch.int64)),
                         ("float16", lambda: torch.tensor([[0.5], [1.5]], dtype=torch.float16)),
                         ("bfloat16", lambda: torch.tensor([[0.5], [1.5]], dtype=torch.bfloat16)),
                         ("float64", lambda: torch.tensor([[0.5], [1.5]], dtype=torch.float64)),
                         ("bool", lambda: torch.tensor([[True], [False]]))):
        for oname, obj, shift, scale in (("StandardNormal", StandardNormal([1]), 0.0, 1.0),
                                         ("Flow(Affine, StandardNormal)", Flow(PA(0.5, 2.0), StandardNormal([1])), 0.5, 2.0)):
            N = 10000
            ck.case(("ctx-dtype", dname, oname), nontrivial=True)
            case = {"search": "context-dtype", "object": oname, "context_dtype": dname, "draws_per_row": N, "seed": seed}
            torch.manual_seed(seed + 5)
            with torch.no_grad():
                r = attempt(obj.sample, N, mkctx())
            if r[0] != "ok":
                ck.count("context-dtype-rejected")     # a refusal is not a wrong sample
                continue
            smp = r[1]
            if list(smp.shape) != [2, N, 1]:
                ck.finding("base-rows:shape:%s" % oname, "context dtype %s -> %s" % (dname, list(smp.shape)), case)
                continue
            v = (smp.double().reshape(-1) * scale + shift).sort().values     # the sample is the inverse of x*scale+shift applied to the noise
            emp = torch.arange(1, v.numel() + 1, dtype=torch.float64) / v.numel()
            ks = float((0.5 * (1 + torch.erf(v / math.sqrt(2))) - emp).abs().max())
            distinct = int(torch.unique(v).numel())
            if (not smp.dtype.is_floating_point) or ks > 0.02 or distinct < 0.97 * v.numel():
                ck.finding("flow:samples-do-not-follow-density:context-dtype:%s" % oname,
                           "context dtype %s: samples dtype %s, KS distance %.4f from the standard normal, %d distinct values in %d"
                           % (dname, smp.dtype, ks, distinct, v.numel()), case)
    from nflows.flows.base import Flow
    from nflows.transforms import standard
    # ---- flows over a MADE mixture base (several clearly unequal components): samples against the integrated density, per context row
    from nflows.distributions import mixture as mix_
    for K in (3, 4):
        torch.manual_seed(seed + 200 + K)
        base_ = mix_.MADEMoG(1, 8, 2, num_blocks=1, num_mixture_components=K, custom_initialization=True)
        gg = torch.Generator(); gg.manual_seed(seed + 31 * K)
        with torch.no_grad():
            for prm in base_.parameters():
                prm.add_(torch.randn(prm.shape, generator=gg) * 0.9)
        flm = Flow(standard.PointwiseAffineTransform(0.4, 1.5), base_).eval()
        ctxm = torch.randn(2, 2, generator=gg)
        ck.case(("ks-mog", K), nontrivial=True)
        gridm = torch.linspace(-60, 60, 240001, dtype=torch.float64)
        for row in range(2):
            with torch.no_grad():
                densm = torch.exp(flm.log_prob(gridm[:, None].float(), ctxm[row:row + 1].expand(gridm.shape[0], -1)).double())
                torch.manual_seed(seed + K + row)
                sm = attempt(flm.sample, 50000, ctxm[row:row + 1])
            if sm[0] != "ok":
                ck.finding("flow:sample-fails:Flow(affine, MADEMoG)", "%s %s" % (sm[1], sm[2]), {"search": "ks-mog", "K": K, "seed": seed})
                break
            sv = sm[1].reshape(-1).double().sort().values
            stepm = float(gridm[1] - gridm[0])
            cdfm = torch.cat([torch.zeros(1, dtype=torch.float64), torch.cumsum((densm[1:] + densm[:-1]) * 0.5 * stepm, 0)])   # trapezoids
            empm = torch.arange(1, sv.numel() + 1, dtype=torch.float64) / sv.numel()
            idxm = torch.searchsorted(gridm, sv).clamp(min=1, max=gridm.numel() - 1)
            fracm = ((sv - gridm[idxm - 1]) / stepm).clamp(0, 1)
            cdf_at = cdfm[idxm - 1] + fracm * (cdfm[idxm] - cdfm[idxm - 1])                                            # interpolated at the sample
            ksm = float(torch.maximum((cdf_at - empm).abs(), (cdf_at - (empm - 1.0 / sv.numel())).abs()).max())
            if ksm > 0.0135 and abs(float(cdfm[-1]) - 1) < 1e-3:      # 50000 samples: the 1e-6 critical value is about 0.012
                ck.finding("flow:samples-do-not-follow-density:Flow(affine, MADEMoG)",
                           "%d mixture components, context row %d: KS distance %.4f between 50000 samples and the integrated density" % (K, row, ksm),
                           {"search": "ks-mog", "K": K, "row": row, "seed": seed})
                break
    # ---- an evaluation-mode model stays in evaluation mode through sampling (its regularisers stay off), so what
    # sample_and_log_prob returns is what log_prob says about those samples afterwards
    for dname_, mkd_ in (("MADEMoG(dropout 0.3, norm in blocks)", lambda: mix_.MADEMoG(2, 8, 2, num_blocks=1, num_mixture_components=2, use_residual_blocks=False,
                                                                                       dropout_probability=0.3, use_batch_norm=True, custom_initialization=True)),
                         ("Flow(affine, MADEMoG(dropout 0.3))", lambda: Flow(standard.PointwiseAffineTransform(0.1, 1.3),
                                                                            mix_.MADEMoG(2, 8, 2, num_blocks=1, num_mixture_components=2, dropout_probability=0.3, custom_initialization=True)))):
        torch.manual_seed(seed + 77)
        dm = mkd_().eval()
        cm = torch.randn(3, 2)
        ck.case(("eval-mode-sampling", dname_), nontrivial=True)
        case = {"search": "eval-mode-sampling", "model": dname_, "seed": seed}
        with torch.no_grad():
            r = attempt(dm.sample_and_log_prob, 4, cm)
        if r[0] != "ok":
            continue
        flipped = [n_ for n_, m_ in dm.named_modules() if m_.training]
        if flipped:
            ck.finding("flow:sampling-leaves-training-mode:%s" % dname_, "%d sub-modules of an eval() model are in training mode after sampling, e.g. %s" % (len(flipped), flipped[:3]), case)
            continue
        with torch.no_grad():
            lp2 = attempt(lambda: dm.log_prob(r[1][0].reshape(12, 2), cm.repeat_interleave(4, 0)).reshape(3, 4))
        if lp2[0] == "ok" and not torch.allclose(r[1][1], lp2[1], atol=1e-4, rtol=1e-4):
            ck.finding("flow:returned-log_prob-is-not-log_prob-of-sample:%s" % dname_, "max diff %g" % float((r[1][1] - lp2[1]).abs().max()), case)
    # ---- the samples follow exp(log_prob): 1-D flow, KS distance against the quadrature CDF (fixed seed; search aid)
    from nflows.flows.base import Flow
    from nflows.transforms import base, nonlinearities as nl, standard
    fl = Flow(base.CompositeTransform([standard.PointwiseAffineTransform(0.3, 1.7), nl.LeakyReLU(0.4)]), StandardNormal([1]))
    torch.manual_seed(seed)
    with torch.no_grad():
        s = fl.sample(20000).reshape(-1).double().sort().values
        grid = torch.linspace(-12, 12, 24001, dtype=torch.float64)
        dens = torch.exp(fl.log_prob(grid[:, None].float()).double())
    cdf = torch.cumsum(dens, 0) * (grid[1] - grid[0])
    emp = torch.arange(1, s.numel() + 1, dtype=torch.float64) / s.numel()
    idx = torch.searchsorted(grid, s).clamp(max=grid.numel() - 1)
    ks = float((cdf[idx] - emp).abs().max())
    ck.case(("ks",), nontrivial=True)
    if ks > 0.02:      # 20000 samples: the 1e-6 critical value is about 0.0195
        ck.finding("flow:samples-do-not-follow-density", "KS distance %.4f between 20000 samples and the integrated density" % ks, {"search": "ks", "seed": seed})


def run(tier, seed):
    ck = Check("C04", tier, seed, areas=["flow"], gen_groups=["Dist", "FlowRows"])
    ck.rule = ("a context-revealing flow (sample = noise + 1000 * context id) for context rows 1/2/4 x draws 1/2/5 x data "
               "dimension 1/2 x with/without embedding net, with the base distribution's noise recorded and replayed through the "
               "extracted pairing model; five library flows: the returned log-probability against log_prob of the returned "
               "sample under the matching context row; one Kolmogorov-Smirnov comparison (fixed seed) of samples with the "
               "integrated density; non-trivial = more than one row and more than one draw; distinct by configuration")
    ck.assumptions = ["the KS comparison is a search aid with a fixed seed; statistical convergence itself is not claimed"]
    ck.build()
    drv = ck.driver("flow") if ck.have_driver("flow") else None
    search(ck, drv, tier, seed)
    ck.sample({"pairing_model": "flow_sample: concat noise, flat_map repeat context, zip inverse, chunks"})
    return ck.finish()


def replay(payload):
    print("replay:", payload.get("replay"))
    return 0
