"""C01: forward log-abs-det equals log|det Jacobian| of the map actually computed."""
import math

import torch

from common import Check
from implutil import attempt, tgen
import catalogue
import splines_h as sh
import splines_corr
import nonlin_corr


def jacobian_check(t, x, ctx):
    """per item: slogdet of the autograd Jacobian vs the returned log-abs-det -> list of abs errors, D"""
    errs = []
    y, lad = t(x, ctx)
    D = x[0].numel()
    for i in range(x.shape[0]):
        xi = x[i:i + 1]
        ci = None if ctx is None else ctx[i:i + 1]

        def f(v):
            return t(v.reshape(xi.shape), ci)[0].reshape(-1)
        J = torch.autograd.functional.jacobian(f, xi.reshape(-1))
        sign, logdet = torch.linalg.slogdet(J)
        errs.append(abs(float(logdet) - float(lad[i])))
    return errs, D, lad


def search(ck, tier, seed):
    ents = catalogue.entries(tier) + catalogue.boundary_entries()
    nseeds = 1 if tier == "quick" else 3
    for e in ents:
        for s in range(nseeds):
            t = attempt(catalogue.build, e, seed + s)
            ck.case(("c01", e["name"], s), nontrivial=True)
            ck.count(e["name"].split("(")[0].split("[")[0])
            case = {"search": "jacobian", "entry": e["name"], "seed": seed + s}
            if t[0] != "ok" and e.get("boundary"):
                continue        # a degenerate configuration the constructor rejects
            if t[0] != "ok":
                ck.finding("transform:constructor-fails:%s" % e["name"], "%s: %s %s" % (e["name"], t[1], t[2]), case)
                continue
            t = t[1]
            x, ctx = catalogue.sample_inputs(e, 3, seed + 10 + s)
            if any(hasattr(m, "cache") and hasattr(m, "use_cache") for m in t.modules()) and s % 2 == 0:
                # a caching transform: let an inverse pass fill the cache first, so that the forward pass reads what the
                # inverse stored (the other order is what the plain check below exercises on odd seeds / thorough runs)
                with torch.no_grad():
                    y0 = attempt(lambda: t(x, ctx)[0])
                for m in t.modules():
                    if hasattr(m, "cache") and hasattr(m, "use_cache"):
                        m.cache.invalidate()
                if y0[0] == "ok":
                    with torch.no_grad():
                        attempt(t.inverse, y0[1], ctx)
            r = attempt(jacobian_check, t, x, ctx)
            if r[0] != "ok":
                ck.finding("transform:forward-or-jacobian-fails:%s" % e["name"], "%s: %s %s" % (e["name"], r[1], r[2]), case)
                continue
            errs, D, lad = r[1]
            if list(lad.shape) != [x.shape[0]]:
                ck.finding("logabsdet:wrong-shape:%s" % e["name"], "%s: logabsdet shape %s for batch %d" % (e["name"], list(lad.shape), x.shape[0]), case)
                continue
            tol = (2e-3 if e["umnn"] else 1e-7) * max(1, D)
            if max(errs) > tol or any(math.isnan(v) for v in errs):
                ck.finding("logabsdet:not-log-det-jacobian:%s" % e["name"],
                           "%s: |logabsdet - log|det J|| = %s (D=%d)" % (e["name"], ["%.3g" % v for v in errs], D), case)
                continue
            # the Jacobian above was taken by autograd, i.e. on the path that runs while gradients are tracked.  The map and its
            # log-abs-det are the same numbers with gradients off (deployment) and with frozen parameters: one function, not two
            if s == 0 and not any(hasattr(m, "cache") and hasattr(m, "use_cache") for m in t.modules()):
                t2 = attempt(catalogue.build, e, seed + s)
                if t2[0] == "ok":
                    t2 = t2[1]
                    ga = attempt(t2, x, ctx)
                    with torch.no_grad():
                        na = attempt(t2, x, ctx)
                    for p_ in t2.parameters():
                        p_.requires_grad_(False)
                    fa = attempt(t2, x, ctx)
                    if ga[0] == "ok" and na[0] == "ok" and fa[0] == "ok":
                        dtol = 1e-2 if e["umnn"] else 1e-12
                        dev = max(float((ga[1][0] - na[1][0]).abs().max()), float((ga[1][1] - na[1][1]).abs().max()),
                                  float((ga[1][0] - fa[1][0]).abs().max()), float((ga[1][1] - fa[1][1]).abs().max()))
                        if dev > dtol * (1 + float(ga[1][0].abs().max())):
                            ck.finding("logabsdet:not-log-det-jacobian:gradient-mode-dependent:%s" % e["name"],
                                       "%s: outputs / log-abs-det with gradients tracked differ from those under no_grad or with frozen parameters by %.3g, "
                                       "so the log-abs-det is the log-determinant of at most one of the two maps" % (e["name"], dev), case)
    # an instance that was evaluated first and then received another checkpoint: outputs and log-abs-det must both come from the
    # parameters it holds NOW
    for e in ents:
        t = attempt(catalogue.used_then_loaded, e, seed + 40)
        if t[0] != "ok" or t[1] is None:
            continue
        t = t[1]
        x, ctx = catalogue.sample_inputs(e, 2, seed + 41)
        ck.case(("c01-loaded", e["name"]), nontrivial=True)
        case = {"search": "jacobian-after-load", "entry": e["name"], "seed": seed}
        r = attempt(jacobian_check, t, x, ctx)
        if r[0] != "ok":
            continue
        errs, D, lad = r[1]
        tol = (2e-3 if e["umnn"] else 1e-7) * max(1, D)
        if max(errs) > tol or any(math.isnan(v) for v in errs):
            ck.finding("logabsdet:not-log-det-jacobian:after-load:%s" % e["name"],
                       "%s, evaluated and then loaded with another state dict: |logabsdet - log|det J|| = %s (D=%d)"
                       % (e["name"], ["%.3g" % v for v in errs], D), case)
    # parameters far from their initial values (scales of 1e-4 .. 1e4): guards, clamps and epsilons that only act out there must
    # change the map and its log-abs-det together
    from nflows.transforms import normalization as norm_, standard as std_, lu as lu_, nonlinearities as nl_

    def extreme():
        def actnorm(ls, img):
            t = norm_.ActNorm(len(ls)).double()
            with torch.no_grad():
                t.log_scale.copy_(torch.tensor(ls, dtype=torch.float64))
                t.shift.copy_(torch.linspace(-1.0, 2.0, len(ls), dtype=torch.float64))
                t.initialized.fill_(True)
            return t.eval(), ([len(ls), 2, 3] if img else [len(ls)])
        yield "ActNorm(log_scale 7.5, -0.3, -8)", actnorm([7.5, -0.3, -8.0], False)
        yield "ActNorm(image, log_scale 9, -9)", actnorm([9.0, -9.0], True)
        for nm_, stds in (("narrow", [1e-4, 1.0, 3.0]), ("wide", [1e4, 1.0, 0.2])):
            t = norm_.ActNorm(3).double().train()
            g_ = tgen(seed, "c01x", nm_)
            with torch.no_grad():
                t(torch.randn(16, 3, generator=g_, dtype=torch.float64) * torch.tensor(stds, dtype=torch.float64) + 0.5)
            yield "ActNorm(initialised on a %s feature)" % nm_, (t.eval(), [3])
        t = norm_.BatchNorm(3).double()
        with torch.no_grad():
            t.running_var.copy_(torch.tensor([1e-8, 1.0, 1e8], dtype=torch.float64))
            t.running_mean.copy_(torch.tensor([0.3, -1.0, 2.0], dtype=torch.float64))
            t.unconstrained_weight.copy_(torch.tensor([-20.0, 0.0, 20.0], dtype=torch.float64))
        yield "BatchNorm(eval, running_var 1e-8..1e8, weights -20..20)", (t.eval(), [3])
        yield "PointwiseAffine(scale 1e-6, 1, 1e6)", (std_.PointwiseAffineTransform(torch.tensor([0.1, 0.2, -0.3], dtype=torch.float64),
                                                                                   torch.tensor([1e-6, -1.0, 1e6], dtype=torch.float64)), [3])
        t = lu_.LULinear(3, identity_init=False).double()
        with torch.no_grad():
            t.unconstrained_upper_diag.copy_(torch.tensor([-15.0, 0.0, 15.0], dtype=torch.float64))
        yield "LULinear(unconstrained diagonal -15, 0, 15)", (t.eval(), [3])
        yield "Sigmoid(temperature 25)", (nl_.Sigmoid(temperature=25.0).double(), [3])
        yield "Sigmoid(temperature 0.01)", (nl_.Sigmoid(temperature=0.01).double(), [3])
    ex = attempt(lambda: list(extreme()))
    if ex[0] != "ok":
        ck.finding("transform:constructor-fails:extreme-parameters", "%s %s" % (ex[1], ex[2]), {"search": "extreme-parameters", "seed": seed})
    for name, made in (ex[1] if ex[0] == "ok" else []):
        t, shape = made
        g_ = tgen(seed, "c01xx", name)
        x = torch.randn([3] + shape, generator=g_, dtype=torch.float64) * (0.02 if "Sigmoid(temperature 25" in name else 1.0)
        ck.case(("c01-extreme", name), nontrivial=True)
        case = {"search": "extreme-parameters", "entry": name, "seed": seed}
        r = attempt(jacobian_check, t, x, None)
        if r[0] != "ok":
            ck.finding("transform:forward-or-jacobian-fails:%s" % name, "%s: %s %s" % (name, r[1], r[2]), case)
            continue
        errs, D, lad = r[1]
        if max(errs) > 1e-7 * max(1, D) or any(math.isnan(v) for v in errs):
            ck.finding("logabsdet:not-log-det-jacobian:%s" % name,
                       "%s: |logabsdet - log|det J|| = %s (D=%d)" % (name, ["%.3g" % v for v in errs], D), case)
    # public spline functions with non-default boxes, knots and end points
    for fam in sh.FAMILIES:
        for K in ([1, 3] if tier == "quick" else [1, 2, 3, 5]):
            for bi, box in enumerate(sh.BOXES):
                for kind in ("zeros", "normal", "wide"):
                    g = tgen(seed, "c01s", fam, K, bi, kind)
                    params = sh.gen_params(fam, K, False, kind, g)
                    x = sh.grid(fam, params, box, per_bin=2).requires_grad_(True)
                    ck.case(("c01-spline", fam, K, bi, kind), nontrivial=True)
                    r = sh.call(fam, False, x, params, box=box)
                    case = {"search": "spline", "family": fam, "K": K, "box": box, "kind": kind, "seed": seed}
                    if r[0] != "ok":
                        continue
                    y, lad = r[1]
                    gr, = torch.autograd.grad(y.sum(), x)
                    knots = sh.knots_x(fam, params, box)
                    for i in range(x.shape[0]):
                        xv = float(x[i])
                        at_knot = min(abs(xv - k) for k in knots) < 1e-12 * max(1.0, abs(box[0]), abs(box[1]))
                        if fam == "linear" and at_knot:
                            continue   # not differentiable at knots: one-sided derivative of the selected bin
                        if min(abs(xv - box[0]), abs(xv - box[1])) < 1e-12 and fam in ("linear", "quadratic"):
                            continue   # torch.clamp's autograd convention at its own bounds (gradient 0); see C16
                        if float(gr[i]) <= 0 or abs(math.log(float(gr[i])) - float(lad[i])) > 1e-7:
                            ck.finding("logabsdet:spline-function:%s" % fam,
                                       "%s_spline box %s K=%d params=%s x=%r: d/dx=%r, exp(logabsdet)=%r"
                                       % (fam, box, K, kind, xv, float(gr[i]), math.exp(float(lad[i]))), case)
                            break


def run(tier, seed):
    ck = Check("C01", tier, seed, areas=["splines", "nonlin"],
               gen_groups=["Nonlin", "SplineRQ", "SplineLinear", "SplineQuadratic", "SplineCubic", "Norm", "Utils"])
    ck.rule = ("every catalogue transform (all coupling / autoregressive / linear / normalisation / nonlinearity / "
               "permutation / reshape / wrapper classes, 2-D and 4-D, context, tails, cache) with random parameters: "
               "autograd Jacobian per batch item in float64 vs returned log-abs-det; public spline functions on knots, "
               "end points and interiors for five boxes; non-trivial = all; distinct by (entry, seed)")
    ck.build()
    if ck.have_driver("nonlin"):
        nonlin_corr.correspondence(ck, ck.driver("nonlin"), tier, seed)
    if ck.have_driver("splines"):
        splines_corr.correspondence(ck, ck.driver("splines"), tier, seed)
    search(ck, tier, seed)
    return ck.finish()


def replay(payload):
    print("replay:", payload.get("replay"))
    return 0
