"""Catalogue of library transforms in constructor configurations chosen to cover each branch.
Every entry: dict(name, make() -> transform (float32, default init), shape (per-item input shape),
ctx (per-item context shape or None), dom (forward input domain), inv_dom (inverse input domain: None = use
forward outputs), umnn (third-party quadrature: relaxed tolerances), piecewise (has kinks))."""
import math

import torch
from torch import nn


def _nets():
    from nflows.nn import nets
    return nets


def randomize(t, seed, scale=0.5):
    """random (moderate) parameter values, deterministic"""
    g = torch.Generator()
    g.manual_seed(seed)
    with torch.no_grad():
        for prm in t.parameters():
            prm.add_((torch.randn(prm.shape, generator=g) * scale).to(prm.dtype))
    return t


def entries(tier="quick"):
    from nflows.transforms import (base, coupling as cp, autoregressive as ar, linear, lu, qr, svd, orthogonal, conv,
                                   normalization as norm, nonlinearities as nl, standard, permutations as perm, reshape)
    nets = _nets()
    E = []

    def add(name, make, shape, ctx=None, dom="real", inv_dom=None, umnn=False, kinks=False, train_ok=True):
        E.append(dict(name=name, make=make, shape=shape, ctx=ctx, dom=dom, inv_dom=inv_dom, umnn=umnn, kinks=kinks,
                      train_ok=train_ok))

    # ---- elementwise nonlinearities
    add("Exp", lambda: nl.Exp(), [3])
    add("Tanh", lambda: nl.Tanh(), [3])
    add("LogTanh", lambda: nl.LogTanh(1.0), [3], kinks=True)
    add("LeakyReLU", lambda: nl.LeakyReLU(0.1), [3], kinks=True)
    add("Sigmoid", lambda: nl.Sigmoid(), [3])
    add("Sigmoid(learned T)", lambda: nl.Sigmoid(temperature=1.7, learn_temperature=True), [2])
    add("Logit", lambda: nl.Logit(), [3], dom="unit")
    add("Sigmoid(temperature 2.5, image items)", lambda: nl.Sigmoid(temperature=2.5), [3, 2, 2])
    add("Logit(temperature 0.4, image items)", lambda: nl.Logit(temperature=0.4), [2, 2, 3], dom="unit")
    add("Sigmoid(temperature 0.6, vector items)", lambda: nl.Sigmoid(temperature=0.6), [4])
    add("CauchyCDF", lambda: nl.CauchyCDF(), [3])
    add("CauchyCDFInverse", lambda: nl.CauchyCDFInverse(), [3], dom="unit")
    # constructor arguments away from their defaults (whatever a constructor accepts must give a transform whose log-abs-det
    # matches the map it applies)
    add("CauchyCDF(location 0.5, scale 2)", lambda: nl.CauchyCDF(location=0.5, scale=2.0), [3])
    add("CauchyCDFInverse(scale 3)", lambda: nl.CauchyCDFInverse(location=0.0, scale=3.0), [3], dom="unit")
    add("LeakyReLU(slope 0.4)", lambda: nl.LeakyReLU(0.4), [3], kinks=True)
    add("LeakyReLU(slope 2.5: steeper below zero)", lambda: nl.LeakyReLU(2.5), [3], kinks=True)
    add("CompositeCDF(Sigmoid,PiecewiseRQ)", lambda: nl.CompositeCDFTransform(nl.Sigmoid(), nl.PiecewiseRationalQuadraticCDF([3], num_bins=3)), [3], kinks=True)
    for nm, cls in (("PiecewiseLinearCDF", nl.PiecewiseLinearCDF), ("PiecewiseQuadraticCDF", nl.PiecewiseQuadraticCDF),
                    ("PiecewiseCubicCDF", nl.PiecewiseCubicCDF), ("PiecewiseRationalQuadraticCDF", nl.PiecewiseRationalQuadraticCDF)):
        add(nm + "[3]", lambda cls=cls: cls([3], num_bins=4), [3], dom="unit", kinks=True)
        add(nm + "[2,2,2] tails", lambda cls=cls: cls([2, 2, 2], num_bins=3, tails="linear", tail_bound=2.0), [2, 2, 2], kinks=True)
    # non-default minimum bin sizes / derivative (every path through a spline must use the configured values)
    add("PiecewiseRationalQuadraticCDF[3] tails, mins", lambda: nl.PiecewiseRationalQuadraticCDF(
        [3], num_bins=4, tails="linear", tail_bound=2.0, min_bin_width=0.05, min_bin_height=0.02, min_derivative=0.1), [3], kinks=True)
    add("PiecewiseRationalQuadraticCDF[3] tails, mins (height minimum above width minimum)", lambda: nl.PiecewiseRationalQuadraticCDF(
        [3], num_bins=8, tails="linear", tail_bound=2.0, min_bin_width=0.002, min_bin_height=0.06, min_derivative=0.01), [3], kinks=True)
    add("PiecewiseQuadraticCDF[3] tails, mins (height minimum above width minimum)", lambda: nl.PiecewiseQuadraticCDF(
        [3], num_bins=8, tails="linear", tail_bound=2.0, min_bin_width=0.002, min_bin_height=0.06), [3], kinks=True)
    add("PiecewiseQuadraticCDF[3] tails, mins", lambda: nl.PiecewiseQuadraticCDF(
        [3], num_bins=4, tails="linear", tail_bound=2.0, min_bin_width=0.05, min_bin_height=0.02), [3], kinks=True)
    add("PiecewiseCubicCDF[3] tails, mins", lambda: nl.PiecewiseCubicCDF(
        [3], num_bins=4, tails="linear", tail_bound=2.0, min_bin_width=0.05, min_bin_height=0.02), [3], kinks=True)
    add("GatedLinearUnit(shared gate)", lambda: nl.GatedLinearUnit(), [3], ctx=[1])
    add("GatedLinearUnit(per-feature gate)", lambda: nl.GatedLinearUnit(), [3], ctx=[3])
    # ---- standard / permutations / reshape
    add("IdentityTransform", lambda: standard.IdentityTransform(), [3])
    add("PointwiseAffine(scalar)", lambda: standard.PointwiseAffineTransform(0.3, -1.7), [3])
    add("PointwiseAffine(vector)", lambda: standard.PointwiseAffineTransform(torch.tensor([0.1, 0.2, -0.3]), torch.tensor([1.5, -0.5, 2.0])), [3])
    add("PointwiseAffine(image scale)", lambda: standard.PointwiseAffineTransform(torch.zeros(2, 1, 1), torch.tensor([1.5, -0.5]).reshape(2, 1, 1)), [2, 2, 3])
    add("RandomPermutation", lambda: perm.RandomPermutation(4), [4])
    add("ReversePermutation(dim=2)", lambda: perm.ReversePermutation(3, dim=2), [2, 3])
    add("SqueezeTransform(2)", lambda: reshape.SqueezeTransform(2), [1, 4, 2])
    add("SqueezeTransform(3)", lambda: reshape.SqueezeTransform(3), [2, 3, 6])
    # ---- linear family
    add("LULinear", lambda: lu.LULinear(3, identity_init=False), [3])
    add("LULinear(identity init, cache)", lambda: lu.LULinear(3, using_cache=True), [3])
    add("QRLinear", lambda: qr.QRLinear(3, num_householder=3), [3])
    add("SVDLinear", lambda: svd.SVDLinear(3, num_householder=2, identity_init=False), [3])
    add("NaiveLinear", lambda: linear.NaiveLinear(3, orthogonal_initialization=False), [3])
    add("QRLinear(cache)", lambda: qr.QRLinear(3, num_householder=3, using_cache=True), [3])
    add("SVDLinear(cache)", lambda: svd.SVDLinear(3, num_householder=2, using_cache=True, identity_init=False), [3])
    add("NaiveLinear(cache)", lambda: linear.NaiveLinear(3, orthogonal_initialization=False, using_cache=True), [3])
    add("OneByOneConvolution(cache)", lambda: conv.OneByOneConvolution(3, using_cache=True, identity_init=False), [3, 2, 2])
    add("SVDLinear(eps=0.05, cache)", lambda: svd.SVDLinear(3, num_householder=2, using_cache=True, identity_init=False, eps=0.05), [3])
    add("LULinear(eps=0.05)", lambda: lu.LULinear(3, identity_init=False, eps=0.05), [3])
    add("HouseholderSequence", lambda: orthogonal.HouseholderSequence(3, 2), [3])
    add("OneByOneConvolution", lambda: conv.OneByOneConvolution(3, identity_init=False), [3, 2, 2])
    # ---- normalisation (evaluation mode; ActNorm also initialised from data in the harness)
    add("BatchNorm(eval)", lambda: norm.BatchNorm(3), [3], train_ok=False)
    add("ActNorm", lambda: norm.ActNorm(3), [3])
    add("ActNorm(image)", lambda: norm.ActNorm(2), [2, 2, 3])
    # ---- couplings
    mk2 = lambda ctx=None: (lambda i, o: nets.ResidualNet(i, o, hidden_features=8, context_features=ctx, num_blocks=1))
    mk4 = lambda ctx=None: (lambda i, o: nets.ConvResidualNet(i, o, hidden_channels=4, context_channels=ctx, num_blocks=1))
    mask = [1, 0, 1]
    add("AffineCoupling", lambda: cp.AffineCouplingTransform(mask, mk2()), [3])
    add("AffineCoupling(ctx)", lambda: cp.AffineCouplingTransform(mask, mk2(2)), [3], ctx=[2])
    add("AffineCoupling(image)", lambda: cp.AffineCouplingTransform(mask, mk4()), [3, 2, 2])
    add("AdditiveCoupling", lambda: cp.AdditiveCouplingTransform(mask, mk2()), [3])
    for nm, cls in (("PiecewiseLinearCoupling", cp.PiecewiseLinearCouplingTransform),
                    ("PiecewiseQuadraticCoupling", cp.PiecewiseQuadraticCouplingTransform),
                    ("PiecewiseCubicCoupling", cp.PiecewiseCubicCouplingTransform),
                    ("PiecewiseRQCoupling", cp.PiecewiseRationalQuadraticCouplingTransform)):
        add(nm + " tails", lambda cls=cls: cls(mask, mk2(), num_bins=3, tails="linear", tail_bound=3.0), [3], kinks=True)
        add(nm + " unit box", lambda cls=cls: cls(mask, mk2(), num_bins=3), [3], dom="unit", kinks=True)
    add("PiecewiseRQCoupling(image, uncond)", lambda: cp.PiecewiseRationalQuadraticCouplingTransform(
        mask, mk4(), num_bins=3, tails="linear", tail_bound=3.0, apply_unconditional_transform=True, img_shape=[2, 2]), [3, 2, 2], kinks=True)
    add("PiecewiseRQCoupling tails, mins", lambda: cp.PiecewiseRationalQuadraticCouplingTransform(
        mask, mk2(), num_bins=3, tails="linear", tail_bound=2.0, min_bin_width=0.05, min_bin_height=0.02, min_derivative=0.1), [3], kinks=True)
    add("UMNNCoupling", lambda: cp.UMNNCouplingTransform(mask, mk2(), integrand_net_layers=[8, 8], cond_size=4, nb_steps=30), [3], umnn=True)
    add("UMNNCoupling(image, two transformed channels)", lambda: cp.UMNNCouplingTransform(mask, mk4(), integrand_net_layers=[8, 8], cond_size=4, nb_steps=30), [3, 2, 2], umnn=True)
    # ---- masked autoregressive
    add("MaskedAffineAR", lambda: ar.MaskedAffineAutoregressiveTransform(3, 8, num_blocks=1), [3])
    add("MaskedAffineAR(ctx, random mask)", lambda: ar.MaskedAffineAutoregressiveTransform(3, 8, context_features=2, num_blocks=1, use_residual_blocks=False, random_mask=True), [3], ctx=[2])
    add("MaskedPiecewiseLinearAR", lambda: ar.MaskedPiecewiseLinearAutoregressiveTransform(4, 3, 8, num_blocks=1), [3], dom="unit", kinks=True)
    add("MaskedPiecewiseQuadraticAR tails", lambda: ar.MaskedPiecewiseQuadraticAutoregressiveTransform(3, 8, num_bins=3, tails="linear", tail_bound=3.0, num_blocks=1), [3], kinks=True)
    add("MaskedPiecewiseCubicAR", lambda: ar.MaskedPiecewiseCubicAutoregressiveTransform(3, 3, 8, num_blocks=1), [3], dom="unit", kinks=True)
    add("MaskedPiecewiseRQAR tails", lambda: ar.MaskedPiecewiseRationalQuadraticAutoregressiveTransform(3, 8, num_bins=3, tails="linear", tail_bound=3.0, num_blocks=1), [3], kinks=True)
    add("MaskedPiecewiseRQAR tails, mins", lambda: ar.MaskedPiecewiseRationalQuadraticAutoregressiveTransform(
        3, 8, num_bins=3, tails="linear", tail_bound=2.0, num_blocks=1, min_bin_width=0.05, min_bin_height=0.02, min_derivative=0.1), [3], kinks=True)
    # conditioner options the constructors offer (normalisation inside the MADE blocks, dropout): in evaluation mode these are
    # per-unit maps and leave the transform autoregressive
    add("MaskedAffineAR(residual, norm in blocks, dropout)", lambda: ar.MaskedAffineAutoregressiveTransform(
        3, 8, num_blocks=2, use_batch_norm=True, dropout_probability=0.2), [3])
    add("MaskedPiecewiseRQAR tails (feed-forward, norm in blocks)", lambda: ar.MaskedPiecewiseRationalQuadraticAutoregressiveTransform(
        3, 8, num_bins=3, tails="linear", tail_bound=3.0, num_blocks=2, use_residual_blocks=False, use_batch_norm=True), [3], kinks=True)
    add("MaskedUMNNAR", lambda: ar.MaskedUMNNAutoregressiveTransform(3, 8, num_blocks=1, integrand_net_layers=[8, 8], cond_size=4, nb_steps=30), [3], umnn=True)
    # ---- wrappers
    add("Composite(LU,Tanh,Inverse(Tanh),Exp)", lambda: base.CompositeTransform([lu.LULinear(3, identity_init=False), nl.Tanh(), base.InverseTransform(nl.Tanh()), nl.Exp()]), [3])
    add("Inverse(AffineCoupling)", lambda: base.InverseTransform(cp.AffineCouplingTransform(mask, mk2())), [3])

    def multiscale():
        m = base.MultiscaleCompositeTransform(2, split_dim=1)
        sh = m.add_transform(base.CompositeTransform([reshape.SqueezeTransform(2), norm.ActNorm(4)]), (4, 1, 2))
        m.add_transform(standard.PointwiseAffineTransform(0.5, 1.5), sh)
        return m
    add("Multiscale(Squeeze+ActNorm, Affine)", multiscale, [1, 2, 4])

    def multiscale_ctx():
        # every part conditional: the context has to reach each sub-transform in both directions
        m = base.MultiscaleCompositeTransform(3, split_dim=1)
        sh = m.add_transform(ar.MaskedAffineAutoregressiveTransform(8, 8, context_features=2, num_blocks=1), (8,))
        sh = m.add_transform(ar.MaskedAffineAutoregressiveTransform(sh[0], 8, context_features=2, num_blocks=1), sh)
        m.add_transform(ar.MaskedAffineAutoregressiveTransform(sh[0], 8, context_features=2, num_blocks=1), sh)
        return m
    add("Multiscale(three conditional MAF parts)", multiscale_ctx, [8], ctx=[2])
    return E


def boundary_entries():
    """degenerate configurations at the edge of what the constructors accept (zero counts, one feature, empty lists).  Most are
    rejected by the constructors of the pinned code; whatever IS accepted must behave, so checks try to build each one."""
    from nflows.transforms import base, lu, qr, svd, orthogonal, autoregressive as ar, coupling as cp, nonlinearities as nl, permutations as perm
    nets = _nets()
    E = []

    def add(name, make, shape, ctx=None, dom="real"):
        E.append(dict(name=name, make=make, shape=shape, ctx=ctx, dom=dom, inv_dom=None, umnn=False, kinks=False, train_ok=True, boundary=True))
    add("SVDLinear(no reflections)", lambda: svd.SVDLinear(3, 0, identity_init=False), [3])
    add("QRLinear(no reflections)", lambda: qr.QRLinear(3, 0), [3])
    add("HouseholderSequence(no reflections)", lambda: orthogonal.HouseholderSequence(3, 0), [3])
    add("CompositeTransform(empty)", lambda: base.CompositeTransform([]), [3])
    add("CompositeTransform(one part)", lambda: base.CompositeTransform([nl.LeakyReLU(0.3)]), [3])
    add("LULinear(one feature)", lambda: lu.LULinear(1, identity_init=False), [1])
    add("MaskedAffineAR(one feature, no blocks)", lambda: ar.MaskedAffineAutoregressiveTransform(1, 4, num_blocks=0), [1])
    add("MaskedAffineAR(no blocks)", lambda: ar.MaskedAffineAutoregressiveTransform(3, 4, num_blocks=0), [3])
    add("RandomPermutation(one feature)", lambda: perm.RandomPermutation(1), [1])
    add("PiecewiseRQCDF(one bin)", lambda: nl.PiecewiseRationalQuadraticCDF([2], num_bins=1, tails="linear", tail_bound=2.0), [2])
    # items without any feature dimension (inputs of shape [N]): sums over "all but the batch dimension" have nothing to sum
    add("Exp(scalar items)", lambda: nl.Exp(), [])
    add("Sigmoid(scalar items)", lambda: nl.Sigmoid(), [])
    add("Composite(Exp, LeakyReLU)(scalar items)", lambda: base.CompositeTransform([nl.Exp(), nl.LeakyReLU(0.3)]), [])
    add("Composite(Tanh, Exp, Inverse(Exp))(scalar items)", lambda: base.CompositeTransform([nl.Tanh(), nl.Exp(), base.InverseTransform(nl.Exp())]), [])
    add("Composite(LeakyReLU, Inverse(Exp))(scalar items)", lambda: base.CompositeTransform([nl.LeakyReLU(0.3), base.InverseTransform(nl.Exp())]), [], dom="positive")
    add("Inverse(Composite(Exp, LeakyReLU))(scalar items)", lambda: base.InverseTransform(base.CompositeTransform([nl.Exp(), nl.LeakyReLU(0.3)])), [], dom="positive")
    add("AffineCoupling(two features)", lambda: cp.AffineCouplingTransform([1, 0], lambda i, o: nets.ResidualNet(i, o, 4, num_blocks=0)), [2])
    return E


def sample_inputs(e, n, seed, dtype=torch.float64):
    g = torch.Generator()
    g.manual_seed(seed)
    shape = [n] + list(e["shape"])
    if e["dom"] == "unit":
        x = torch.rand(shape, generator=g, dtype=torch.float64) * 0.96 + 0.02
    elif e["dom"] == "positive":
        x = torch.rand(shape, generator=g, dtype=torch.float64) * 3.0 + 0.05
    else:
        x = torch.randn(shape, generator=g, dtype=torch.float64) * 1.2
    ctx = None
    if e["ctx"] is not None:
        ctx = torch.randn([n] + list(e["ctx"]), generator=g, dtype=torch.float64)
    return x.to(dtype), (None if ctx is None else ctx.to(dtype))


def build(e, seed, dtype=torch.float64, train=False, flat=False, fresh=False):
    """flat=True: every parameter zero - the identity-style initialisation (zero-initialised last layers, uniform bins,
    exactly linear interior segments) that trained-from-scratch models start from"""
    torch.manual_seed(seed)
    t = e["make"]()
    if flat:
        with torch.no_grad():
            for prm in t.parameters():
                prm.zero_()
    else:
        randomize(t, seed + 1, 0.4)
    t = t.to(dtype)
    if fresh:          # no data-dependent initialisation yet: the caller's first training-mode call performs it
        t.train(train)
        return t
    if "ActNorm" in e["name"] or "Multiscale" in e["name"]:
        # data-dependent initialisation happens on the first training-mode forward
        t.train()
        x, c = sample_inputs(e, 6, seed + 2, dtype)
        with torch.no_grad():
            t(x, c)
    if "BatchNorm" in e["name"]:
        t.train()
        x, c = sample_inputs(e, 8, seed + 2, dtype)
        with torch.no_grad():
            t(x, c)
    t.train(train)
    return t


def perturbed_state(t, seed, amount=0.2):
    """a copy of t's state dict with every floating-point entry scaled by 1 + amount * noise (signs and positivity kept): some
    other checkpoint of the same architecture"""
    import copy
    g = torch.Generator()
    g.manual_seed(seed)
    sd = copy.deepcopy(t.state_dict())
    for k, v in sd.items():
        if v.dtype.is_floating_point and v.numel() > 0:
            sd[k] = v * (1.0 + amount * torch.randn(v.shape, generator=g).clamp(-2, 2).to(v.dtype))
    return sd


def used_then_loaded(e, seed, dtype=torch.float64):
    """an instance that has been evaluated (evaluation mode, no gradients, both directions) and THEN received another
    checkpoint through load_state_dict: whatever it memoised from its old parameters must not survive.  -> transform or None"""
    t = build(e, seed, dtype)
    x, c = sample_inputs(e, 3, seed + 3, dtype)
    with torch.no_grad():
        try:
            y, _ = t(x, c)
            t.inverse(y, c)
        except Exception:
            pass
    try:
        t.load_state_dict(perturbed_state(t, seed + 4))
    except Exception:
        return None
    return t
