"""C18: the distribution interface keeps its documented shape and argument contract."""
import itertools

import torch
from torch import nn

from common import Check, Z, z, p, ModelErr
from implutil import attempt, rng


def catalogue():
    """name -> (constructor, event shape, context feature count or None (unconditional), needs_context)"""
    from nflows.distributions import normal, discrete, mixture
    from nflows.flows.base import Flow
    from nflows.flows.autoregressive import MaskedAutoregressiveFlow
    from nflows.flows.realnvp import SimpleRealNVP
    from nflows.transforms.standard import PointwiseAffineTransform
    from nflows.transforms.autoregressive import MaskedAffineAutoregressiveTransform
    out = []
    for ev in ([1], [3], [2, 3], [2, 1, 2]):
        out.append(("StandardNormal%s" % ev, lambda ev=ev: normal.StandardNormal(ev), ev, 4, False))
    for ev in ([2], [2, 2]):
        nf = 1
        for s in ev:
            nf *= s
        out.append(("ConditionalDiagonalNormal%s" % ev, lambda ev=ev: normal.ConditionalDiagonalNormal(ev), ev, 2 * nf, True))
        out.append(("ConditionalIndependentBernoulli%s" % ev, lambda ev=ev: discrete.ConditionalIndependentBernoulli(ev), ev, nf, True))
    out.append(("MADEMoG-conditional", lambda: mixture.MADEMoG(3, 8, 2, num_mixture_components=2), [3], 2, True))
    out.append(("MADEMoG-unconditional", lambda: mixture.MADEMoG(3, 8, None, num_mixture_components=2), [3], None, False))
    out.append(("Flow(affine,StandardNormal)", lambda: Flow(PointwiseAffineTransform(0.5, 2.0), normal.StandardNormal([3])), [3], 4, False))
    out.append(("Flow(MAF-transform ctx,StandardNormal,embedding)",
                lambda: Flow(MaskedAffineAutoregressiveTransform(3, 8, context_features=5), normal.StandardNormal([3]),
                             embedding_net=nn.Linear(4, 5)), [3], 4, True))
    out.append(("Flow(affine,ConditionalDiagonalNormal)",
                lambda: Flow(PointwiseAffineTransform(0.5, 2.0), normal.ConditionalDiagonalNormal([3])), [3], 6, True))
    out.append(("Flow(MAF-transform ctx,ConditionalDiagonalNormal with encoder,embedding)",
                lambda: Flow(MaskedAffineAutoregressiveTransform(3, 8, context_features=5),
                             normal.ConditionalDiagonalNormal([3], context_encoder=nn.Linear(5, 6)),
                             embedding_net=nn.Linear(4, 5)), [3], 4, True))
    out.append(("MaskedAutoregressiveFlow", lambda: MaskedAutoregressiveFlow(3, 8, 2, 1), [3], None, False))
    out.append(("SimpleRealNVP", lambda: SimpleRealNVP(4, 8, 2, 1), [4], None, False))
    # flows whose transform changes the event shape (image flows): samples come in the DATA event shape, not the noise's
    from nflows.transforms.reshape import SqueezeTransform
    from nflows.transforms.base import MultiscaleCompositeTransform, CompositeTransform
    out.append(("Flow(Squeeze,StandardNormal[8,2,2])", lambda: Flow(SqueezeTransform(2), normal.StandardNormal([8, 2, 2])), [2, 4, 4], 3, False))
    out.append(("Flow(Squeeze o Squeeze,StandardNormal[16,1,2])",
                lambda: Flow(CompositeTransform([SqueezeTransform(2), SqueezeTransform(2)]), normal.StandardNormal([16, 1, 2])), [1, 4, 8], 3, False))

    def multiscale_flow():
        m = MultiscaleCompositeTransform(2, split_dim=1)
        sh = m.add_transform(SqueezeTransform(2), (8, 1, 2))      # the shape AFTER the transform
        m.add_transform(PointwiseAffineTransform(0.5, 1.5), sh)
        return Flow(m, normal.StandardNormal([16]))
    out.append(("Flow(Multiscale,StandardNormal[16])", multiscale_flow, [2, 2, 4], 3, False))
    return out


def model(drv, cmd, *args):
    try:
        return ("ok", drv.call(cmd, *args))
    except ModelErr as e:
        return ("err", e.kind)


def batched_rows(ck, tier, seed):
    """batching must not change the distribution: with a context, row i of sample(n, context, batch_size=b) holds draws for
    context row i only.  Distributions whose draws reveal their context row (mean = 1000 * row id, unit scale)."""
    from torch import nn
    from nflows.distributions import normal
    from nflows.flows.base import Flow
    from nflows.transforms.base import Transform

    class Enc(nn.Module):
        def forward(self, c):
            return torch.cat([1000.0 * c, torch.zeros_like(c)], 1)

    class Shift(Transform):
        def forward(self, inputs, context=None):
            return inputs - 1000.0 * context, inputs.new_zeros(inputs.shape[0])

        def inverse(self, inputs, context=None):
            return inputs + 1000.0 * context, inputs.new_zeros(inputs.shape[0])
    class Emb(nn.Module):       # a non-identity embedding network: the base must see 3 c + 7, not c
        def forward(self, c):
            return 3.0 * c + 7.0

    class Ident(Transform):
        def forward(self, inputs, context=None):
            return inputs, inputs.new_zeros(inputs.shape[0])

        def inverse(self, inputs, context=None):
            return inputs, inputs.new_zeros(inputs.shape[0])
    dists = {"ConditionalDiagonalNormal": normal.ConditionalDiagonalNormal([1], context_encoder=Enc()),
             "Flow": Flow(Shift(), normal.StandardNormal([1])),
             "Flow(embedding 3c+7, ConditionalDiagonalNormal)": Flow(Ident(), normal.ConditionalDiagonalNormal([1], context_encoder=Enc()),
                                                                     embedding_net=Emb())}
    class EncS(nn.Module):      # scalar events: parameters [rows, 2] -> mean 1000 * id, log-std 0
        def forward(self, c):
            return torch.cat([1000.0 * c, torch.zeros_like(c)], 1)
    dists["ConditionalDiagonalNormal(scalar event)"] = normal.ConditionalDiagonalNormal([], context_encoder=EncS())
    dists["Flow(scalar event)"] = None
    # no encoder at all: the context IS the parameter tensor (means, log-stds), so every view the sampler takes is a view of the
    # caller's tensor; each batch of a batched draw sees the same context
    dists["ConditionalDiagonalNormal(identity encoder)"] = normal.ConditionalDiagonalNormal([1])
    ns = [1, 2, 3, 5, 6, 7] if tier == "quick" else list(range(1, 10))
    for name, d in dists.items():
        if d is None:
            continue
        for rows in (1, 2, 3, 4):
            ctx = torch.arange(1, rows + 1, dtype=torch.float32).reshape(rows, 1)
            for n_, bs in itertools.product(ns, [None, 1, 2, 3, 4, 8]):
                torch.manual_seed(seed + n_)
                if "identity encoder" in name:
                    ctx_id = ctx
                    ctx = torch.cat([1000.0 * ctx_id, torch.zeros_like(ctx_id)], 1)
                    ctx_keep = ctx.clone()
                r = attempt(d.sample, n_, ctx, bs) if bs is not None else attempt(d.sample, n_, ctx)
                if "identity encoder" in name:
                    if not torch.equal(ctx, ctx_keep):
                        ck.finding("sample:context-changed:%s" % ("batched" if bs is not None else "plain"),
                                   "%s.sample(%d, %d rows, batch_size=%s) changed the caller's context tensor: log-std column %s"
                                   % (name, n_, rows, bs, ctx[:, 1].tolist()), {"search": "batched-rows", "cls": name, "rows": rows, "n": n_, "bs": bs})
                    ctx = ctx_id
                ck.case(("rows", name, rows, n_, bs), nontrivial=rows > 1 and n_ > 1)
                case = {"search": "batched-rows", "cls": name, "rows": rows, "n": n_, "bs": bs}
                scalar = "scalar event" in name
                if r[0] != "ok" or list(r[1].shape) != ([rows, n_] if scalar else [rows, n_, 1]):
                    if scalar:
                        ck.finding("sample-shape:scalar-event:%s" % ("batched" if bs is not None else "plain"),
                                   "%s.sample(%d, %d rows, batch_size=%s) -> %s" % (name, n_, rows, bs, list(r[1].shape) if r[0] == "ok" else r[1:]), case)
                    continue            # other shapes are reported by the shape search
                ids = torch.round((r[1] if scalar else r[1][..., 0]) / 1000.0)
                want = ctx.expand(rows, n_)
                if "embedding" in name:
                    want = 3.0 * want + 7.0
                if not torch.equal(ids, want):
                    ck.finding("sample:draws-under-wrong-context-row:%s:%s" % (name, "batched" if bs is not None else "plain"),
                               "sample(%d, %d context rows, batch_size=%s): rows hold draws for context ids %s" % (n_, rows, bs, ids.tolist()), case)


def call_sequences(ck, tier, seed):
    """the shapes and rows of a call depend on THAT call's arguments only: the same object is called repeatedly with contexts of
    different row counts (earlier tensors freed, so that object identities and addresses get recycled) and with one context
    tensor that is overwritten in place between calls"""
    from torch import nn
    from nflows.distributions import normal
    from nflows.flows.base import Flow
    from nflows.transforms.base import Transform

    class Enc(nn.Module):
        def forward(self, c):
            return torch.cat([1000.0 * c, torch.zeros_like(c)], 1)

    class Ident(Transform):
        def forward(self, inputs, context=None):
            return inputs, inputs.new_zeros(inputs.shape[0])

        def inverse(self, inputs, context=None):
            return inputs, inputs.new_zeros(inputs.shape[0])
    objs = {"ConditionalDiagonalNormal": lambda: normal.ConditionalDiagonalNormal([1], context_encoder=Enc()),
            "Flow(linear embedding, ConditionalDiagonalNormal)": lambda: Flow(Ident(), normal.ConditionalDiagonalNormal([1], context_encoder=Enc()),
                                                                              embedding_net=nn.Linear(1, 1))}
    for name, mk in objs.items():
        d = mk()
        scale, off = 1.0, 0.0
        if "embedding" in name:
            with torch.no_grad():
                d._embedding_net.weight.fill_(2.0)
                d._embedding_net.bias.fill_(1.0)
            scale, off = 2.0, 1.0
        d.eval()
        for meth in ("sample", "sample_and_log_prob"):
            rows_seq = [5, 3, 4, 1, 3, 5, 2]
            for step, rows in enumerate(rows_seq):
                ctx = torch.arange(1, rows + 1, dtype=torch.float32).reshape(rows, 1) + 10.0 * step      # a fresh tensor; the previous one is freed
                with torch.no_grad():
                    r = attempt(getattr(d, meth), 2, ctx)
                ck.case(("seq", name, meth, step), nontrivial=True)
                case = {"search": "call-sequence", "cls": name, "method": meth, "rows_sequence": rows_seq[:step + 1]}
                smp = r[1] if (r[0] == "ok" and meth == "sample") else (r[1][0] if r[0] == "ok" else None)
                if smp is None or list(smp.shape) != [rows, 2, 1]:
                    ck.finding("sample-shape:after-earlier-calls:%s" % name,
                               "%s(2, context with %d rows) as call %d on the same object -> %s" % (meth, rows, step + 1, list(smp.shape) if smp is not None else r[1:]), case)
                    break
                ids = torch.round(smp[..., 0] / 1000.0)
                want = (scale * ctx + off).expand(rows, 2)
                if not torch.equal(ids, want):
                    ck.finding("sample:draws-under-wrong-context-row:after-earlier-calls:%s" % name,
                               "%s call %d: rows hold draws for context ids %s, expected %s" % (meth, step + 1, ids[:, 0].tolist(), want[:, 0].tolist()), case)
                    break
                del ctx, r, smp
            # one context tensor, overwritten in place between the calls
            ctx = torch.arange(1, 4, dtype=torch.float32).reshape(3, 1)
            for step in range(3):
                with torch.no_grad():
                    r = attempt(getattr(d, meth), 2, ctx)
                ck.case(("seq-inplace", name, meth, step), nontrivial=True)
                case = {"search": "context-overwritten-in-place", "cls": name, "method": meth, "step": step}
                smp = r[1] if (r[0] == "ok" and meth == "sample") else (r[1][0] if r[0] == "ok" else None)
                if smp is not None and list(smp.shape) == [3, 2, 1]:
                    ids = torch.round(smp[..., 0] / 1000.0)
                    want = (scale * ctx + off).expand(3, 2)
                    if not torch.equal(ids, want):
                        ck.finding("sample:draws-under-wrong-context-row:context-overwritten-in-place:%s" % name,
                                   "%s after the context tensor was overwritten in place (%d times): draws for ids %s, expected %s"
                                   % (meth, step, ids[:, 0].tolist(), want[:, 0].tolist()), case)
                        break
                ctx.add_(7.0)


def context_dtypes(ck, tier, seed):
    """the documented result of sample / sample_and_log_prob is a batch of real-valued draws whatever the dtype of the context
    (labels, masks, half precision): shapes as documented, floating-point dtype, not all whole numbers"""
    from nflows.distributions import normal
    from nflows.flows.base import Flow
    from nflows.transforms.standard import PointwiseAffineTransform
    objs = {"StandardNormal[3]": normal.StandardNormal([3]), "StandardNormal[2, 2]": normal.StandardNormal([2, 2]),
            "Flow(affine,StandardNormal)": Flow(PointwiseAffineTransform(0.5, 2.0), normal.StandardNormal([3]))}
    ctxs = {"int64": torch.tensor([[3], [1]], dtype=torch.int64), "int32": torch.tensor([[3], [1]], dtype=torch.int32),
            "bool": torch.tensor([[True], [False]]), "float16": torch.tensor([[0.5], [1.5]], dtype=torch.float16),
            "float64": torch.tensor([[0.5], [1.5]], dtype=torch.float64)}
    for oname, d in objs.items():
        ev = [2, 2] if "2, 2" in oname else [3]
        for cname, c in ctxs.items():
            for meth, bs in (("sample", None), ("sample", 2), ("sample_and_log_prob", None)):
                torch.manual_seed(seed)
                r = attempt(d.sample, 5, c, bs) if (meth == "sample" and bs) else attempt(getattr(d, meth), 5, c)
                ck.case(("ctx-dtype", oname, cname, meth, bs), nontrivial=True)
                case = {"search": "context-dtype", "cls": oname, "context_dtype": cname, "method": meth, "batch_size": bs}
                if r[0] != "ok":
                    ck.count("context-dtype-rejected")
                    continue
                smp = r[1] if meth == "sample" else r[1][0]
                whole = bool((smp.double() == smp.double().round()).all())
                if list(smp.shape) != [2, 5] + ev or not smp.dtype.is_floating_point or whole:
                    ck.finding("sample-dtype:context-%s:%s" % ("integer" if cname in ("int64", "int32", "bool") else "float", oname.split("[")[0].split("(")[0]),
                               "%s.%s(5, %s context%s) -> shape %s, dtype %s%s" % (oname, meth, cname, ", batch_size=2" if bs else "", list(smp.shape), smp.dtype,
                                                                                  ", every value a whole number" if whole else ""), case)


def run(tier, seed):
    ck = Check("C18", tier, seed, areas=["shapes"], gen_groups=["DistBase", "Typechecks", "FlowRows"])
    ck.rule = ("every distribution / flow class in the catalogue x num_samples 1..7 x batch_size {None,1..8} x context "
               "{none, 1..3 rows} x bad arguments; compared as exact shapes / exception classes with the extracted "
               "model; non-trivial = the call returns samples for n >= 2; distinct by (class, n, batch, rows)")
    ck.assumptions = ["conditional distributions are only called with a context (they raise ValueError without one)",
                      "the embedding network preserves the number of context rows"]
    ck.build()
    drv = ck.driver("shapes") if ck.have_driver("shapes") else None
    torch.manual_seed(seed)
    mm, n = [], 0
    ns = range(1, 8) if tier == "thorough" else [1, 2, 3, 5, 7]
    bss = [None] + (list(range(1, 9)) if tier == "thorough" else [1, 2, 3, 4, 8])
    for name, ctor, ev, ctxf, needs in catalogue():
        d = ctor()
        d.eval()
        ctx_rows = ([None] if not needs else []) + ([1, 2, 3] if ctxf is not None else [])
        has_sampler = "DiagonalNormal" != name
        for rows in ctx_rows:
            ctx = None if rows is None else torch.randn(rows, ctxf)
            ctxenc = [-1] if rows is None else [rows, ctxf]
            for nn_, bs in itertools.product(ns, bss):
                r = attempt(d.sample, nn_, ctx, bs) if bs is not None else attempt(d.sample, nn_, ctx)
                ck.case((name, nn_, bs, rows), nontrivial=(r[0] == "ok" and nn_ >= 2))
                ck.count("class=" + name.split("[")[0].split("(")[0])
                exp = ([nn_] if rows is None else [rows, nn_]) + ev
                if r[0] != "ok" or list(r[1].shape) != exp:
                    what = "sample(%d, context rows %s, batch_size %s) -> %s, documented shape %s" % (
                        nn_, rows, bs, list(r[1].shape) if r[0] == "ok" else r[1:], exp)
                    kind = "batched" if bs is not None else "plain"
                    ck.finding("sample-shape:%s:%s:%s" % (name.split("[")[0].split("(")[0], kind,
                                                          "context" if rows else "nocontext"), what,
                               {"search": "sample", "cls": name, "n": nn_, "bs": bs, "rows": rows})
                if drv is not None:
                    n += 1
                    m = model(drv, "sample", Z(ev), p(nn_), Z(ctxenc), p(bs if bs is not None else 1), z(int(bs is not None)))
                    im = ("ok", [list(r[1].shape)]) if r[0] == "ok" else ("err", r[1])
                    if m != im:
                        mm.append({"cls": name, "call": "sample(%d, rows=%s, batch_size=%s)" % (nn_, rows, bs),
                                   "model": m, "impl": im})
            # sample_and_log_prob
            for nn_ in ns:
                r = attempt(d.sample_and_log_prob, nn_, ctx)
                ck.case((name, "salp", nn_, rows), nontrivial=(r[0] == "ok" and nn_ >= 2))
                lead = [nn_] if rows is None else [rows, nn_]
                if r[0] != "ok" or list(r[1][0].shape) != lead + ev or list(r[1][1].shape) != lead:
                    ck.finding("sample_and_log_prob-shape:%s" % name.split("[")[0].split("(")[0],
                               "sample_and_log_prob(%d, rows %s) -> %s" % (
                                   nn_, rows, [list(t.shape) for t in r[1]] if r[0] == "ok" else r[1:]),
                               {"search": "salp", "cls": name, "n": nn_, "rows": rows})
                if drv is not None:
                    n += 1
                    m = model(drv, "sample_and_log_prob", Z(ev), p(nn_), Z(ctxenc))
                    im = ("ok", [list(r[1][0].shape), list(r[1][1].shape)]) if r[0] == "ok" else ("err", r[1])
                    if m != im:
                        mm.append({"cls": name, "call": "sample_and_log_prob(%d, rows=%s)" % (nn_, rows), "model": m, "impl": im})
            # log_prob: one per row, context mismatch -> ValueError
            for b in (1, 2, 4):
                x = torch.rand(b, *ev)
                for crow in ([None] if rows is None else [b, b + 1]):
                    c = None if crow is None else torch.randn(crow, ctxf)
                    r = attempt(d.log_prob, x, c)
                    ck.case((name, "lp", b, crow), nontrivial=r[0] == "ok")
                    if crow is not None and crow != b:
                        if not (r[0] == "err" and r[1] == "ValueError"):
                            ck.finding("log_prob:context-mismatch-not-ValueError:%s" % name.split("[")[0].split("(")[0],
                                       "log_prob(rows %d, context rows %d) -> %s" % (b, crow, r[:2]),
                                       {"search": "lp", "cls": name, "b": b, "crow": crow})
                    elif r[0] != "ok" or list(r[1].shape) != [b]:
                        ck.finding("log_prob:shape:%s" % name.split("[")[0].split("(")[0],
                                   "log_prob on %d rows -> %s" % (b, list(r[1].shape) if r[0] == "ok" else r[1:]),
                                   {"search": "lp", "cls": name, "b": b, "crow": crow})
                    if drv is not None:
                        n += 1
                        m = model(drv, "log_prob", Z(ev), Z([b] + ev), Z([-1] if crow is None else [crow, ctxf]))
                        im = ("ok", [list(r[1].shape)]) if r[0] == "ok" else ("err", r[1])
                        if m != im:
                            mm.append({"cls": name, "call": "log_prob(%d rows, ctx rows %s)" % (b, crow), "model": m, "impl": im})
        # many rows (counts a small-integer shortcut would not tell apart): 257, 600 input rows with a matching context, and
        # sample_and_log_prob / sample whose rows x n product passes 256
        for b in (257, 600):
            x = torch.rand(b, *ev)
            for crow in ([None] if not needs else []) + ([b, b - 1] if ctxf is not None else []):
                c = None if crow is None else torch.randn(crow, ctxf)
                with torch.no_grad():
                    r = attempt(d.log_prob, x, c)
                ck.case((name, "lp-many", b, crow), nontrivial=r[0] == "ok")
                if crow is not None and crow != b:
                    if not (r[0] == "err" and r[1] == "ValueError"):
                        ck.finding("log_prob:context-mismatch-not-ValueError:%s" % name.split("[")[0].split("(")[0],
                                   "log_prob(rows %d, context rows %d) -> %s" % (b, crow, r[:2]), {"search": "lp", "cls": name, "b": b, "crow": crow})
                elif r[0] != "ok" or list(r[1].shape) != [b]:
                    ck.finding("log_prob:shape:%s" % name.split("[")[0].split("(")[0],
                               "log_prob on %d rows (context rows %s) -> %s" % (b, crow, list(r[1].shape) if r[0] == "ok" else r[1:]),
                               {"search": "lp", "cls": name, "b": b, "crow": crow})
        for nn_, rows in ((60, 5), (129, 2), (300, None), (257, 1)):
            if (rows is None and needs) or (rows is not None and ctxf is None):
                continue
            ctx = None if rows is None else torch.randn(rows, ctxf)
            lead = [nn_] if rows is None else [rows, nn_]
            with torch.no_grad():
                r = attempt(d.sample_and_log_prob, nn_, ctx)
            ck.case((name, "salp-many", nn_, rows), nontrivial=r[0] == "ok")
            if r[0] != "ok" or list(r[1][0].shape) != lead + ev or list(r[1][1].shape) != lead:
                ck.finding("sample_and_log_prob-shape:%s" % name.split("[")[0].split("(")[0],
                           "sample_and_log_prob(%d, rows %s) -> %s" % (nn_, rows, [list(t.shape) for t in r[1]] if r[0] == "ok" else r[1:]),
                           {"search": "salp", "cls": name, "n": nn_, "rows": rows})
            if has_sampler or True:
                with torch.no_grad():
                    r = attempt(d.sample, nn_, ctx, 256)
                if r[0] != "ok" or list(r[1].shape) != lead + ev:
                    ck.finding("sample-shape:%s:batched:%s" % (name.split("[")[0].split("(")[0], "context" if rows else "nocontext"),
                               "sample(%d, context rows %s, batch_size 256) -> %s, documented shape %s"
                               % (nn_, rows, list(r[1].shape) if r[0] == "ok" else r[1:], lead + ev), {"search": "sample", "cls": name, "n": nn_, "bs": 256, "rows": rows})
        # no rows at all (a filter that selected nothing): zero values, and zero rows of draws for a zero-row context.  Not asked
        # of the MADE mixture's sampler: torch.distributions.Categorical itself refuses an empty batch.
        x = torch.rand(0, *ev)
        for c in ([None] if not needs else []) + ([torch.randn(0, ctxf)] if ctxf is not None else []):
            with torch.no_grad():
                r = attempt(d.log_prob, x, c)
            ck.case((name, "lp-empty", c is None), nontrivial=False)
            if r[0] != "ok" or list(r[1].shape) != [0]:
                ck.finding("log_prob:empty-batch:%s" % name.split("[")[0].split("(")[0],
                           "%s: log_prob on inputs of shape %s (context %s) -> %s, one value per row means shape [0]"
                           % (name, list(x.shape), None if c is None else list(c.shape), list(r[1].shape) if r[0] == "ok" else r[1:]),
                           {"search": "lp-empty", "cls": name, "context": c is not None})
            if c is not None and not name.startswith("MADEMoG"):
                with torch.no_grad():
                    r = attempt(d.sample_and_log_prob, 3, c)
                if r[0] != "ok" or list(r[1][0].shape) != [0, 3] + ev or list(r[1][1].shape) != [0, 3]:
                    ck.finding("sample_and_log_prob:empty-context:%s" % name.split("[")[0].split("(")[0],
                               "%s: sample_and_log_prob(3, context of shape %s) -> %s" % (name, list(c.shape), [list(t.shape) for t in r[1]] if r[0] == "ok" else r[1:]),
                               {"search": "salp-empty", "cls": name})
        # bad counts
        ctx = None if not needs else torch.randn(2, ctxf)
        ctxenc = [-1] if not needs else [2, ctxf]
        for bad in (0, -1, -7, 2.0, None, "3", False):
            r = attempt(d.sample, bad, ctx)
            ck.case((name, "bad", repr(bad)), nontrivial=False)
            if not (r[0] == "err" and r[1] == "TypeError"):
                ck.finding("sample:bad-count-not-TypeError:%s" % name.split("[")[0].split("(")[0],
                           "sample(%r) -> %s" % (bad, r[:2] if r[0] == "err" else list(r[1].shape)),
                           {"search": "bad", "cls": name, "arg": repr(bad)})
            if drv is not None:
                n += 1
                m = model(drv, "sample", Z(ev), p(bad), Z(ctxenc), p(1), z(0))
                im = ("ok", [list(r[1].shape)]) if r[0] == "ok" else ("err", r[1])
                if m != im:
                    mm.append({"cls": name, "call": "sample(%r)" % (bad,), "model": m, "impl": im})
        # ... and a rejected value leaves no trace: the integers equal to the rejected floats are still accepted (and vice versa)
        for good in (11, 13, 6):           # counts no earlier call of this run has used, as int or as float
            attempt(d.sample, float(good), ctx)
            r = attempt(d.sample, good, ctx)
            r2 = attempt(d.sample, good, ctx, good)
            attempt(d.sample, good, ctx, float(good))
            r3 = attempt(d.sample, good, ctx, good)
            r4 = attempt(d.sample, float(good), ctx)
            ck.case((name, "after-bad", good), nontrivial=True)
            if r[0] != "ok" or r2[0] != "ok" or r3[0] != "ok":
                ck.finding("sample:valid-count-rejected-after-invalid-call:%s" % name.split("[")[0].split("(")[0],
                           "%s: sample(%d) / sample(%d, batch_size=%d) right after the call sample(%r) was rejected -> %s / %s / %s"
                           % (name, good, good, good, float(good), r[:2] if r[0] != "ok" else "ok", r2[:2] if r2[0] != "ok" else "ok", r3[:2] if r3[0] != "ok" else "ok"),
                           {"search": "after-bad", "cls": name, "n": good})
                break
            if not (r4[0] == "err" and r4[1] == "TypeError"):
                ck.finding("sample:bad-count-not-TypeError:%s" % name.split("[")[0].split("(")[0],
                           "%s: sample(%r) right after sample(%d) succeeded -> %s" % (name, float(good), good, r4[:2] if r4[0] == "err" else list(r4[1].shape)),
                           {"search": "after-bad", "cls": name, "arg": repr(float(good))})
                break
        for badbs in (0, -2, 1.5, "2"):
            r = attempt(d.sample, 3, ctx, badbs)
            ck.case((name, "badbs", repr(badbs)), nontrivial=False)
            if not (r[0] == "err" and r[1] == "TypeError"):
                ck.finding("sample:bad-batch-size-not-TypeError:%s" % name.split("[")[0].split("(")[0],
                           "sample(3, batch_size=%r) -> %s" % (badbs, r[:2]), {"search": "badbs", "cls": name, "arg": repr(badbs)})
    batched_rows(ck, tier, seed)
    call_sequences(ck, tier, seed)
    context_dtypes(ck, tier, seed)
    if drv is not None:
        ck.sample({"call": "StandardNormal([2,3]).sample(5, context rows 4, batch_size 2)",
                   "model": model(drv, "sample", Z([2, 3]), p(5), Z([4, 7]), p(2), z(1))})
        ck.correspondence("shapes and exception classes of sample / sample_and_log_prob / log_prob", n, mm)
    return ck.finish()


def replay(payload):
    print("replay:", payload.get("replay"))
    rp = payload.get("replay", {})
    for name, ctor, ev, ctxf, needs in catalogue():
        if name == rp.get("cls") and rp.get("search") == "sample":
            d = ctor()
            ctx = None if rp["rows"] is None else torch.randn(rp["rows"], ctxf)
            print(attempt(lambda: d.sample(rp["n"], ctx, rp["bs"]).shape))
    return 0
