"""C11: linear-family accessors all describe one and the same affine map."""
import math

import torch

from common import Check, F, f, z
from implutil import attempt, tgen, close, flat


def rand_params(t, g, scale=0.7):
    with torch.no_grad():
        for prm in t.parameters():
            prm.copy_((torch.randn(prm.shape, generator=g, dtype=torch.float64) * scale).to(prm.dtype))


def run(tier, seed):
    ck = Check("C11", tier, seed, areas=["linear"], gen_groups=["LinearFamily"])
    ck.rule = ("LU / QR / SVD / naive / Householder parameterisations x feature counts 1..6 x Householder counts 1..14 (odd, "
               "even, larger than the feature count) x initialisation modes x random parameters (float64): the extracted "
               "list-of-rows model vs weight(), weight_inverse(), logabsdet(), forward, inverse; on the implementation W "
               "W^-1 = I, forward = W x + b, slogdet(W) = logabsdet(), Q^T Q = I, finiteness; non-trivial = features >= 2; "
               "distinct by (class, size, count, init)")
    ck.build()
    drv = ck.driver("linear") if ck.have_driver("linear") else None
    from nflows.transforms import lu, qr, svd, linear, orthogonal
    sizes = range(1, 5) if tier == "quick" else range(1, 7)
    counts = [1, 2, 3, 5, 8, 14] if tier == "quick" else list(range(1, 15))
    mm, n = [], 0

    def check_impl(name, t, nfeat, key):
        """the property itself on the real object"""
        case = {"search": "accessors", "class": name, "features": nfeat, "key": key}
        g = tgen(seed, "x", name, nfeat, key)
        x = torch.randn(4, nfeat, generator=g, dtype=torch.float64)
        r = attempt(lambda: (t.weight(), t.weight_inverse(), t.logabsdet(), t(x), t.inverse(x)))
        if r[0] != "ok":
            ck.finding("linear:%s:accessor-raises:%s" % (name, r[1]), "%s(%d, %s): %s" % (name, nfeat, key, r[2]), case)
            return None
        W, Wi, lad, (y, ly), (xi, li) = r[1]
        if not all(bool(torch.isfinite(v).all()) for v in (W, Wi, lad, y, ly, xi, li)):
            ck.finding("linear:%s:non-finite" % name, "%s(%d, %s) returns non-finite values" % (name, nfeat, key), case)
            return None
        eye = torch.eye(nfeat, dtype=torch.float64)
        cond = float(torch.linalg.cond(W))
        tol = 1e-9 * max(1.0, cond)
        if float((W @ Wi - eye).abs().max()) > tol:
            ck.finding("linear:%s:weight_inverse-not-inverse" % name, "max |W W^-1 - I| = %g" % float((W @ Wi - eye).abs().max()), case)
        if float((y - (x @ W.T + t.bias)).abs().max()) > tol:
            ck.finding("linear:%s:forward-not-Wx+b" % name, "max err %g" % float((y - (x @ W.T + t.bias)).abs().max()), case)
        if abs(float(torch.linalg.slogdet(W)[1]) - float(lad)) > 1e-9 * max(1.0, nfeat):
            ck.finding("linear:%s:logabsdet-not-log-det-W" % name, "slogdet %r vs logabsdet() %r" % (float(torch.linalg.slogdet(W)[1]), float(lad)), case)
        if float((ly - lad).abs().max()) > 1e-10 or float((li + lad).abs().max()) > 1e-10:
            ck.finding("linear:%s:pass-logabsdet-differs-from-accessor" % name, "forward %r inverse %r accessor %r" % (ly[0].item(), li[0].item(), float(lad)), case)
        # the combined accessors and the cached passes describe the same map
        for acc, refm in (("weight_and_logabsdet", W), ("weight_inverse_and_logabsdet", Wi)):
            if hasattr(t, acc):
                a = attempt(getattr(t, acc))
                if a[0] != "ok":
                    ck.finding("linear:%s:%s-raises" % (name, acc), "%s %s" % (a[1], a[2]), case)
                else:
                    if float((a[1][0] - refm).abs().max()) > tol:
                        ck.finding("linear:%s:%s-matrix-differs" % (name, acc), "max err %g" % float((a[1][0] - refm).abs().max()), case)
                    if abs(float(a[1][1]) - float(lad)) > 1e-9 * max(1.0, nfeat):
                        ck.finding("linear:%s:%s-logabsdet-differs" % (name, acc),
                                   "%s() returns logabsdet %r, logabsdet() %r" % (acc, float(a[1][1]), float(lad)), case)
        if hasattr(t, "use_cache"):
            was_training, was_cache = t.training, t.using_cache
            for order in (("forward", "inverse"), ("inverse", "forward")):
                t.eval(); t.use_cache(True); t.cache.invalidate()
                for direction in order:
                    with torch.no_grad():
                        c = attempt(t.forward, x) if direction == "forward" else attempt(t.inverse, y)
                    want = (y, ly) if direction == "forward" else (x, -ly)
                    if c[0] != "ok":
                        ck.finding("linear:%s:cached-%s-raises" % (name, direction), "%s %s" % (c[1], c[2]), case)
                    elif float((c[1][0] - want[0]).abs().max()) > tol * (1 + float(x.abs().max())) or \
                            float((c[1][1] - want[1]).abs().max()) > 1e-9 * max(1.0, nfeat):
                        ck.finding("linear:%s:cached-%s-differs-from-uncached" % (name, direction),
                                   "order %s: outputs differ by %g, logabsdet %r vs %r" % (
                                       order, float((c[1][0] - want[0]).abs().max()), float(c[1][1][0]), float(want[1][0])), case)
            t.cache.invalidate(); t.use_cache(was_cache); t.train(was_training)
            # histories around a parameter move: whatever the order of eval() / train() / use_cache() calls, a cached pass after the
            # parameters moved describes the CURRENT weight(), weight_inverse() and logabsdet()
            import copy
            saved = copy.deepcopy(t.state_dict())
            hists = (("eval", "pass", "move-data", "eval"), ("eval", "cache-off", "pass", "move-data-rebind"),
                     ("eval", "cache-on", "pass", "cache-off", "train", "move", "eval", "cache-on"),
                     ("eval", "cache-on", "pass", "train", "move", "eval"),
                     ("eval", "cache-on", "pass", "cache-off", "train", "cache-on", "move", "eval"),
                     ("eval", "cache-on", "pass", "train", "cache-off", "move", "cache-on", "eval"))
            for hist in hists:
                t.load_state_dict(saved); t.train(); t.use_cache(False); t.cache.invalidate()
                ok_ = True
                for step in hist:
                    if step == "eval":
                        t.eval()
                    elif step == "train":
                        t.train()
                    elif step == "cache-on":
                        t.use_cache(True)
                    elif step == "cache-off":
                        t.use_cache(False)
                    elif step == "pass":
                        with torch.no_grad():
                            ok_ = ok_ and attempt(t.forward, x)[0] == "ok" and attempt(t.inverse, x)[0] == "ok"
                    elif step == "move":
                        with torch.no_grad():
                            for q_ in t.parameters():
                                q_.mul_(1.25).add_(0.05)
                    elif step == "move-data":           # as torch.nn.utils.vector_to_parameters and older optimisers write
                        for q_ in t.parameters():
                            q_.data.mul_(1.25).add_(0.05)
                    elif step == "move-data-rebind":
                        for q_ in t.parameters():
                            q_.data = q_.data * 1.25 + 0.05
                if not ok_:
                    continue
                with torch.no_grad():
                    now = attempt(lambda: (t.weight(), t.weight_inverse(), t.logabsdet()))
                    cf, ci = attempt(t.forward, x), attempt(t.inverse, x)
                if now[0] == "ok" and cf[0] == "ok" and ci[0] == "ok" and all(bool(torch.isfinite(v_).all()) for v_ in now[1]):
                    W2, Wi2, lad2 = now[1]
                    tol2 = 1e-9 * max(1.0, float(torch.linalg.cond(W2))) * (1 + float(x.abs().max()))
                    e_f = float((cf[1][0] - (x @ W2.T + t.bias)).abs().max())
                    e_i = float((ci[1][0] - ((x - t.bias) @ Wi2.T)).abs().max())
                    e_l = max(float((cf[1][1] - lad2).abs().max()), float((ci[1][1] + lad2).abs().max()))
                    e_d = abs(float(torch.linalg.slogdet(W2)[1]) - float(lad2))       # the accessors among themselves
                    e_w = float((W2 @ Wi2 - torch.eye(nfeat, dtype=W2.dtype)).abs().max())
                    if e_d > 1e-8 * max(1.0, nfeat) or e_w > tol2:
                        ck.finding("linear:%s:accessors-disagree-after-parameter-move" % name,
                                   "history %s: log|det weight()| differs from logabsdet() by %g, weight() weight_inverse() from I by %g"
                                   % (" > ".join(hist), e_d, e_w), dict(case, history=list(hist)))
                        break
                    if e_f > tol2 or e_i > tol2 or e_l > 1e-9 * max(1.0, nfeat):
                        ck.finding("linear:%s:cached-pass-stale-after-parameter-move" % name,
                                   "history %s: forward differs from W x + b by %g, inverse from W^-1 (x - b) by %g, logabsdet by %g"
                                   % (" > ".join(hist), e_f, e_i, e_l), dict(case, history=list(hist)))
                        break
            t.load_state_dict(saved); t.cache.invalidate(); t.use_cache(was_cache); t.train(was_training)
        back = t.inverse(y)[0]
        if float((back - x).abs().max()) > tol * (1 + float(x.abs().max())):
            ck.finding("linear:%s:inverse-does-not-undo-forward" % name, "max err %g" % float((back - x).abs().max()), case)
        return x, W, Wi, lad, y

    for nf in sizes:
        g = tgen(seed, "lin", nf)
        # ---- LU, both init modes
        for ident in (True, False):
            t = lu.LULinear(nf, identity_init=ident).double()
            if not ident:
                rand_params(t, g)
            ck.case(("LU", nf, ident), nontrivial=nf >= 2)
            got = check_impl("LULinear", t, nf, "identity_init=%s" % ident)
            if ident:
                W = t.weight()
                if not torch.allclose(W, torch.eye(nf, dtype=torch.float64), atol=1e-12):
                    ck.finding("linear:LULinear:identity-init-not-identity", "W = %s" % W.tolist(), {"search": "init", "n": nf})
            if drv is not None and got:
                x = got[0]
                m = drv.call("lu", z(nf), f(t.eps), F(t.lower_entries.tolist()), F(t.upper_entries.tolist()),
                             F(t.unconstrained_upper_diag.tolist()), F(t.bias.tolist()), F(x[0].tolist()))
                n += 1
                ok = close(m[0], flat(got[1]), 1e-9) and close(m[1], flat(got[2]), 1e-7 * max(1, float(torch.linalg.cond(got[1])))) \
                    and close(m[2], float(got[3]), 1e-9) and close(m[3], got[4][0].tolist(), 1e-9) \
                    and close(m[4], x[0].tolist(), 1e-7 * max(1, float(torch.linalg.cond(got[1]))))
                if not ok:
                    mm.append({"class": "LULinear", "n": nf, "identity_init": ident, "model_logabsdet": m[2], "impl": float(got[3])})
        # ---- Householder, QR, SVD over the counts
        for k in counts:
            r = attempt(orthogonal.HouseholderSequence, nf, k)
            ck.case(("HH", nf, k), nontrivial=nf >= 2)
            case = {"search": "householder", "features": nf, "count": k}
            if r[0] != "ok":
                ck.finding("linear:HouseholderSequence:constructor-raises:%s" % r[1], "HouseholderSequence(%d, %d): %s" % (nf, k, r[2]), case)
                continue
            h = r[1].double()
            for init in ("default", "random"):
                if init == "random":
                    rand_params(h, g)
                Q = attempt(h.matrix)
                if Q[0] != "ok" or not bool(torch.isfinite(Q[1]).all()):
                    ck.finding("linear:HouseholderSequence:matrix-not-finite:%s" % init, "HouseholderSequence(%d, %d) %s init" % (nf, k, init), case)
                    continue
                Q = Q[1].double()
                if float((Q.T @ Q - torch.eye(nf, dtype=torch.float64)).abs().max()) > 1e-9:
                    ck.finding("linear:HouseholderSequence:not-orthogonal:%s" % init, "(%d, %d): max |Q^T Q - I| = %g" % (
                        nf, k, float((Q.T @ Q - torch.eye(nf, dtype=torch.float64)).abs().max())), case)
                x = torch.randn(2, nf, generator=g, dtype=torch.float64)
                y, _ = h(x)
                if float((y - x @ Q.T).abs().max()) > 1e-9 and float((y - x @ Q).abs().max()) > 1e-9:
                    ck.finding("linear:HouseholderSequence:matrix-is-not-the-forward-map", "(%d, %d)" % (nf, k), case)
                if float((h.inverse(y)[0] - x).abs().max()) > 1e-9:
                    ck.finding("linear:HouseholderSequence:inverse-does-not-undo-forward", "(%d, %d)" % (nf, k), case)
                if drv is not None:
                    m = drv.call("hh", z(nf), F(flat(h.q_vectors)), F(x[0].tolist()))
                    n += 1
                    if not (close(m[0], y[0].tolist(), 1e-9) and close(m[2], flat(h.matrix().double()), 1e-9)):
                        mm.append({"class": "HouseholderSequence", "n": nf, "count": k, "init": init})
            # QR
            t = attempt(qr.QRLinear, nf, k)
            if t[0] != "ok":
                ck.finding("linear:QRLinear:constructor-raises:%s" % t[1], "QRLinear(%d, %d): %s" % (nf, k, t[2]), case)
            else:
                t = t[1].double()
                rand_params(t, g)
                ck.case(("QR", nf, k), nontrivial=nf >= 2)
                got = check_impl("QRLinear", t, nf, "householder=%d" % k)
                if drv is not None and got:
                    x = got[0]
                    m = drv.call("qr", z(nf), F(flat(t.orthogonal.q_vectors)), F(t.upper_entries.tolist()),
                                 F(t.log_upper_diag.tolist()), F(t.bias.tolist()), F(x[0].tolist()))
                    n += 1
                    c = max(1, float(torch.linalg.cond(got[1])))
                    if not (close(m[0], flat(got[1]), 1e-9) and close(m[1], float(got[3]), 1e-9) and close(m[2], got[4][0].tolist(), 1e-9)
                            and close(m[3], x[0].tolist(), 1e-7 * c)):
                        mm.append({"class": "QRLinear", "n": nf, "count": k})
            if k % 2 == 0:
                for ident in (True, False):
                    t = attempt(svd.SVDLinear, nf, k, False, ident)
                    if t[0] != "ok":
                        ck.finding("linear:SVDLinear:constructor-raises:%s" % t[1], "SVDLinear(%d, %d): %s" % (nf, k, t[2]), case)
                        continue
                    t = t[1].double()
                    if not ident:
                        rand_params(t, g)
                    ck.case(("SVD", nf, k, ident), nontrivial=nf >= 2)
                    got = check_impl("SVDLinear", t, nf, "householder=%d identity_init=%s" % (k, ident))
                    if drv is not None and got:
                        x = got[0]
                        m = drv.call("svd", z(nf), F(flat(t.orthogonal_1.q_vectors)), F(flat(t.orthogonal_2.q_vectors)), f(t.eps),
                                     F(t.unconstrained_diagonal.tolist()), F(t.bias.tolist()), F(x[0].tolist()))
                        n += 1
                        c = max(1, float(torch.linalg.cond(got[1])))
                        if not (close(m[0], float(got[3]), 1e-9) and close(m[1], got[4][0].tolist(), 1e-9) and close(m[2], x[0].tolist(), 1e-7 * c)):
                            mm.append({"class": "SVDLinear", "n": nf, "count": k, "identity_init": ident})
        # ---- NaiveLinear, both init modes
        for orth in (True, False):
            t = attempt(linear.NaiveLinear, nf, orth)
            ck.case(("Naive", nf, orth), nontrivial=nf >= 2)
            if t[0] != "ok":
                ck.finding("linear:NaiveLinear:constructor-raises:%s" % t[1], "NaiveLinear(%d, orthogonal_initialization=%s): %s" % (nf, orth, t[2]),
                           {"search": "naive", "features": nf, "orthogonal": orth})
                continue
            check_impl("NaiveLinear", t[1].double(), nf, "orthogonal_initialization=%s" % orth)
    if drv is not None:
        ck.sample({"class": "LULinear", "n": 2, "model": drv.call("lu", z(2), f(1e-3), F([0.5]), F([-0.25]), F([0.1, 0.2]), F([0.0, 1.0]), F([1.0, 2.0]))})
        ck.correspondence("list-of-rows model vs weight / weight_inverse / logabsdet / forward / inverse", n, mm)
    # ---- matrices whose determinant leaves the floating-point range although log|det| is modest: many features, or entries of
    # extreme scale.  The accessors must still return finite values that agree with a float64 reference and with each other.
    import math as _math
    big = []
    for dt in (torch.float32, torch.float64):
        for nfeat in (64, 128):
            torch.manual_seed(seed + nfeat)
            big.append(("NaiveLinear(%d, random init) %s" % (nfeat, dt), linear.NaiveLinear(nfeat, orthogonal_initialization=False).to(dt)))
            big.append(("LULinear(%d) %s" % (nfeat, dt), lu.LULinear(nfeat, identity_init=False).to(dt)))
            t_ = svd.SVDLinear(nfeat, num_householder=2, identity_init=False).to(dt)
            with torch.no_grad():
                t_.unconstrained_diagonal.fill_(-4.0 if nfeat == 64 else 3.0)
            big.append(("SVDLinear(%d, diagonal %s) %s" % (nfeat, "small" if nfeat == 64 else "large", dt), t_))
        for sc in (1e-12, 1e10):
            t_ = linear.NaiveLinear(4, orthogonal_initialization=False).to(dt)
            with torch.no_grad():
                t_._weight.copy_(torch.eye(4, dtype=dt) * sc + torch.ones(4, 4, dtype=dt) * sc * 0.1)
            big.append(("NaiveLinear(4, entries %g) %s" % (sc, dt), t_))
    # parameters far out (log-diagonals of +-18, unconstrained diagonals of +-30): a guard on one accessor only makes the accessors
    # describe different maps
    for dt in (torch.float64,):
        t_ = qr.QRLinear(3, num_householder=2).to(dt)
        with torch.no_grad():
            t_.log_upper_diag.copy_(torch.tensor([18.5, -17.0, 0.3], dtype=dt))
            t_.upper_entries.copy_(torch.tensor([0.5, -0.3, 0.2], dtype=dt)[:t_.upper_entries.numel()])
        big.append(("QRLinear(3, log diagonal 18.5, -17, 0.3) %s" % dt, t_))
        t_ = lu.LULinear(3, identity_init=False).to(dt)
        with torch.no_grad():
            t_.unconstrained_upper_diag.copy_(torch.tensor([30.0, -25.0, 0.3], dtype=dt))
        big.append(("LULinear(3, unconstrained diagonal 30, -30, 0.3) %s" % dt, t_))
        t_ = svd.SVDLinear(3, num_householder=2, identity_init=False).to(dt)
        with torch.no_grad():
            t_.unconstrained_diagonal.copy_(torch.tensor([30.0, -25.0, 0.3], dtype=dt))
        big.append(("SVDLinear(3, unconstrained diagonal 30, -30, 0.3) %s" % dt, t_))
    for name, t in big:
        t.eval()
        dt = next(t.parameters()).dtype
        nfeat = t.features
        ck.case(("c11-range", name), nontrivial=True)
        case = {"search": "determinant-out-of-range", "transform": name, "seed": seed}
        with torch.no_grad():
            r = attempt(lambda: (t.weight(), t.logabsdet(), t(torch.zeros(2, nfeat, dtype=dt)), t.inverse(torch.zeros(2, nfeat, dtype=dt))))
        if r[0] != "ok":
            ck.finding("linear:%s:accessor-raises:%s" % (name.split("(")[0], r[1]), "%s: %s" % (name, r[2]), case)
            continue
        W, lad, (y, ly), (xi, li) = r[1]
        ref = float(torch.linalg.slogdet(W.double())[1])
        tol = (2e-3 if dt == torch.float32 else 1e-8) * max(1.0, abs(ref))
        vals = {"logabsdet()": float(lad), "forward": float(ly[0]), "-inverse": -float(li[0])}
        for acc in ("weight_and_logabsdet", "weight_inverse_and_logabsdet"):
            a = attempt(getattr(t, acc))
            if a[0] == "ok":
                vals[acc + "()"] = float(a[1][1])
        bad = {k: v for k, v in vals.items() if not _math.isfinite(v) or abs(v - ref) > tol}
        if bad:
            ck.finding("linear:%s:logabsdet-not-log-det-W" % name.split("(")[0],
                       "%s: log|det W| = %.6f (float64 reference) but %s" % (name, ref, bad), case)
    return ck.finish()


def replay(payload):
    print("replay:", payload.get("replay"))
    return 0
