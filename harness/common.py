"""Shared machinery of the checks: build (translator + Coq + drivers), gates,
driver I/O, findings vs known_findings.json, evidence, verdict."""
import fcntl
import json
import os
import re
import subprocess
import sys
import time

VERIF = os.path.dirname(os.path.dirname(os.path.abspath(__file__)))
REPO = os.environ.get("NFLOWS_REPO", "/repo")
COQ = os.path.join(VERIF, "coq")
DRIVER = os.path.join(VERIF, "driver")
GEN = os.path.join(COQ, "Gen")

ALLOWED_AXIOMS = [l.strip() for l in open(os.path.join(VERIF, "tools", "axioms_whitelist.txt"))
                  if l.strip() and not l.startswith("#")]

ERRCODES = {0: "Ok", 1: "InputOutsideDomain", 2: "InverseNotAvailable", 3: "ValueError", 4: "TypeError",
            5: "RuntimeError", 6: "IndexError", 7: "AssertionError", 8: "AttributeError"}


def sh(cmd, cwd=None, timeout=1800, env=None):
    p = subprocess.run(cmd, cwd=cwd, shell=isinstance(cmd, str), stdout=subprocess.PIPE, stderr=subprocess.STDOUT,
                       timeout=timeout, env=env, text=True)
    return p.returncode, p.stdout


class BuildLock:
    def __enter__(self):
        self.fh = open(os.path.join(VERIF, ".build.lock"), "w")
        fcntl.flock(self.fh, fcntl.LOCK_EX)
        return self

    def __exit__(self, *a):
        fcntl.flock(self.fh, fcntl.LOCK_UN)
        self.fh.close()


# ------------------------------------------------------------------ wire format
def F(xs):
    return "F[" + ",".join(float(x).hex() for x in xs) + "]"


def Z(xs):
    return "Z[" + ",".join(str(int(x)) for x in xs) + "]"


def f(x):
    return "f:" + float(x).hex()


def z(i):
    return "z:%d" % int(i)


def p(v):
    """python value -> pyval token"""
    if isinstance(v, bool):
        return "p:bT" if v else "p:bF"
    if isinstance(v, int):
        return "p:i%d" % v
    if isinstance(v, float):
        return "p:fl"
    if v is None:
        return "p:no"
    return "p:st"


class ModelErr(Exception):
    def __init__(self, code):
        self.code = code
        self.kind = ERRCODES.get(code, "?")
        super().__init__(self.kind)


class ModelBad(Exception):
    pass


def _parse_tok(t):
    if t.startswith("f:"):
        return float.fromhex(t[2:]) if t[2:] not in ("nan", "-nan", "inf", "-inf", "infinity", "-infinity") else float(t[2:].replace("infinity", "inf"))
    if t.startswith("z:"):
        return int(t[2:])
    if t.startswith("F["):
        body = t[2:-1]
        return [(_hexf(x)) for x in body.split(",")] if body else []
    if t.startswith("Z["):
        body = t[2:-1]
        return [int(x) for x in body.split(",")] if body else []
    raise ModelBad("token " + t)


def _hexf(x):
    try:
        return float.fromhex(x)
    except ValueError:
        return float(x.replace("infinity", "inf"))


class Driver:
    def __init__(self, area):
        self.area = area
        path = os.path.join(DRIVER, "drv_" + area)
        self.proc = subprocess.Popen([path], stdin=subprocess.PIPE, stdout=subprocess.PIPE, text=True, bufsize=1)
        self.calls = 0

    def call(self, cmd, *args):
        line = cmd + " " + " ".join(args) + "\n"
        self.proc.stdin.write(line)
        self.proc.stdin.flush()
        out = self.proc.stdout.readline()
        self.calls += 1
        if not out:
            raise ModelBad("driver %s died on: %s" % (self.area, line[:200]))
        out = out.strip()
        if out.startswith("OK"):
            return [_parse_tok(t) for t in out.split()[1:]]
        if out.startswith("ERR"):
            raise ModelErr(int(out.split()[1]))
        raise ModelBad(out + " <- " + line[:200])

    def close(self):
        try:
            self.proc.stdin.close()
            self.proc.wait(timeout=5)
        except Exception:
            self.proc.kill()


# ------------------------------------------------------------------ build
def run_translator():
    rc, out = sh([sys.executable, os.path.join(VERIF, "tools", "py2coq.py"), "--repo", REPO, "--out", GEN])
    try:
        status = json.load(open(os.path.join(GEN, "STATUS.json")))
    except Exception:
        status = {}
    return rc, out, status


def coq_make(targets, timeout=1500):
    sh(["./mk.sh"], cwd=COQ)
    rc, out = sh(["timeout", str(timeout), "make", "-f", "Makefile.coq", "-k", "-j16"] + targets, cwd=COQ,
                 timeout=timeout + 60)
    return rc, out


def parse_assumptions(text):
    """Print Assumptions output -> {'closed': n, 'axioms': sorted set of names}"""
    axioms = set()
    closed = 0
    inblock = False
    for line in text.splitlines():
        if line.startswith("Closed under the global context"):
            closed += 1
            inblock = False
        elif line.startswith("Axioms:"):
            inblock = True
        elif inblock:
            if not line.strip():
                continue
            if line[0] in " \t":
                continue  # continuation of a type
            m = re.match(r"^([A-Za-z_][\w.']*)\s*(:|$)", line)
            if m and not line.startswith(("COQC", "COQDEP", "make", "File ")):
                axioms.add(m.group(1))
            else:
                inblock = False
    return {"closed": closed, "axioms": sorted(axioms)}


def theorems_in(vfile):
    txt = open(vfile).read()
    return re.findall(r"^\s*(?:Theorem|Example)\s+([A-Za-z_][\w']*)", txt, re.M)


FORBIDDEN = re.compile(r"\b(Admitted|admit|Axiom|Parameter|Conjecture|Admit Obligations|Unset Guard Checking|"
                       r"bypass_check|Unset Universe Checking|Unset Positivity Checking)\b")


def source_gate():
    """No Admitted/admit/Axiom/Parameter/... anywhere; Variable/Hypothesis only inside sections."""
    bad = []
    for root, _, files in os.walk(COQ):
        for fn in files:
            if not fn.endswith(".v"):
                continue
            path = os.path.join(root, fn)
            depth = 0
            incomment = 0
            for i, line in enumerate(open(path), 1):
                code = re.sub(r'"[^"]*"', '""', line)          # string literals (generated tables quote source text)
                code = re.sub(r"\(\*.*?\*\)", "", code)
                if "(*" in code and "*)" not in code:
                    incomment += 1
                    code = code[:code.index("(*")]
                elif incomment and "*)" in code:
                    incomment -= 1
                    code = code[code.index("*)") + 2:]
                elif incomment:
                    continue
                if re.match(r"\s*(Section|Module)\b", code):
                    depth += 1
                if re.match(r"\s*End\b", code):
                    depth = max(0, depth - 1)
                if FORBIDDEN.search(code):
                    bad.append("%s:%d: %s" % (os.path.relpath(path, VERIF), i, line.strip()))
                if depth == 0 and re.match(r"\s*(Variables?|Hypothes[ie]s|Context)\b", code):
                    bad.append("%s:%d: %s outside a section" % (os.path.relpath(path, VERIF), i, line.strip()))
    return bad


def load_known():
    try:
        return json.load(open(os.path.join(VERIF, "known_findings.json")))["findings"]
    except FileNotFoundError:
        return []


CURRENT = None      # the Check under way (main.py turns an unexpected exception into a finding of this check)


class Check:
    """One run of one property's check."""

    def __init__(self, pid, tier, seed, areas, gen_groups, design_ref=""):
        global CURRENT
        CURRENT = self
        self.pid = pid
        self.tier = tier
        self.seed = seed
        self.areas = areas
        self.gen_groups = gen_groups
        self.t0 = time.time()
        self.obligations = []       # (name, ok, detail)
        self.corr = []              # dicts
        self.findings = []          # dicts {key, what, replay}
        self.samples = []
        self.evaluations = 0
        self.nontrivial_keys = set()
        self.traces = 0
        self.axioms = []
        self.closed = 0
        self.notes = []
        self.assumptions = []
        self.dist = {}
        self.drivers = {}
        self.known = [k for k in load_known() if k.get("property") == pid]
        self.replay_n = 0
        self.build_ok = True

    # -- obligations -----------------------------------------------------
    def obligation(self, name, ok, detail=""):
        self.obligations.append((name, bool(ok), detail))
        if not ok:
            print("[%s] obligation BROKEN: %s %s" % (self.pid, name, detail[:400]))

    def build(self):
        with BuildLock():
            rc, out, status = run_translator()
            for g in self.gen_groups:
                st = status.get(g)
                ok = bool(st and st["ok"])
                self.obligation("translate:" + g, ok, "; ".join(st["errors"]) if st else "no status")
            prop_v = os.path.join(COQ, "Properties", self.pid + ".v")
            prop_vo = prop_v + "o"
            if os.path.exists(prop_vo):
                os.remove(prop_vo)
            targets = ["Properties/%s.vo" % self.pid] + ["Extract/Ex_%s.vo" % a for a in self.areas]
            t = time.time()
            rc, out = coq_make(targets)
            self.make_s = time.time() - t
            self.make_log = out
            thms = theorems_in(prop_v)
            ok = os.path.exists(prop_vo)
            detail = ""
            if not ok:
                m = re.search(r'File "([^"]+)", line (\d+)[^\n]*\n((?:.*\n){0,12})', out)
                detail = ("%s:%s %s" % (m.group(1), m.group(2), " ".join(m.group(3).split())[:600])) if m else out[-600:]
            for th in thms:
                self.obligation("theorem:" + th, ok, detail)
            if not thms:
                self.obligation("theorems-present", False, "no theorem in Properties/%s.v" % self.pid)
            pa = parse_assumptions(out)
            self.axioms = pa["axioms"]
            self.closed = pa["closed"]
            illegal = [a for a in self.axioms if a not in ALLOWED_AXIOMS
                       and not any(w.endswith('*') and a.startswith(w[:-1]) for w in ALLOWED_AXIOMS)]
            self.obligation("axioms-whitelisted", not illegal, "not in whitelist: %s" % illegal)
            bad = source_gate()
            self.obligation("no-admitted-no-axiom-gate", not bad, "; ".join(bad[:5]))
            for a in self.areas:
                ok = os.path.exists(os.path.join(COQ, "Extract", "Ex_%s.vo" % a))
                self.obligation("extract:" + a, ok, "" if ok else "Extract/Ex_%s.v did not compile" % a)
            rc, out = sh([os.path.join(DRIVER, "build.sh")] + self.areas)
            for a in self.areas:
                ok = os.path.exists(os.path.join(DRIVER, "drv_" + a)) and rc == 0
                self.obligation("driver:" + a, ok, out[-300:] if not ok else "")
        self.build_ok = all(ok for _, ok, _ in self.obligations)
        return self.build_ok

    def driver(self, area):
        if area not in self.drivers:
            self.drivers[area] = Driver(area)
        return self.drivers[area]

    def have_driver(self, area):
        return any(n == "driver:" + area and ok for n, ok, _ in self.obligations)

    # -- correspondence --------------------------------------------------
    def case(self, key=None, nontrivial=True):
        self.evaluations += 1
        if nontrivial and key is not None:
            self.nontrivial_keys.add(key)

    def sample(self, s):
        if len(self.samples) < 12:
            self.samples.append(s)

    def count(self, what, n=1):
        self.dist[what] = self.dist.get(what, 0) + n

    def correspondence(self, name, n, mismatches):
        """record a correspondence suite; mismatches: list of dicts (case, model, impl)"""
        self.traces += n
        ok = not mismatches
        self.corr.append({"suite": name, "cases": n, "mismatches": len(mismatches)})
        self.obligation("correspondence:" + name, ok,
                        ("%d mismatches, first: %s" % (len(mismatches), json.dumps(mismatches[0], default=str)[:500]))
                        if mismatches else "")
        self.last_mismatches = mismatches
        return ok

    # -- findings --------------------------------------------------------
    def finding(self, key, what, replay):
        """A concrete failing input on the implementation.  `key` canonical."""
        for fnd in self.findings:
            if fnd["key"] == key:
                fnd["count"] += 1
                return
        self.findings.append({"key": key, "what": what, "replay": replay, "count": 1})

    def write_replay(self, payload):
        os.makedirs(os.path.join(VERIF, "replays"), exist_ok=True)
        self.replay_n += 1
        rel = "replays/%s-%d.json" % (self.pid, self.replay_n)
        with open(os.path.join(VERIF, rel), "w") as fh:
            json.dump(payload, fh, indent=1, default=str)
        return rel

    # -- verdict ---------------------------------------------------------
    def finish(self):
        for d in self.drivers.values():
            d.close()
        violations = 0
        known_keys = {k["key"]: k for k in self.known if k.get("status") == "known"}
        unlisted = []
        for fnd in self.findings:
            if fnd["key"] in known_keys:
                print("KNOWN-FINDING: property=%s %s -- %s" % (self.pid, fnd["key"], known_keys[fnd["key"]]["what"]))
            else:
                unlisted.append(fnd)
        for fnd in unlisted:
            rel = self.write_replay({"property": self.pid, "kind": "failing-input", "key": fnd["key"],
                                     "what": fnd["what"], "replay": fnd["replay"],
                                     "broken_obligations": [n for n, ok, _ in self.obligations if not ok]})
            print("VIOLATION property=%s replay=%s" % (self.pid, rel))
            print("  %s: %s" % (fnd["key"], fnd["what"][:300]))
            violations += 1
        broken = [(n, d) for n, ok, d in self.obligations if not ok]
        if broken and not unlisted:
            rel = self.write_replay({"property": self.pid, "kind": "obligation-no-longer-checks",
                                     "broken": [{"obligation": n, "detail": d} for n, d in broken],
                                     "note": "the search on model and implementation found no concrete failing "
                                             "input; the property is no longer shown to hold"})
            print("VIOLATION property=%s replay=%s no-failing-input-found" % (self.pid, rel))
            violations += 1
        n_obl = len(self.obligations)
        n_dis = sum(1 for _, ok, _ in self.obligations if ok)
        ev = {
            "property_id": self.pid, "tier": self.tier, "seed": self.seed, "level": "proof",
            "coverage": {
                "obligations": n_obl, "discharged": n_dis,
                "obligation_list": [{"name": n, "ok": ok} for n, ok, _ in self.obligations],
                "checker_cmd": "cd /verif/coq && make -f Makefile.coq Properties/%s.vo  (coqc 8.16.1, full .vo build; "
                               "Print Assumptions under every theorem)" % self.pid,
                "trusted_base": self.trusted_base(),
                "axioms_reported_by_Print_Assumptions": self.axioms,
                "theorems_closed_under_global_context": self.closed,
                "evaluations": self.evaluations,
                "distinct_nontrivial": len(self.nontrivial_keys),
                "rule": getattr(self, "rule", ""),
                "samples": self.samples or ["(no samples: build failed before any case ran)"],
                "traces_validated_against_impl": self.traces,
                "correspondence_suites": self.corr,
                "input_distribution": self.dist,
                "known_findings_seen": [f_["key"] for f_ in self.findings if f_["key"] in known_keys],
                "notes": self.notes,
                "make_wall_s": round(getattr(self, "make_s", 0.0), 1),
            },
            "assumptions": self.assumptions,
            "wall_s": round(time.time() - self.t0, 2),
            "violations": violations,
        }
        os.makedirs(os.path.join(VERIF, "evidence"), exist_ok=True)
        with open(os.path.join(VERIF, "evidence", self.pid + ".json"), "w") as fh:
            json.dump(ev, fh, indent=1, default=str)
        print("[%s] %s: obligations %d/%d, cases %d (distinct non-trivial %d), findings %d (unlisted %d), %.1fs"
              % (self.pid, self.tier, n_dis, n_obl, self.evaluations, len(self.nontrivial_keys),
                 len(self.findings), len(unlisted), time.time() - self.t0))
        return 1 if violations else 0

    def trusted_base(self):
        tb = ["Coq 8.16.1 kernel (coqc, full .vo build; vm_compute used for finite tables; no native_compute)",
              "axioms (standard library only): " + (", ".join(self.axioms) if self.axioms else "none"),
              "translator tools/py2coq.py + tools/groups.py for Gen/{%s}.v" % ",".join(self.gen_groups),
              "extraction: ExtrOcamlBasic only (Extract Inductive bool/option/list/prod/sumbool/unit/sumor), "
              "no Extract Constant; driver/proto.ml float dictionary (OCaml Stdlib = C libm doubles)",
              "correspondence harness harness/*.py (generators, tolerance rule); PyTorch primitives assumed to "
              "implement their documented mathematics"]
        return tb + list(getattr(self, "extra_trusted", []))


def tier_and_seed(argv):
    tier = os.environ.get("VERIF_TIER", "quick")
    for a in argv:
        if a in ("quick", "thorough"):
            tier = a
    seed = int(os.environ.get("VERIF_SEED", "20260101"))
    return tier, seed
