"""C19: single precision agrees with double precision and stays finite."""
import copy
import math

import torch

from common import Check
from implutil import attempt, tgen
import catalogue
import splines_h as sh


def search(ck, tier, seed):
    nseeds = 1 if tier == "quick" else 3
    for e in catalogue.entries(tier):
        for s in range(nseeds):
            t32 = attempt(catalogue.build, e, seed + s, torch.float32)
            if t32[0] != "ok":
                continue
            t32 = t32[1]
            t64 = copy.deepcopy(t32).double()
            x32, c32 = catalogue.sample_inputs(e, 6, seed + 40 + s, torch.float32)
            x64, c64 = x32.double(), (None if c32 is None else c32.double())
            ck.case(("c19", e["name"], s), nontrivial=True)
            ck.count(e["name"].split("(")[0].split("[")[0])
            case = {"search": "f32-vs-f64", "entry": e["name"], "seed": seed + s}
            with torch.no_grad():
                a = attempt(t32, x32, c32)
                b = attempt(t64, x64, c64)
            if b[0] != "ok":
                if "Cache" not in e["name"]:
                    ck.finding("precision:float64-twin-fails:%s" % e["name"], "%s: %s %s" % (e["name"], b[1], b[2]), case)
                continue
            if a[0] != "ok":
                ck.finding("precision:float32-raises:%s" % e["name"], "%s: %s %s" % (e["name"], a[1], a[2]), case)
                continue
            (y32, l32), (y64, l64) = a[1], b[1]
            if y32.dtype != torch.float32 or l32.dtype != torch.float32 or y64.dtype != torch.float64 or l64.dtype != torch.float64:
                ck.finding("precision:dtype-not-preserved:%s" % e["name"],
                           "%s: float32 run returns %s/%s, float64 run %s/%s" % (e["name"], y32.dtype, l32.dtype, y64.dtype, l64.dtype), case)
            if not (bool(torch.isfinite(y32).all()) and bool(torch.isfinite(l32).all())):
                ck.finding("precision:float32-non-finite:%s" % e["name"], "%s" % e["name"], case)
                continue
            D = max(1, x32[0].numel())
            kappa = 1.0 + float(torch.exp((l64.abs() / D).clamp(max=15)).max())
            tol = (5e-2 if e["umnn"] else 2e-4) * kappa
            err = float((y32.double() - y64).abs().max()) / (1 + float(y64.abs().max()))
            lerr = float((l32.double() - l64).abs().max()) / (1 + float(l64.abs().max()))
            if err > tol or lerr > tol * D:
                ck.finding("precision:float32-disagrees-with-float64:%s" % e["name"],
                           "%s: relative output error %.3g, log-det error %.3g (tolerance %.3g)" % (e["name"], err, lerr, tol), case)
            # inverse direction on the float64 outputs
            with torch.no_grad():
                ia = attempt(t32.inverse, y64.float(), c32)
                ib = attempt(t64.inverse, y64, c64)
            if ib[0] == "ok":
                if ia[0] != "ok":
                    if ia[1] != "InputOutsideDomain":     # rounding the float64 output to float32 may leave an open domain
                        ck.finding("precision:float32-inverse-raises:%s" % e["name"], "%s: %s %s" % (e["name"], ia[1], ia[2]), case)
                else:
                    xi32, li32 = ia[1]
                    if xi32.dtype != torch.float32 or li32.dtype != torch.float32:
                        ck.finding("precision:dtype-not-preserved:%s" % e["name"], "%s inverse returns %s/%s" % (e["name"], xi32.dtype, li32.dtype), case)
                    kin = 1.0 + float(torch.exp((ib[1][1].abs() / D).clamp(max=15)).max())
                    ierr = float((xi32.double() - ib[1][0]).abs().max()) / (1 + float(ib[1][0].abs().max()))
                    if not bool(torch.isfinite(xi32).all()):
                        ck.finding("precision:float32-non-finite:%s" % e["name"], "%s inverse" % e["name"], case)
                    elif ierr > (5e-2 if e["umnn"] else 5e-4) * kin * kappa:
                        ck.finding("precision:float32-disagrees-with-float64:%s" % e["name"],
                                   "%s inverse: relative error %.3g" % (e["name"], ierr), case)
    # elementwise nonlinearities on a grid of moderate inputs (|x| <= 5, temperatures 1 and 3; unit-interval maps on
    # [1e-3, 1 - 1e-3]): the float32 log-abs-det must be finite and within 1e-3 (1 + |value|) of the float64 one
    from nflows.transforms import nonlinearities as nl_, base as base_
    grid = torch.tensor([-5.0, -4.0, -3.0, -2.0, -1.0, -0.3, 0.0, 0.3, 1.0, 2.0, 3.0, 4.0, 5.0])
    unit = torch.tensor([1e-3, 1e-2, 0.1, 0.3, 0.5, 0.7, 0.9, 0.99, 0.999])
    elem = [("Sigmoid(T=1)", lambda: nl_.Sigmoid(), grid), ("Sigmoid(T=3)", lambda: nl_.Sigmoid(temperature=3.0), grid),
            ("Sigmoid(T=0.3)", lambda: nl_.Sigmoid(temperature=0.3), grid), ("Tanh", lambda: nl_.Tanh(), grid),
            ("LogTanh", lambda: nl_.LogTanh(1.0), grid), ("LeakyReLU", lambda: nl_.LeakyReLU(0.1), grid), ("Exp", lambda: nl_.Exp(), grid),
            ("CauchyCDF", lambda: nl_.CauchyCDF(), grid), ("Logit(T=1)", lambda: nl_.Logit(), unit), ("Logit(T=3)", lambda: nl_.Logit(temperature=3.0), unit),
            ("CauchyCDFInverse", lambda: nl_.CauchyCDFInverse(), unit), ("Inverse(Tanh)", lambda: base_.InverseTransform(nl_.Tanh()), unit * 2 - 1)]
    for name, mk, pts in elem:
        t32 = mk()
        t64 = copy.deepcopy(t32).double()
        for direction in ("forward", "inverse"):
            ck.case(("c19-elementwise", name, direction), nontrivial=True)
            case = {"search": "elementwise-grid", "transform": name, "direction": direction}
            with torch.no_grad():
                if direction == "forward":
                    a, b = attempt(t32.forward, pts[:, None]), attempt(t64.forward, pts[:, None].double())
                else:
                    y64 = t64.forward(pts[:, None].double())[0]
                    a, b = attempt(t32.inverse, y64.float()), attempt(t64.inverse, y64.float().double())
            if a[0] != "ok" or b[0] != "ok":
                continue       # rounding to float32 may leave an open domain; reported by the catalogue part when it matters
            l32, l64 = a[1][1].double(), b[1][1]
            if not bool(torch.isfinite(l32).all()) and bool(torch.isfinite(l64).all()):
                i = int(torch.nonzero(~torch.isfinite(l32))[0])
                ck.finding("precision:float32-non-finite:%s" % name, "%s %s at %r: float32 log-abs-det %r, float64 %r" % (
                    name, direction, float(pts[i]), float(l32[i]), float(l64[i])), case)
                continue
            bad = (l32 - l64).abs() > 1e-3 * (1 + l64.abs())
            if direction == "forward" and bool(bad.any()):
                i = int(torch.nonzero(bad)[0])
                ck.finding("precision:float32-disagrees-with-float64:%s" % name,
                           "%s forward at x=%r: float32 log-abs-det %r, float64 %r" % (name, float(pts[i]), float(l32[i]), float(l64[i])), case)
    # the linear family at larger widths: every parameter in a bounded box (also one-sided boxes for the diagonal
    # parameters, which make |det| very small or large while each entry stays moderate), cache on and off, both orders
    from nflows.transforms import lu, qr, svd, linear as lin, conv
    makers = [("LULinear", lambda f: lu.LULinear(f, identity_init=False), lambda f: [f]),
              ("QRLinear", lambda f: qr.QRLinear(f, num_householder=4), lambda f: [f]),
              ("SVDLinear", lambda f: svd.SVDLinear(f, num_householder=4, identity_init=False), lambda f: [f]),
              ("NaiveLinear", lambda f: lin.NaiveLinear(f), lambda f: [f]),
              ("OneByOneConvolution", lambda f: conv.OneByOneConvolution(f, identity_init=False), lambda f: [f, 2, 2])]
    for name, mk, shp in makers:
        for feats in ((3, 24) if tier == "quick" else (3, 12, 24, 48)) + (48,):
            for box in ((-1.0, 1.0), (-3.0, -2.5), (2.5, 3.0)):
                if name == "NaiveLinear" and box != (-1.0, 1.0):
                    continue
                g = tgen(seed, "c19lin", name, feats, box)
                t32 = mk(feats)
                with torch.no_grad():
                    for pn, prm in t32.named_parameters():
                        if "diag" in pn:
                            prm.copy_(box[0] + (box[1] - box[0]) * torch.rand(prm.shape, generator=g))
                        elif "bias" in pn:
                            prm.copy_(torch.randn(prm.shape, generator=g) * 0.3)
                        elif name == "NaiveLinear":
                            prm.add_(torch.randn(prm.shape, generator=g) * 0.05)
                        else:
                            prm.copy_((torch.rand(prm.shape, generator=g) * 2 - 1) * (0.3 / math.sqrt(feats) if "entries" in pn else 1.0))
                t32 = t32.float().eval()
                t64 = copy.deepcopy(t32).double().eval()
                x32 = torch.randn([4] + shp(feats), generator=g)
                for cache in (False, True):
                    for order in (("forward", "inverse"), ("inverse", "forward")):
                        for t in (t32, t64):
                            t.use_cache(cache)
                            t.cache.invalidate()
                        ck.case(("c19-linear", name, feats, box, cache, order), nontrivial=True)
                        case = {"search": "linear-width", "class": name, "features": feats, "diag_box": box, "cache": cache, "order": order, "seed": seed}
                        for direction in order:
                            with torch.no_grad():
                                a = attempt(getattr(t32, direction), x32)
                                b = attempt(getattr(t64, direction), x32.double())
                            if b[0] != "ok" or not bool(torch.isfinite(b[1][1]).all()):
                                continue
                            if a[0] != "ok":
                                ck.finding("precision:float32-raises:%s" % name, "%s(%d) %s: %s %s" % (name, feats, direction, a[1], a[2]), case)
                                continue
                            (y32, l32), (y64, l64) = a[1], b[1]
                            if not (bool(torch.isfinite(y32).all()) and bool(torch.isfinite(l32).all())):
                                ck.finding("precision:float32-non-finite:%s" % name,
                                           "%s(%d) %s, cache %s, diagonal parameters in %s: float32 log-abs-det %s, float64 %s" % (
                                               name, feats, direction, cache, box, l32[:2].tolist(), l64[:2].tolist()), case)
                                continue
                            lerr = float((l32.double() - l64).abs().max()) / (1 + float(l64.abs().max()))
                            if lerr > 1e-4:
                                ck.finding("precision:float32-disagrees-with-float64:%s" % name,
                                           "%s(%d) %s, cache %s: relative log-abs-det error %.3g" % (name, feats, direction, cache, lerr), case)
    # the spline functions in float32 on knots and end points, moderate parameters
    for fam in sh.FAMILIES:
        for K in (2, 5):
            for kind in ("zeros", "normal", "wide", "onehot"):
                for bi, box in enumerate(sh.BOXES[:4]):
                    g = tgen(seed, "c19s", fam, K, kind, bi)
                    p64 = sh.gen_params(fam, K, False, kind, g)
                    p32 = {k: v.float() for k, v in p64.items()}
                    x64 = sh.grid(fam, p64, box, per_bin=2)
                    x32 = x64.float().clamp(box[0], box[1])
                    ck.case(("c19-spline", fam, K, kind, bi), nontrivial=True)
                    a = sh.call(fam, False, x32, p32, box=box)
                    b = sh.call(fam, False, x32.double(), p64, box=box)
                    case = {"search": "spline-f32", "family": fam, "K": K, "kind": kind, "box": box, "seed": seed}
                    if a[0] != "ok" or b[0] != "ok":
                        if a[0] != b[0]:
                            ck.finding("precision:spline-float32-raises:%s" % fam, "%s box %s: %s" % (fam, box, a[1:]), case)
                        continue
                    if a[1][0].dtype != torch.float32 or a[1][1].dtype != torch.float32:
                        ck.finding("precision:spline-dtype-not-preserved:%s" % fam, "%s returns %s/%s" % (fam, a[1][0].dtype, a[1][1].dtype), case)
                    scale = max(1.0, abs(box[2]), abs(box[3]))
                    if float((a[1][0].double() - b[1][0]).abs().max()) > 5e-5 * scale * (1 + float(torch.exp(b[1][1].clamp(max=10)).max())):
                        ck.finding("precision:spline-float32-disagrees:%s" % fam,
                                   "%s box %s K=%d %s: max error %.3g" % (fam, box, K, kind, float((a[1][0].double() - b[1][0]).abs().max())), case)
                    # log-abs-det inside the bins (next to a knot the two precisions may pick neighbouring bins, where it jumps).
                    # Peaked parameters (logit spread ~12) give bins of mass 1e-6: a density formed as a DIFFERENCE of cumulative
                    # values keeps no digits there; the linear spline has no minimum bin size and reads the density directly
                    ks = torch.tensor(sh.knots_x(fam, p64, box), dtype=torch.float64)
                    inside = (x32.double()[:, None] - ks[None, :]).abs().min(1).values > 1e-4 * (box[1] - box[0])
                    l32, l64 = a[1][1].double(), b[1][1]
                    sel = inside & torch.isfinite(l64)
                    if bool(sel.any()):
                        ltol = 2e-5 if fam == "linear" else (4e-4 if kind in ("zeros", "normal") else 1e-2)
                        lerr = (l32[sel] - l64[sel]).abs()
                        if not bool(torch.isfinite(l32[sel]).all()) or float(lerr.max()) > ltol:
                            i = int(torch.argmax(torch.nan_to_num(lerr, nan=1e30, posinf=1e30)))
                            ck.finding("precision:spline-float32-logabsdet-disagrees:%s" % fam,
                                       "%s box %s K=%d %s parameters at x=%r: float32 log-abs-det %r, float64 %r" % (
                                           fam, box, K, kind, float(x32[sel][i]), float(l32[sel][i]), float(l64[sel][i])), case)


def wide_tails(ck, tier, seed):
    """the four unconstrained spline functions in float32 with LARGE tail bounds (5 .. 50): rounding of knots and sums scales with
    the bound; absolute tolerances tuned at tail bound 1 (in a check, a pin, a comparison) stop holding"""
    for fam in sh.FAMILIES:
        for B in (5.0, 8.0, 20.0, 50.0):
            for K in (4, 8):
                for row in range(4 if tier == "quick" else 16):
                    g = tgen(seed, "c19wide", fam, B, K, row)
                    p64 = sh.gen_params(fam, K, True, "normal", g)
                    p32 = {k: v.float() for k, v in p64.items()}
                    x64 = torch.linspace(-0.97 * B, 0.97 * B, 9, dtype=torch.float64)
                    for inverse in (False, True):
                        if row % 2:
                            b = sh.call(fam, inverse, x64.float().double(), p64, tail_bound=B)
                            a = sh.call(fam, inverse, x64.float(), p32, tail_bound=B)
                        else:
                            a = sh.call(fam, inverse, x64.float(), p32, tail_bound=B)
                            b = sh.call(fam, inverse, x64.float().double(), p64, tail_bound=B)
                        ck.case(("c19-wide-tails", fam, B, K, row, inverse), nontrivial=True)
                        case = {"search": "wide-tails-f32", "family": fam, "tail_bound": B, "K": K, "row": row, "inverse": inverse, "seed": seed}
                        if b[0] != "ok":
                            continue
                        if a[0] == "ok" and (a[1][0].dtype != torch.float32 or a[1][1].dtype != torch.float32):
                            ck.finding("precision:spline-dtype-not-preserved:%s" % fam,
                                       "unconstrained %s spline %s on float32 inputs returns %s / %s" % (fam, "inverse" if inverse else "forward", a[1][0].dtype, a[1][1].dtype), case)
                            break
                        if a[0] != "ok":
                            ck.finding("precision:spline-float32-raises:%s" % fam,
                                       "unconstrained %s spline, tail bound %g, %s: float32 raises %s (%s), float64 evaluates" % (fam, B, "inverse" if inverse else "forward", a[1], str(a[2])[:80]), case)
                            break
                        if fam == "cubic" and inverse:
                            continue          # the cubic inverse's accuracy is the recorded finding
                        slope = torch.exp(b[1][1].clamp(max=12))
                        if not bool(torch.isfinite(a[1][0]).all()) or bool(((a[1][0].double() - b[1][0]).abs() > 1e-4 * B * (1 + slope)).any()):
                            ck.finding("precision:spline-float32-disagrees:%s" % fam,
                                       "unconstrained %s spline, tail bound %g, %s: max error %.3g" % (
                                           fam, B, "inverse" if inverse else "forward", float((a[1][0].double() - b[1][0]).abs().max())), case)
                            break


def clipped_inputs(ck, tier, seed):
    """float32 data clipped to the tail bound (x.clamp(-B, B)) for bounds float32 has to round (0.6, 1.1, 1.2, 2.2, 0.3): inputs exactly
    on +-float32(B) evaluate, without raising, to what the float64 twin returns on the same numbers"""
    for fam in sh.FAMILIES:
        for B in (0.6, 1.1, 1.2, 2.2, 0.3, 1.0):
            for K in (3, 6):
                g = tgen(seed, "c19clip", fam, B, K)
                p64 = sh.gen_params(fam, K, True, "normal", g)
                p32 = {k: v.float() for k, v in p64.items()}
                x32 = (torch.randn(8, generator=g) * 2 * B).clamp(-B, B)
                x32[0], x32[1] = -B, B
                for inverse in (False, True):
                    a = sh.call(fam, inverse, x32, p32, tail_bound=B)
                    b = sh.call(fam, inverse, x32.double(), p64, tail_bound=B)
                    ck.case(("c19-clipped", fam, B, K, inverse), nontrivial=True)
                    case = {"search": "clipped-inputs-f32", "family": fam, "tail_bound": B, "K": K, "inverse": inverse, "seed": seed}
                    if b[0] != "ok":
                        continue
                    if a[0] != "ok":
                        ck.finding("precision:spline-float32-raises:%s" % fam,
                                   "unconstrained %s spline, tail bound %g, %s, float32 inputs clipped to the bound: raises %s (%s), float64 evaluates"
                                   % (fam, B, "inverse" if inverse else "forward", a[1], str(a[2])[:80]), case)
                        break
                    if fam == "cubic" and inverse:
                        continue
                    slope = torch.exp(b[1][1].clamp(max=12))
                    if not bool(torch.isfinite(a[1][0]).all()) or bool(((a[1][0].double() - b[1][0]).abs() > 1e-4 * max(B, 1.0) * (1 + slope)).any()):
                        ck.finding("precision:spline-float32-disagrees:%s" % fam,
                                   "unconstrained %s spline, tail bound %g, %s, clipped float32 inputs: max error %.3g"
                                   % (fam, B, "inverse" if inverse else "forward", float((a[1][0].double() - b[1][0]).abs().max())), case)
                        break


def rnd32_exact(q):
    """round-to-nearest-even onto binary32 (24-bit significands, exponents from -149), on exact rationals: the operator Flocq's
    round radix2 (FLT_exp (-149) 24) ZnearestE denotes (Proofs/Float32P.v rnd32)"""
    from fractions import Fraction
    if q == 0:
        return Fraction(0)
    a = abs(q)
    e = a.numerator.bit_length() - a.denominator.bit_length()         # 2^(e-1) <= a < 2^(e+1)
    if Fraction(2) ** e > a:
        e -= 1                                                       # now 2^e <= a < 2^(e+1)
    fexp = max(e + 1 - 24, -149)
    m = a / Fraction(2) ** fexp
    lo = m.numerator // m.denominator
    rem = m - lo
    if rem > Fraction(1, 2) or (rem == Fraction(1, 2) and lo % 2 == 1):
        lo += 1
    r = lo * Fraction(2) ** fexp
    return r if q > 0 else -r


def float32_dictionary(ck, tier, seed):
    """the tie of the single-precision dictionary Fops32 (Proofs/Float32P.v) to the implementation: the regenerated affine formulas
    evaluated with exact rationals and rnd32 after every operation equal, bit for bit, what the float32 modules return; and the
    error bounds of C19_actnorm_forward / inverse_float32_error and C19_conditional_normal_sampler_float32_error hold on the same inputs"""
    from fractions import Fraction
    from nflows.transforms.normalization import ActNorm
    from nflows.distributions.normal import ConditionalDiagonalNormal
    g = tgen(seed, "c19-f32dict")
    n = 60 if tier == "quick" else 600
    u = Fraction(1, 2 ** 24)
    tiny = Fraction(1, 2 ** 126)
    mism, nb = [], 0
    t = ActNorm(1).eval()
    d = ConditionalDiagonalNormal([1]).eval()
    for k in range(n):
        mag = 10.0 ** float(torch.randint(-6, 7, (1,), generator=g))
        ls, sh_, x = (torch.randn(3, generator=g) * torch.tensor([1.5, mag, mag])).tolist()
        ls, sh_, x = torch.tensor(ls).float(), torch.tensor(sh_).float(), torch.tensor(x).float()
        with torch.no_grad():
            t.log_scale.copy_(ls.reshape(1)); t.shift.copy_(sh_.reshape(1)); t.initialized.fill_(True)
            scale = torch.exp(t.log_scale)[0]            # float32 value the module multiplies by
            y = t(x.reshape(1, 1))[0][0, 0]
            xi = t.inverse(x.reshape(1, 1))[0][0, 0]
        S, T_, X = Fraction(float(scale)), Fraction(float(sh_)), Fraction(float(x))
        ck.case(("c19-f32dict", k), nontrivial=True)
        # forward: rnd(rnd(S X) + T)
        p_ = rnd32_exact(S * X)
        yf = rnd32_exact(p_ + T_)
        nb += 2
        if Fraction(float(y)) != yf:
            mism.append({"formula": "an_forward_out", "scale": float(scale), "shift": float(sh_), "x": float(x), "model": float(yf), "impl": float(y)})
        elif abs(S * X) >= tiny and abs(p_ + T_) >= tiny and abs(yf - (S * X + T_)) > u * (2 + u) * abs(S * X) + u * abs(T_):
            ck.finding("precision:float32-error-bound-violated:an_forward_out", "scale %r shift %r x %r" % (float(scale), float(sh_), float(x)),
                       {"search": "float32-dictionary", "k": k, "seed": seed})
        # inverse: rnd(rnd(X - T) / S)
        d_ = rnd32_exact(X - T_)
        xf = rnd32_exact(d_ / S)
        if Fraction(float(xi)) != xf:
            mism.append({"formula": "an_inverse_out", "scale": float(scale), "shift": float(sh_), "y": float(x), "model": float(xf), "impl": float(xi)})
        elif abs(X - T_) >= tiny and abs(d_ / S) >= tiny and abs(xf - (X - T_) / S) > u * (2 + u) * abs((X - T_) / S):
            ck.finding("precision:float32-error-bound-violated:an_inverse_out", "scale %r shift %r y %r" % (float(scale), float(sh_), float(x)),
                       {"search": "float32-dictionary", "k": k, "seed": seed})
    # the conditional normal's sampler: mean + std * noise, the noise reproduced from the generator seed
    for k in range(n):
        mag = 10.0 ** float(torch.randint(-5, 6, (1,), generator=g))
        mean_, ls_ = float(torch.randn(1, generator=g)) * mag, float(torch.randn(1, generator=g)) * 1.5
        ctx = torch.tensor([[mean_, ls_]], dtype=torch.float32)
        sd_seed = int(torch.randint(0, 2 ** 31 - 1, (1,), generator=g))
        with torch.no_grad():
            torch.manual_seed(sd_seed)
            smp = attempt(d.sample, 1, ctx)
            torch.manual_seed(sd_seed)
            noise = torch.randn(1, 1)
            std32 = torch.exp(ctx[0, 1])
        ck.case(("c19-f32dict-cdn", k), nontrivial=True)
        if smp[0] != "ok":
            continue
        Mq, Sq, Nq = Fraction(float(ctx[0, 0])), Fraction(float(std32)), Fraction(float(noise[0, 0]))
        pr = rnd32_exact(Sq * Nq)
        yf = rnd32_exact(Mq + pr)
        nb += 1
        got_ = Fraction(float(smp[1].reshape(-1)[0]))
        if got_ != yf:
            mism.append({"formula": "cdn_sample", "mean": float(Mq), "std": float(Sq), "noise": float(Nq), "model": float(yf), "impl": float(got_)})
        elif abs(Sq * Nq) >= tiny and abs(pr + Mq) >= tiny and abs(yf - (Mq + Sq * Nq)) > u * (2 + u) * abs(Sq * Nq) + u * abs(Mq):
            ck.finding("precision:float32-error-bound-violated:cdn_sample", "mean %r std %r noise %r" % (float(Mq), float(Sq), float(Nq)),
                       {"search": "float32-dictionary", "k": k, "seed": seed})
    # BatchNorm in evaluation mode: weight * ((x - mean) / sqrt(var + eps)) + bias, six rounded operations
    from nflows.transforms.normalization import BatchNorm
    import math as _m

    def sqrt_rnd32(q):
        """rnd32(sqrt(q)) for a positive rational: sqrt to 200 bits by integer square root (the square root of a binary32 number is
        never that close to a rounding boundary), then rounded exactly"""
        K = 200
        val = _m.isqrt((q.numerator << (2 * K)) // q.denominator)
        return rnd32_exact(Fraction(val, 1 << K))
    bn = BatchNorm(1, eps=1e-5).eval()
    for k in range(n):
        mag = 10.0 ** float(torch.randint(-4, 5, (1,), generator=g))
        uw, bias, mean, x = (torch.randn(4, generator=g) * torch.tensor([1.0, mag, mag, mag])).tolist()
        var = float(torch.rand(1, generator=g)) * mag * mag + 1e-3
        with torch.no_grad():
            bn.unconstrained_weight.fill_(uw); bn.bias.fill_(bias); bn.running_mean.fill_(mean); bn.running_var.fill_(var)
            w32 = bn.weight[0]
            x32 = torch.tensor([[x]], dtype=torch.float32)
            y = bn(x32)[0][0, 0]
        Wq, Bq, Mq, Vq, Xq, Eq = (Fraction(float(w32)), Fraction(float(bn.bias[0])), Fraction(float(bn.running_mean[0])), Fraction(float(bn.running_var[0])),
                                  Fraction(float(x32[0, 0])), Fraction(float(torch.tensor(bn.eps, dtype=torch.float32))))
        ck.case(("c19-f32dict-bn", k), nontrivial=True)
        d_ = rnd32_exact(Xq - Mq)
        s1 = rnd32_exact(Vq + Eq)
        # the square root: torch's vectorised float32 sqrt is faithfully, not always correctly, rounded (found by this very run:
        # sqrt(float32 0.00101034389808774) comes back as the farther neighbour by 0.08 % of an ulp), so the dictionary of
        # C19_batchnorm_forward_float32_error takes ANY square root within 2u.  Here: torch's value is used for this step after
        # checking that it is one of the two binary32 neighbours of the exact root (relative error below 2u)
        s2c = sqrt_rnd32(s1)
        s2 = Fraction(float(torch.sqrt(torch.tensor(float(s1), dtype=torch.float32))))
        if s2 != s2c:
            ck.count("float32 sqrt not correctly rounded (faithful)")
            K_ = 200
            exact_root = Fraction(_m.isqrt((s1.numerator << (2 * K_)) // s1.denominator), 1 << K_)
            if abs(s2 - exact_root) > 2 * u * exact_root:
                ck.finding("precision:float32-sqrt-not-faithful", "torch.sqrt(float32 %r) = %r, exact %r" % (float(s1), float(s2), float(exact_root)),
                           {"search": "float32-dictionary", "k": k, "seed": seed})
                continue
        q_ = rnd32_exact(d_ / s2)
        p_ = rnd32_exact(Wq * q_)
        yf = rnd32_exact(p_ + Bq)
        nb += 1
        if Fraction(float(y)) != yf:
            mism.append({"formula": "bn_forward_out", "weight": float(w32), "bias": float(bias), "mean": float(mean), "var": float(var), "x": float(x),
                         "model": float(yf), "impl": float(y)})
            continue
        # the proved bound, against the exact value computed with 200-bit square roots
        K = 200
        sq = Fraction(_m.isqrt(((Vq + Eq).numerator << (2 * K)) // (Vq + Eq).denominator), 1 << K)
        Mt = Wq * ((Xq - Mq) / sq)
        small = [abs(Xq - Mq), abs(Vq + Eq), abs(s2), abs(d_ / s2), abs(Wq * q_), abs(p_ + Bq)]
        if min(small) >= tiny and abs(yf - (Mt + Bq)) > 8 * u * (1 + u) * abs(Mt) + u * (abs(Mt) + abs(Bq)) + Fraction(1, 2 ** 150):
            ck.finding("precision:float32-error-bound-violated:bn_forward_out", "weight %r bias %r mean %r var %r x %r" % (float(w32), bias, mean, var, x),
                       {"search": "float32-dictionary", "k": k, "seed": seed})
    ck.correspondence("single-precision dictionary Fops32 (exact rationals + rnd32) vs the float32 ActNorm / BatchNorm modules and the conditional normal's sampler, bit for bit", nb, mism)


def dense_inverse(ck, tier, seed):
    """the inverse direction of the four spline functions in float32 on a dense grid of the output interval: root formulas
    that cancel lose digits only next to isolated points inside a bin, which a handful of knots never hits"""
    npts = 4001 if tier == "quick" else 40001
    # bin counts that nothing else in this process uses, each in a fixed order of precisions (7, 11: float64 first; 9, 13: float32
    # first), both directions, with and without tails
    for fam in sh.FAMILIES:
        for K, first64 in ((7, True), (11, True), (9, False), (13, False)):
            for tails in (None, 2.0):
                g = tgen(seed, "c19order", fam, K, tails)
                p64 = sh.gen_params(fam, K, tails is not None, "normal", g)
                p32 = {k: v.float() for k, v in p64.items()}
                pts = torch.linspace(0.03, 0.97, 7, dtype=torch.float64) if tails is None else torch.linspace(-2.5, 2.5, 9, dtype=torch.float64)
                for inverse in (True, False):
                    kw = dict(box=sh.BOXES[0]) if tails is None else dict(tail_bound=tails)
                    order = ("f64", "f32") if first64 else ("f32", "f64")
                    res = {}
                    for o_ in order:
                        res[o_] = sh.call(fam, inverse, pts if o_ == "f64" else pts.float(), p64 if o_ == "f64" else p32, **kw)
                    ck.case(("c19-order", fam, K, tails, inverse), nontrivial=True)
                    case = {"search": "precision-order", "family": fam, "K": K, "tails": tails, "inverse": inverse, "first": order[0], "seed": seed}
                    a, b = res["f32"], res["f64"]
                    if b[0] == "ok" and a[0] != "ok":
                        ck.finding("precision:spline-float32-raises:%s" % fam,
                                   "%s K=%d %s (%s evaluated first in this process): float32 raises %s (%s)" % (fam, K, "inverse" if inverse else "forward", order[0], a[1], str(a[2])[:80]), case)
                    elif a[0] == "ok" and (a[1][0].dtype != torch.float32 or a[1][1].dtype != torch.float32):
                        ck.finding("precision:spline-dtype-not-preserved:%s" % fam,
                                   "%s K=%d %s (%s evaluated first in this process): float32 inputs give %s / %s" % (fam, K, "inverse" if inverse else "forward", order[0], a[1][0].dtype, a[1][1].dtype), case)
                    elif b[0] == "ok" and (b[1][0].dtype != torch.float64 or b[1][1].dtype != torch.float64):
                        ck.finding("precision:spline-dtype-not-preserved:%s" % fam,
                                   "%s K=%d %s (%s evaluated first in this process): float64 inputs give %s / %s" % (fam, K, "inverse" if inverse else "forward", order[0], b[1][0].dtype, b[1][1].dtype), case)
    for fam in sh.FAMILIES:
        for K in (3, 6):
            for bi, box in enumerate(sh.BOXES[:3]):
                g = tgen(seed, "c19dense", fam, K, bi)
                p64 = sh.gen_params(fam, K, False, "normal", g)
                p32 = {k: v.float() for k, v in p64.items()}
                y64 = torch.linspace(box[2], box[3], npts, dtype=torch.float64)
                y32 = y64.float().clamp(box[2], box[3])
                # the two precisions in both orders within this process (float64 first for odd cases): whatever one call leaves
                # behind (a memo, a cached table) must not leak its dtype into the next
                if (K + bi) % 2:
                    b = sh.call(fam, True, y32.double(), p64, box=box)
                    a = sh.call(fam, True, y32, p32, box=box)
                else:
                    a = sh.call(fam, True, y32, p32, box=box)
                    b = sh.call(fam, True, y32.double(), p64, box=box)
                ck.case(("c19-dense-inverse", fam, K, bi), nontrivial=True)
                case = {"search": "dense-inverse-f32", "family": fam, "K": K, "box": box, "seed": seed}
                if a[0] == "ok" and (a[1][0].dtype != torch.float32 or a[1][1].dtype != torch.float32):
                    ck.finding("precision:spline-dtype-not-preserved:%s" % fam, "%s inverse on float32 inputs returns %s / %s" % (fam, a[1][0].dtype, a[1][1].dtype), case)
                    continue
                if b[0] == "ok" and (b[1][0].dtype != torch.float64 or b[1][1].dtype != torch.float64):
                    ck.finding("precision:spline-dtype-not-preserved:%s" % fam, "%s inverse on float64 inputs returns %s / %s" % (fam, b[1][0].dtype, b[1][1].dtype), case)
                    continue
                if a[0] != "ok" or b[0] != "ok":
                    if a[0] != b[0]:
                        ck.finding("precision:spline-float32-raises:%s" % fam, "%s inverse box %s: %s" % (fam, box, a[1:]), case)
                    continue
                x32, l32 = a[1][0].double(), a[1][1].double()
                x64, l64 = b[1]
                scale = max(1.0, abs(box[0]), abs(box[1]))
                slope = torch.exp(l64.clamp(max=12))          # d x / d y of the inverse
                tol = (2e-3 if fam == "cubic" else 4e-5) * scale * (1 + slope)
                bad = (x32 - x64).abs() > tol
                if not bool(torch.isfinite(x32).all()):
                    ck.finding("precision:spline-float32-non-finite:%s" % fam, "%s inverse box %s K=%d" % (fam, box, K), case)
                elif bool(bad.any()):
                    i = int(torch.argmax((x32 - x64).abs() / tol))
                    ck.finding("precision:spline-float32-inverse-disagrees:%s" % fam,
                               "%s inverse box %s K=%d at y=%r: float32 %r, float64 %r (|d log-abs-det| %.3g)" % (
                                   fam, box, K, float(y32[i]), float(x32[i]), float(x64[i]), float((l32[i] - l64[i]).abs())), case)


def batch_statistics(ck, tier, seed):
    """layers that compute statistics of the batch they are given (BatchNorm in training mode, ActNorm on its first call), on features
    that are not standardised (centre c, spread s): the float32 evaluation agrees with the float64 twin to single precision scaled by
    the conditioning |x| / s of x -> (x - mean) / std"""
    from nflows.transforms import normalization as nm
    from nflows.transforms.base import CompositeTransform
    from nflows.transforms import standard as st
    kinds = (("BatchNorm(3), training mode", lambda: nm.BatchNorm(3)),
             ("ActNorm(3), first call", lambda: nm.ActNorm(3)),
             ("Composite(affine, BatchNorm(3)), training mode", lambda: CompositeTransform([st.PointwiseAffineTransform(0.5, 1.5), nm.BatchNorm(3)])))
    for c_, sp_ in ((10.0, 0.05), (100.0, 0.5), (30.0, 0.1), (-50.0, 0.2), (3.0, 1.0)):
        for kname, mk in kinds:
            for rep in range(2 if tier == "quick" else 8):
                g = tgen(seed, "c19-bn", kname, c_, sp_, rep)
                torch.manual_seed(seed % 100000 + rep)
                t32 = mk().train()
                t64 = copy.deepcopy(t32).double()
                x32 = (c_ + sp_ * torch.randn(64, 3, generator=g, dtype=torch.float64)).float()
                ck.case(("c19-bn", kname, c_, sp_, rep), nontrivial=True)
                case = {"search": "batch-statistics", "layer": kname, "centre": c_, "spread": sp_, "seed": seed, "rep": rep}
                with torch.no_grad():
                    a, b = attempt(t32, x32), attempt(t64, x32.double())
                if a[0] != "ok" or b[0] != "ok":
                    if a[0] != "ok" and b[0] == "ok":
                        ck.finding("precision:float32-raises:%s" % kname, "%s %s" % (a[1], a[2]), case)
                    continue
                (y32, l32), (y64, l64) = a[1], b[1]
                if not (bool(torch.isfinite(y32).all()) and bool(torch.isfinite(l32).all())):
                    ck.finding("precision:float32-non-finite:%s" % kname, "features centred at %g with spread %g" % (c_, sp_), case)
                    continue
                kappa = float(x32.abs().max()) / sp_ + 1.0
                tol = 20 * 6e-8 * kappa
                err = float((y32.double() - y64).abs().max()) / (1 + float(y64.abs().max()))
                lerr = float((l32.double() - l64).abs().max()) / (1 + float(l64.abs().max()))
                if err > tol or lerr > 3 * tol:
                    ck.finding("precision:float32-disagrees-with-float64:%s" % kname,
                               "features centred at %g with spread %g: output error %.3g, log-det error %.3g (tolerance %.3g = 20 eps32 |x|/s)"
                               % (c_, sp_, err, lerr, tol), case)
                    break


def short_reflection_vectors(ck, tier, seed):
    """Householder factors whose reflection vectors are short (norms 0.1 .. 0.003 - small numbers, not denormal ones): a reflection
    does not depend on the length of its vector, so float32 agrees with the float64 twin to single precision, both directions"""
    from nflows.transforms import orthogonal as og, qr as qr_, svd as svd_
    kinds = (("HouseholderSequence(4, 3)", lambda: og.HouseholderSequence(4, 3)), ("QRLinear(4, 3 reflections)", lambda: qr_.QRLinear(4, 3)),
             ("SVDLinear(4, 2 reflections)", lambda: svd_.SVDLinear(4, 2)))
    for kname, mk in kinds:
        for norm_ in (0.1, 0.03, 0.01, 0.003):
            torch.manual_seed(seed % 100000 + 11)
            t32 = mk()
            g = tgen(seed, "c19-hh", kname, norm_)
            with torch.no_grad():
                for n_, p_ in t32.named_parameters():
                    if "q_vectors" in n_:
                        v = torch.randn(p_.shape, generator=g)
                        p_.copy_(v / v.norm(dim=-1, keepdim=True) * norm_)
            t32.eval()
            t64 = copy.deepcopy(t32).double()
            x32 = torch.randn(6, 4, generator=g)
            ck.case(("c19-hh", kname, norm_), nontrivial=True)
            case = {"search": "short-reflection-vectors", "layer": kname, "norm": norm_, "seed": seed}
            for direction in ("forward", "inverse"):
                with torch.no_grad():
                    a, b = attempt(getattr(t32, direction), x32), attempt(getattr(t64, direction), x32.double())
                if a[0] != "ok" or b[0] != "ok":
                    if a[0] != "ok" and b[0] == "ok":
                        ck.finding("precision:float32-raises:%s" % kname, "%s %s" % (a[1], a[2]), case)
                    break
                err = float((a[1][0].double() - b[1][0]).abs().max()) / (1 + float(b[1][0].abs().max()))
                lerr = float((a[1][1].double() - b[1][1]).abs().max())
                if not bool(torch.isfinite(a[1][0]).all()) or err > 2e-5 or lerr > 2e-5:
                    ck.finding("precision:float32-disagrees-with-float64:%s" % kname,
                               "reflection vectors of norm %g, %s: relative output error %.3g, log-det error %.3g (an orthogonal map: tolerance 2e-5)"
                               % (norm_, direction, err, lerr), case)
                    break


def run(tier, seed):
    ck = Check("C19", tier, seed, areas=[], gen_groups=["Tables", "Utils", "SplineRQ"])
    ck.rule = ("every catalogue transform: the float32 model against its float64 deep copy on the same moderate parameters and "
               "in-domain inputs, both directions: dtype of every returned tensor, finiteness, agreement to single precision "
               "scaled by the map's conditioning; the four spline functions in float32 on knots / end points; non-trivial = all; "
               "distinct by (entry, seed)")
    ck.assumptions = ["'moderate magnitude' = N(0, 0.4^2) perturbations of the default initialisation, inputs N(0, 1.2^2) or U(0.02, 0.98)"]
    ck.build()
    ck.sample({"generated_table": "Gen/Tables.v dtype_table"})
    search(ck, tier, seed)
    dense_inverse(ck, tier, seed)
    wide_tails(ck, tier, seed)
    batch_statistics(ck, tier, seed)
    short_reflection_vectors(ck, tier, seed)
    clipped_inputs(ck, tier, seed)
    float32_dictionary(ck, tier, seed)
    return ck.finish()


def replay(payload):
    print("replay:", payload.get("replay"))
    return 0
