"""C02: inverse undoes forward in both orders and returns the negated log-abs-det."""
import math

import torch

from common import Check
from implutil import attempt, tgen
import catalogue
import splines_h as sh
import splines_corr
import nonlin_corr


def cond_tol(e, lad):
    """accuracy scaled by the local conditioning (the larger of the two derivatives' magnitude per item)"""
    base = 2e-3 if e["umnn"] else (2e-4 if "Cubic" in e["name"] else 1e-8)
    return base


def deep_copy_twin(ck, e, seed):
    """a deep copy of a used transform (evaluation mode, caches switched on and filled) is an independent transform: after it
    received another checkpoint, the copy and the original, called alternately, each still invert themselves, and the original
    still returns what it returned before the copy existed"""
    import copy
    t = attempt(catalogue.build, e, seed)
    if t[0] != "ok":
        return
    t = t[1]
    t.eval()
    for m in t.modules():
        if hasattr(m, "use_cache"):
            m.use_cache(True)
    x, ctx = catalogue.sample_inputs(e, 5, seed + 20)
    case = {"search": "deep-copy-twin", "entry": e["name"], "seed": seed}
    with torch.no_grad():
        f0 = attempt(t.forward, x, ctx)
    if f0[0] != "ok":
        return
    c = attempt(copy.deepcopy, t)
    ck.case(("c02-deepcopy", e["name"]), nontrivial=True)
    if c[0] != "ok":
        ck.count("deepcopy-raises:" + c[1])
        return
    t2 = c[1]
    if attempt(t2.load_state_dict, catalogue.perturbed_state(t2, seed + 3))[0] != "ok":
        return
    with torch.no_grad():
        a = attempt(t.forward, x, ctx)
        b = attempt(t2.forward, x, ctx)
        if a[0] != "ok" or b[0] != "ok":
            return
        bi = attempt(t2.inverse, b[1][0], ctx)
        ai = attempt(t.inverse, a[1][0], ctx)
        a2 = attempt(t.forward, x, ctx)
        # the copy against a never-used instance holding the copy's checkpoint
        t3 = attempt(catalogue.build, e, seed)
        if t3[0] == "ok" and attempt(t3[1].load_state_dict, t2.state_dict())[0] == "ok":
            t3[1].eval()
            b3 = attempt(t3[1].forward, x, ctx)
            if b3[0] == "ok" and torch.isfinite(b3[1][0]).all() and torch.isfinite(b[1][0]).all() and \
                    float((b3[1][0] - b[1][0]).abs().max()) > (1e-2 if e["umnn"] else 1e-8) * (1 + float(b3[1][0].abs().max())):
                ck.finding("roundtrip:deep-copy-shares-state:%s" % e["name"],
                           "%s: a deep copy that received another checkpoint differs from a never-used instance holding that checkpoint by %.3g"
                           % (e["name"], float((b3[1][0] - b[1][0]).abs().max())), case)
                return
    if not (torch.equal(a[1][0], f0[1][0]) and torch.equal(a[1][1], f0[1][1])) or (a2[0] == "ok" and not torch.equal(a2[1][0], f0[1][0])):
        ck.finding("roundtrip:deep-copy-shares-state:%s" % e["name"],
                   "%s: after a deep copy received another checkpoint the ORIGINAL returns different values (max diff %.3g)"
                   % (e["name"], float((a[1][0] - f0[1][0]).abs().max())), case)
        return
    for who, fw, iv in (("copy", b, bi), ("original", a, ai)):
        if iv[0] != "ok":
            continue
        lad = fw[1][1]
        if not all(bool(torch.isfinite(v).all()) for v in (fw[1][0], lad, iv[1][0], iv[1][1])):
            continue
        tol = cond_tol(e, lad) * 10
        amp = 1.0 + float(torch.exp((-lad / max(1, x[0].numel())).clamp(max=20)).max())
        err = float((iv[1][0] - x).abs().max())
        if err > tol * amp * (1 + float(x.abs().max())) or float((lad + iv[1][1]).abs().max()) > (5e-2 if e["umnn"] else 1e-6) * (1 + float(lad.abs().max())):
            ck.finding("roundtrip:deep-copy-shares-state:%s" % e["name"],
                       "%s: the %s, called alternately with its twin, no longer inverts itself: max |inverse(forward(x)) - x| = %.3g, "
                       "log-dets %s / %s" % (e["name"], who, err, lad.tolist()[:2], iv[1][1].tolist()[:2]), case)
            return


def search(ck, tier, seed):
    ents = catalogue.entries(tier) + catalogue.boundary_entries()
    for e in catalogue.entries(tier):
        deep_copy_twin(ck, e, seed)
    nseeds = 1 if tier == "quick" else 3
    for e in ents:
        for s in range(nseeds):
            t = attempt(catalogue.build, e, seed + s)
            ck.case(("c02", e["name"], s), nontrivial=True)
            ck.count(e["name"].split("(")[0].split("[")[0])
            case = {"search": "roundtrip", "entry": e["name"], "seed": seed + s}
            if t[0] != "ok" and e.get("boundary"):
                continue        # a degenerate configuration the constructor rejects
            if t[0] != "ok":
                ck.finding("transform:constructor-fails:%s" % e["name"], "%s: %s %s" % (e["name"], t[1], t[2]), case)
                continue
            t = t[1]
            if s == 0:
                # on the first seed the transform under test is a second instance, built under another seed, that received the
                # first one's state dict: buffers drawn at construction (permutations, masks) were replaced after __init__,
                # so anything derived from them at construction time must have followed
                t2 = attempt(catalogue.build, e, seed + 7919)
                if t2[0] == "ok":
                    ld = attempt(t2[1].load_state_dict, t.state_dict())
                    if ld[0] == "ok":
                        t = t2[1]
                        case["reloaded"] = True
            x, ctx = catalogue.sample_inputs(e, 5, seed + 20 + s)
            with torch.no_grad():
                f = attempt(t.forward, x, ctx)
                if f[0] != "ok":
                    ck.finding("roundtrip:forward-fails:%s" % e["name"], "%s %s" % (f[1], f[2]), case)
                    continue
                y, lad = f[1]
                b = attempt(t.inverse, y, ctx)
                if b[0] != "ok":
                    ck.finding("roundtrip:inverse-fails-on-own-output:%s" % e["name"], "%s: %s %s" % (e["name"], b[1], b[2]), case)
                    continue
                xr, ladi = b[1]
            tol = cond_tol(e, lad)
            amp = 1.0 + float(torch.exp((-lad / max(1, x[0].numel())).clamp(max=20)).max())
            if not all(bool(torch.isfinite(v).all()) for v in (y, lad, xr, ladi)):
                ck.finding("roundtrip:non-finite:%s" % e["name"], "%s: non-finite value in forward/inverse results" % e["name"], case)
                continue
            err = float((xr - x).abs().max())
            if err > tol * amp * (1 + float(x.abs().max())):
                ck.finding("roundtrip:inverse-forward-not-identity:%s" % e["name"],
                           "%s: max |inverse(forward(x)) - x| = %.3g" % (e["name"], err), case)
            if float((lad + ladi).abs().max()) > (5e-2 if e["umnn"] else 1e-6) * (1 + float(lad.abs().max())):
                ck.finding("roundtrip:logabsdet-not-negated:%s" % e["name"],
                           "%s: forward %s inverse %s" % (e["name"], lad.tolist()[:3], ladi.tolist()[:3]), case)
            # other order: forward(inverse(y)) = y on in-range y (use y itself shuffled across the batch: still in range for
            # elementwise / context-free maps; otherwise the outputs just produced)
            with torch.no_grad():
                f2 = attempt(t.forward, xr, ctx)
            if f2[0] == "ok":
                err2 = float((f2[1][0] - y).abs().max())
                if err2 > tol * (1 + float(torch.exp((lad / max(1, x[0].numel())).clamp(max=20)).max())) * (1 + float(y.abs().max())):
                    ck.finding("roundtrip:forward-inverse-not-identity:%s" % e["name"],
                               "%s: max |forward(inverse(y)) - y| = %.3g" % (e["name"], err2), case)
    # splines: both orders on knots, end points, interiors; all parameter kinds incl. exactly zero
    for fam in sh.FAMILIES:
        for K in ([1, 3] if tier == "quick" else [1, 2, 3, 5, 8]):
            for bi, box in enumerate(sh.BOXES):
                for kind in sh.PARAM_KINDS:
                    if tier == "quick" and (K + bi + len(kind)) % 2:
                        continue
                    g = tgen(seed, "c02s", fam, K, bi, kind)
                    params = sh.gen_params(fam, K, False, kind, g)
                    x = sh.grid(fam, params, box, per_bin=2)
                    ck.case(("c02-spline", fam, K, bi, kind), nontrivial=True)
                    unstable = fam == "cubic" and kind in ("wide", "onehot")

                    def report(key, what, case_):
                        # see C09: the cubic inverse is numerically unreliable for strongly non-uniform parameters (known finding)
                        ck.finding("spline-roundtrip:cubic-inverse-unstable-for-non-uniform-parameters" if unstable else key, what, case_)
                    case = {"search": "spline", "family": fam, "K": K, "box": box, "kind": kind, "seed": seed}
                    r = sh.call(fam, False, x, params, box=box)
                    if r[0] != "ok":
                        continue
                    y, lad = r[1]
                    y = y.clamp(box[2], box[3])
                    b = sh.call(fam, True, y, params, box=box)
                    tag = "%s:%s" % (fam, kind)
                    if b[0] != "ok":
                        report("spline-roundtrip:inverse-fails:%s:%s" % (tag, b[1]), "box %s K=%d: %s" % (box, K, b[2]), case)
                        continue
                    xr, ladi = b[1]
                    if not bool(torch.isfinite(xr).all() and torch.isfinite(ladi).all()):
                        bad_y = y[~(torch.isfinite(xr) & torch.isfinite(ladi))]
                        sc_ = 1e-9 * max(1.0, abs(box[2]), abs(box[3]))
                        at_top = bool((((bad_y - box[3]).abs() <= sc_) | ((bad_y - box[2]).abs() <= sc_)).all())
                        # the cubic inverse's trigonometric root loses all precision at the two end points when the outer bins are
                        # strongly non-uniform (known finding): keyed by the site, whatever parameter family produced it
                        where = "cubic:end-point" if (fam == "cubic" and at_top) else tag
                        report("spline-roundtrip:non-finite:%s" % where, "box %s K=%d params=%s at y=%s" % (box, K, kind, bad_y[:3].tolist()), case)
                        continue
                    scale = max(1.0, abs(box[0]), abs(box[1]))
                    slope_inv = torch.exp((-lad).clamp(max=40))
                    tol = (1e-4 if fam == "cubic" else 1e-9) * scale * (1 + slope_inv)
                    bad = (xr - x).abs() > tol
                    if bool(bad.any()):
                        i = int(torch.nonzero(bad)[0])
                        report("spline-roundtrip:not-identity:%s" % tag,
                                   "box %s K=%d: x=%r -> y=%r -> %r" % (box, K, float(x[i]), float(y[i]), float(xr[i])), case)
                    ladtol = 1e-3 if fam == "cubic" else 1e-6
                    interior = (x > box[0]) & (x < box[1])
                    if fam == "linear":
                        ks = sh.knots_x(fam, params, box)
                        for k in ks:
                            interior &= (x - k).abs() > 1e-9 * scale
                    # the log-abs-det is compared at two points that differ by the round-trip error in x: allow for its own
                    # sensitivity |d logabsdet / dx| (up to 1e9 next to a knot of strongly non-uniform bins) times that error
                    xg = x.clone().requires_grad_(True)
                    rg = sh.call(fam, False, xg, params, box=box)
                    sens = torch.zeros_like(x)
                    if rg[0] == "ok" and rg[1][1].requires_grad:
                        sens = torch.autograd.grad(rg[1][1].sum(), xg, allow_unused=True)[0]
                        sens = torch.zeros_like(x) if sens is None else sens.abs().nan_to_num(0.0, 0.0, 0.0)
                    allowed = ladtol * (1 + lad.abs()) + 8 * sens * ((xr - x).abs() + 4e-16 * scale)
                    if bool(((lad + ladi).abs()[interior] > allowed[interior]).any()):
                        i = int(torch.nonzero(interior & ((lad + ladi).abs() > allowed))[0])
                        report("spline-roundtrip:logabsdet-not-negated:%s" % tag,
                                   "box %s K=%d x=%r: %r vs %r" % (box, K, float(x[i]), float(lad[i]), float(ladi[i])), case)


def run(tier, seed):
    ck = Check("C02", tier, seed, areas=["splines", "nonlin"],
               gen_groups=["Nonlin", "SplineRQ", "SplineLinear", "SplineQuadratic", "SplineCubic", "Norm", "Utils", "Context"])
    ck.rule = ("every invertible catalogue transform with random parameters: inverse(forward(x)) and forward(inverse(y)) in "
               "float64 with a tolerance scaled by the local derivative, log-abs-det negation, finiteness; the four spline "
               "functions on knots / end points / interiors for five boxes and five parameter kinds incl. exactly zero; "
               "non-trivial = all; distinct by (entry, seed)")
    ck.build()
    if ck.have_driver("nonlin"):
        nonlin_corr.correspondence(ck, ck.driver("nonlin"), tier, seed)
    if ck.have_driver("splines"):
        splines_corr.correspondence(ck, ck.driver("splines"), tier, seed)
    search(ck, tier, seed)
    return ck.finish()


def replay(payload):
    print("replay:", payload.get("replay"))
    return 0
