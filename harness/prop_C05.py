"""C05: base distributions are normalised, sample their own density, report true means."""
import itertools
import math

import numpy as np
import torch

from common import Check
from implutil import attempt, tgen, close


def gauss_legendre(f, a, b, n=200, pieces=40):
    """composite Gauss-Legendre quadrature of a vectorised function"""
    xs, ws = np.polynomial.legendre.leggauss(n // pieces if n // pieces >= 4 else 5)
    total = 0.0
    edges = np.linspace(a, b, pieces + 1)
    for lo, hi in zip(edges[:-1], edges[1:]):
        t = 0.5 * (hi - lo) * xs + 0.5 * (hi + lo)
        total += 0.5 * (hi - lo) * float(np.sum(ws * f(t)))
    return total


def search(ck, tier, seed):
    from nflows.distributions import normal, discrete, mixture, uniform
    from nflows.utils import torchutils
    g = tgen(seed, "c05")
    # ---- Bernoulli: exact summation over {0,1}^D
    for D in (1, 2, 3, 5, 8):
        for ev in ([D],) + (([2, D // 2],) if D % 2 == 0 and D > 2 else ()):
            d = discrete.ConditionalIndependentBernoulli(ev)
            logits = torch.randn(2, D, generator=g, dtype=torch.float64) * 2
            ck.case(("bern", tuple(ev)), nontrivial=D > 1)
            allx = torch.tensor(list(itertools.product([0.0, 1.0], repeat=D)), dtype=torch.float64)
            for row in range(2):
                ctx = logits[row:row + 1].expand(allx.shape[0], -1)
                lp = d.log_prob(allx.reshape([-1] + list(ev)), ctx)
                tot = float(torch.exp(lp).sum())
                case = {"search": "bernoulli", "event": list(ev), "logits": logits[row].tolist()}
                if abs(tot - 1) > 1e-10:
                    ck.finding("normalisation:ConditionalIndependentBernoulli", "event %s: total probability %r" % (ev, tot), case)
                mean = d.mean(logits[row:row + 1])
                exp_mean = (torch.exp(lp)[:, None] * allx).sum(0)
                if list(mean.shape) != [1] + list(ev) or not torch.allclose(mean.reshape(-1), exp_mean, atol=1e-10):
                    ck.finding("mean:ConditionalIndependentBernoulli", "event %s: mean() %s vs expectation %s" % (ev, mean.tolist(), exp_mean.tolist()), case)
    # ---- normals: quadrature per factor and in two dimensions, means, sample moments
    grid1 = np.linspace(-12, 12, 4801)

    def integrate_1d(logp):
        vals = np.exp(logp(torch.tensor(grid1, dtype=torch.float64)[:, None]).numpy())
        return float(np.trapezoid(vals, grid1))

    def integrate_2d(logp, lo=-10.0, hi=10.0, n=401):
        xs = np.linspace(lo, hi, n)
        X, Y = np.meshgrid(xs, xs, indexing="ij")
        pts = torch.tensor(np.stack([X.ravel(), Y.ravel()], 1), dtype=torch.float64)
        vals = np.exp(logp(pts).numpy()).reshape(n, n)
        return float(np.trapezoid(np.trapezoid(vals, xs, axis=1), xs))

    for name, mk, D in (("StandardNormal", lambda ev: normal.StandardNormal(ev), None),
                        ("DiagonalNormal", lambda ev: normal.DiagonalNormal(ev), None),
                        ("ConditionalDiagonalNormal", lambda ev: normal.ConditionalDiagonalNormal(ev), None)):
        for ev, layout in [(e_, l_) for e_ in ([1], [2], [1, 2], [2, 1, 1], [2, 3]) for l_ in ("flat", "structured")]:
            if layout == "structured" and (name != "ConditionalDiagonalNormal" or len(ev) < 2):
                continue
            d = mk(ev).double()
            numel = int(np.prod(ev))
            ck.case(("normal", name, tuple(ev), layout), nontrivial=True)
            case = {"search": "normal", "class": name, "event": ev, "context_layout": layout}
            ctx = None
            if name == "DiagonalNormal":
                with torch.no_grad():
                    d.mean_.copy_(torch.randn(1, numel, generator=g, dtype=torch.float64) * 0.7)
                    d.log_std_.copy_(torch.randn(1, numel, generator=g, dtype=torch.float64) * 0.4)
            if name == "ConditionalDiagonalNormal":
                m_ = torch.randn(1, numel, generator=g, dtype=torch.float64) * 0.7
                s_ = torch.randn(1, numel, generator=g, dtype=torch.float64) * 0.4
                if layout == "flat":
                    ctx = torch.cat([m_, s_], 1)
                else:
                    # the encoder output may keep the event's leading dimensions: [rows, *event[:-1], 2 * event[-1]]
                    ctx = torch.cat([m_.reshape([1] + ev), s_.reshape([1] + ev)], -1)

            def logp(pts):
                with torch.no_grad():
                    x = pts.reshape([-1] + ev)
                    c = None if ctx is None else ctx.expand(x.shape[0], *ctx.shape[1:])
                    return d.log_prob(x, c) if c is not None else d.log_prob(x)
            # integration box from the parameters just set: every coordinate's mean +- 9.5 standard deviations, step sigma_min / 8
            if name == "StandardNormal":
                mus, sds = torch.zeros(numel, dtype=torch.float64), torch.ones(numel, dtype=torch.float64)
            elif name == "DiagonalNormal":
                mus, sds = d.mean_.detach().reshape(-1).double(), torch.exp(d.log_std_.detach().reshape(-1).double())
            else:
                mus, sds = m_.reshape(-1), torch.exp(s_.reshape(-1))
            lo_, hi_ = float((mus - 9.5 * sds).min()), float((mus + 9.5 * sds).max())
            npts = int(min(1601, max(401, (hi_ - lo_) / (float(sds.min()) / 8.0)))) | 1
            r = attempt(logp, torch.zeros(3, numel, dtype=torch.float64))
            if r[0] != "ok" or list(r[1].shape) != [3]:
                ck.finding("log_prob-fails:%s" % name, "event shape %s: %s" % (ev, r[1:] if r[0] != "ok" else list(r[1].shape)), case)
                continue
            if numel == 1:
                g1 = np.linspace(lo_, hi_, 8 * npts + 1)
                tot = float(np.trapezoid(np.exp(logp(torch.tensor(g1, dtype=torch.float64)[:, None]).numpy()), g1))
            elif numel == 2:
                tot = integrate_2d(logp, lo_, hi_, npts)
            else:
                tot = None
            if tot is not None and abs(tot - 1) > 1e-5:
                ck.finding("normalisation:%s" % name, "event %s integrates to %r" % (ev, tot), case)
            mr = attempt(d.mean, ctx) if ctx is not None else attempt(d.mean)
            # a normal's expectation is its mode: the gradient of log_prob vanishes at mean()
            if mr[0] == "ok" and isinstance(mr[1], torch.Tensor) and mr[1].numel() == numel:
                xm = mr[1].detach().reshape([1] + ev).clone().requires_grad_(True)
                gl = attempt(lambda: torch.autograd.grad((d.log_prob(xm, ctx) if ctx is not None else d.log_prob(xm)).sum(), xm)[0])
                if gl[0] == "ok" and float(gl[1].abs().max()) > 1e-8:
                    ck.finding("mean:%s:not-the-mode" % name, "event %s (%s context): |grad log_prob(mean())| = %g" % (
                        ev, layout, float(gl[1].abs().max())), case)
            if mr[0] != "ok" or not isinstance(mr[1], torch.Tensor):
                ck.finding("mean:%s:not-a-tensor" % name, "mean() -> %s" % (mr[1:] if mr[0] != "ok" else type(mr[1]).__name__), case)
            else:
                want = ([1] if ctx is not None else []) + ev
                if list(mr[1].shape) != want:
                    ck.finding("mean:%s:shape" % name, "mean() shape %s, documented %s" % (list(mr[1].shape), want), case)
                # expectation by quadrature in 1-D
                if numel == 1:
                    ex = float(np.trapezoid(g1 * np.exp(logp(torch.tensor(g1, dtype=torch.float64)[:, None]).numpy()), g1))
                    if abs(ex - float(mr[1].reshape(-1)[0])) > 1e-5:
                        ck.finding("mean:%s:wrong" % name, "mean() %r vs expectation %r" % (float(mr[1].reshape(-1)[0]), ex), case)
            if name != "DiagonalNormal":
                torch.manual_seed(seed)
                s = attempt(d.sample, 20000, ctx) if ctx is not None else attempt(d.sample, 20000)
                if s[0] == "ok" and mr[0] == "ok" and isinstance(mr[1], torch.Tensor):
                    sm = s[1].reshape(20000, numel).double().mean(0) if ctx is None else s[1].reshape(20000, numel).double().mean(0)
                    if float((sm - mr[1].reshape(-1).double()).abs().max()) > 0.06:
                        ck.finding("sampling:%s:sample-mean-differs-from-mean" % name, "sample mean %s vs mean() %s" % (sm.tolist(), mr[1].reshape(-1).tolist()), case)
    # ---- the scale parameter over a wide range (log_std from -8 to 4: standard deviations 3e-4 .. 55), one dimension
    for name in ("DiagonalNormal", "ConditionalDiagonalNormal"):
        for ls in (-8.0, -6.0, -3.0, 2.5, 3.0, 4.0):
            d = (normal.DiagonalNormal([1]) if name == "DiagonalNormal" else normal.ConditionalDiagonalNormal([1])).double()
            mu = 0.3
            ctx = None
            if name == "DiagonalNormal":
                with torch.no_grad():
                    d.mean_.fill_(mu)
                    d.log_std_.fill_(ls)
            else:
                ctx = torch.tensor([[mu, ls]], dtype=torch.float64)
            sd_ = math.exp(ls)
            g1 = np.linspace(mu - 9.5 * sd_, mu + 9.5 * sd_, 20001)
            xs_ = torch.tensor(g1, dtype=torch.float64)[:, None]
            ck.case(("normal-scale", name, ls), nontrivial=True)
            with torch.no_grad():
                lp = attempt(lambda: d.log_prob(xs_, ctx.expand(xs_.shape[0], -1)) if ctx is not None else d.log_prob(xs_))
            if lp[0] != "ok":
                ck.finding("log_prob-fails:%s" % name, "log_std %g: %s %s" % (ls, lp[1], lp[2]), {"search": "normal-scale", "class": name, "log_std": ls})
                continue
            tot = float(np.trapezoid(np.exp(lp[1].numpy()), g1))
            if abs(tot - 1) > 1e-5:
                ck.finding("normalisation:%s" % name, "log_std = %g (std %.3g): integrates to %r" % (ls, sd_, tot),
                           {"search": "normal-scale", "class": name, "log_std": ls})
    # ---- MADE mixture of Gaussians: every one-dimensional conditional integrates to one; 2-D joint
    for F_ in (1, 2):
        torch.manual_seed(seed + F_)
        d = mixture.MADEMoG(F_, 8, 2, num_blocks=1, num_mixture_components=3, custom_initialization=True).double().eval()
        ctx = torch.randn(1, 2, generator=g, dtype=torch.float64)
        ck.case(("mog", F_), nontrivial=True)

        def logp(pts):
            with torch.no_grad():
                return d.log_prob(pts, ctx.expand(pts.shape[0], -1))
        tot = integrate_1d(logp) if F_ == 1 else integrate_2d(logp, -14, 14, 561)
        if abs(tot - 1) > 2e-5:
            ck.finding("normalisation:MADEMoG", "features %d integrates to %r" % (F_, tot), {"search": "mog", "features": F_})
    # ---- MADE mixture, three features, the architectures MADE offers (random masks need feed-forward blocks): 3-D quadrature
    for cfgi, (resid, rnd, blocks) in enumerate(((True, False, 2), (False, False, 2), (False, True, 2), (False, True, 3))):
        for draw in range(2 if rnd else 1):
            torch.manual_seed(seed + 31 * cfgi + draw)
            made = attempt(lambda: mixture.MADEMoG(3, 12, 0, num_blocks=blocks, num_mixture_components=2, use_residual_blocks=resid,
                                                   random_mask=rnd, custom_initialization=True).double().eval())
            case = {"search": "mog-3d", "residual": resid, "random_mask": rnd, "blocks": blocks, "draw": draw, "seed": seed}
            ck.case(("mog3", resid, rnd, blocks, draw), nontrivial=True)
            if made[0] != "ok":
                ck.finding("construct-fails:MADEMoG", "%s %s" % (made[1], made[2]), case)
                continue
            d = made[1]
            gg = torch.Generator(); gg.manual_seed(seed + cfgi + 7 * draw)
            with torch.no_grad():
                for prm in d.parameters():
                    prm.add_(torch.randn(prm.shape, generator=gg, dtype=torch.float64) * 0.25)
            n3, lo3, hi3 = 97, -12.0, 12.0
            xs = np.linspace(lo3, hi3, n3)
            X, Y, Z = np.meshgrid(xs, xs, xs, indexing="ij")
            pts = torch.tensor(np.stack([X.ravel(), Y.ravel(), Z.ravel()], 1), dtype=torch.float64)
            with torch.no_grad():
                lp = attempt(lambda: torch.cat([d.log_prob(ch) for ch in pts.split(200000)]))
            if lp[0] != "ok":
                ck.finding("log_prob-fails:MADEMoG", "%s %s" % (lp[1], lp[2]), case)
                continue
            vals = np.exp(lp[1].numpy()).reshape(n3, n3, n3)
            tot = float(np.trapezoid(np.trapezoid(np.trapezoid(vals, xs, axis=2), xs, axis=1), xs))
            if abs(tot - 1) > 3e-4:
                ck.finding("normalisation:MADEMoG", "3 features (%s blocks x%d, %s masks): integrates to %r"
                           % ("residual" if resid else "feed-forward", blocks, "random" if rnd else "sequential", tot), case)
    # ---- MADE mixture: samples follow the density (1-D, several component counts; fixed seed, KS distance to the integrated density)
    for K in (1, 2, 3):
        torch.manual_seed(seed + 100 + K)
        # float32: the mixture's sampler allocates float32 buffers (a float64 copy cannot sample; outside this property)
        d = mixture.MADEMoG(1, 8, 2, num_blocks=1, num_mixture_components=K, custom_initialization=True).eval()
        gg = torch.Generator(); gg.manual_seed(seed + K)
        with torch.no_grad():
            for prm in d.parameters():
                prm.add_(torch.randn(prm.shape, generator=gg) * 0.6)
        ctx = torch.randn(1, 2, generator=g, dtype=torch.float64).float()
        ck.case(("mog-sampling", K), nontrivial=K > 1)
        grid = torch.linspace(-40, 40, 160001, dtype=torch.float64)
        with torch.no_grad():
            dens = torch.exp(d.log_prob(grid[:, None].float(), ctx.expand(grid.shape[0], -1)).double())
            torch.manual_seed(seed + K)
            sm = attempt(d.sample, 20000, ctx)
        if sm[0] != "ok":
            ck.finding("sampling:MADEMoG:fails", "%s %s" % (sm[1], sm[2]), {"search": "mog-sampling", "K": K})
            continue
        smp = sm[1].reshape(-1).double().sort().values
        step_ = float(grid[1] - grid[0])
        cdf = torch.cat([torch.zeros(1, dtype=torch.float64), torch.cumsum((dens[1:] + dens[:-1]) * 0.5 * step_, 0)])      # trapezoids
        emp = torch.arange(1, smp.numel() + 1, dtype=torch.float64) / smp.numel()
        idx = torch.searchsorted(grid, smp).clamp(min=1, max=grid.numel() - 1)
        frac = ((smp - grid[idx - 1]) / step_).clamp(0, 1)
        cdf_at = cdf[idx - 1] + frac * (cdf[idx] - cdf[idx - 1])                                                     # interpolated at the sample
        ks = float(torch.maximum((cdf_at - emp).abs(), (cdf_at - (emp - 1.0 / smp.numel())).abs()).max())
        if ks > 0.02:
            ck.finding("sampling:MADEMoG:samples-do-not-follow-density",
                       "%d mixture components: KS distance %.3f between 20000 samples and the integrated density" % (K, ks),
                       {"search": "mog-sampling", "K": K, "seed": seed})
    # ---- samples follow the density of THEIR context row also when drawn in batches (batch sizes that do and do not divide the
    # count): contexts whose densities sit far apart, per-row sample statistics against that row's own mean
    for dname, mkd, ctxs, want in (
            ("ConditionalDiagonalNormal", lambda: normal.ConditionalDiagonalNormal([2]),
             torch.tensor([[-50.0, 20.0, -2.0, -2.0], [0.0, 0.0, -2.0, -2.0], [50.0, -20.0, -2.0, -2.0]]),
             torch.tensor([[-50.0, 20.0], [0.0, 0.0], [50.0, -20.0]])),
            ("ConditionalIndependentBernoulli", lambda: discrete.ConditionalIndependentBernoulli([2]),
             torch.tensor([[30.0, -30.0], [-30.0, -30.0], [30.0, 30.0]]), torch.tensor([[1.0, 0.0], [0.0, 0.0], [1.0, 1.0]]))):
        d = mkd().eval()
        for n_, bs in ((12, None), (12, 6), (12, 5), (12, 1), (7, 3), (7, 10), (1, None), (1, 1)):
            torch.manual_seed(seed + n_)
            ctx_before = ctxs.clone()
            with torch.no_grad():
                r = attempt(d.sample, n_, ctxs, bs) if bs is not None else attempt(d.sample, n_, ctxs)
                # one draw per row is where repeat_rows hands back a view of the parameters: sampling must leave the context,
                # and with it mean() and log_prob, as they were
                if n_ == 1:
                    sl = attempt(d.sample_and_log_prob, 1, ctxs)
                    mn = attempt(d.mean, ctxs)
                    if not torch.equal(ctxs, ctx_before):
                        ck.finding("sampling:context-changed-by-sampling:%s" % dname,
                                   "sample(1, context) / sample_and_log_prob(1, context) changed the context tensor", {"search": "batched-sampling", "class": dname, "n": 1})
                        ctxs = ctx_before.clone()
                    elif mn[0] == "ok" and float((mn[1].float() - want).abs().max()) > 1e-4:
                        ck.finding("mean:wrong-after-sampling:%s" % dname, "mean(context) after sampling once per row: %s" % mn[1].tolist(),
                                   {"search": "batched-sampling", "class": dname, "n": 1})
                    elif sl[0] == "ok":
                        lp2 = d.log_prob(sl[1][0].reshape(3, 2), ctxs)
                        if not torch.allclose(sl[1][1].reshape(3), lp2, atol=1e-4):
                            ck.finding("sampling:returned-log_prob-is-not-log_prob-of-sample:%s" % dname,
                                       "sample_and_log_prob(1, context): returned %s, log_prob of the returned samples %s" % (sl[1][1].reshape(3).tolist(), lp2.tolist()),
                                       {"search": "batched-sampling", "class": dname, "n": 1})
            ck.case(("batched-sampling", dname, n_, bs), nontrivial=True)
            case = {"search": "batched-sampling", "class": dname, "n": n_, "batch_size": bs, "seed": seed}
            if r[0] != "ok" or list(r[1].shape) != [3, n_, 2]:
                ck.finding("sampling:batched:%s" % dname, "sample(%d, 3 context rows, batch_size=%s) -> %s" % (n_, bs, list(r[1].shape) if r[0] == "ok" else r[1:]), case)
                continue
            m_ = r[1].float().mean(1)
            if n_ == 1:
                continue           # a single draw says nothing about the mean
            if float((m_ - want).abs().max()) > 1.0:
                ck.finding("sampling:samples-do-not-follow-their-context-row:%s" % dname,
                           "sample(%d, 3 context rows, batch_size=%s): per-row sample means %s, the rows' own means are %s"
                           % (n_, bs, [[round(v, 2) for v in row] for row in m_.tolist()], want.tolist()), case)
    # ---- uniform-box style priors
    bu = uniform.BoxUniform(low=torch.tensor([-1.0, 0.0]), high=torch.tensor([2.0, 4.0]))
    ck.case(("boxuniform",), nontrivial=True)
    vol = 3.0 * 4.0
    inside = float(torch.exp(bu.log_prob(torch.tensor([0.5, 1.0]))))
    if abs(inside * vol - 1) > 1e-6:
        ck.finding("normalisation:BoxUniform", "density %r on a box of volume %r" % (inside, vol), {"search": "box"})
    mg = uniform.MG1Uniform(low=torch.zeros(3), high=torch.tensor([10.0, 10.0, 1.0 / 3.0]))
    ck.case(("mg1",), nontrivial=True)
    A = torch.tensor([[1.0, -1, 0], [0, 1, 0], [0, 0, 1]])
    if abs(abs(float(torch.det(A))) - 1) > 1e-9:
        ck.finding("normalisation:MG1Uniform", "|det A| = %r" % float(torch.det(A)), {"search": "mg1"})
    # LotkaVolterraOscillating: a truncated Gaussian in log-space on the box [-5, 2]^4; mass by per-coordinate quadrature
    lv = uniform.LotkaVolterraOscillating()
    ck.case(("lotka",), nontrivial=True)
    mean = torch.log(torch.tensor([0.01, 0.5, 1, 0.01]))
    xs = np.linspace(-5, 2, 20001)
    mass = 1.0
    for k in range(4):
        pts = mean.repeat(len(xs), 1).double()
        pts[:, k] = torch.tensor(xs)
        # density along coordinate k with the others at the mode, divided by the value at the mode -> 1-D shape
        lp = lv.log_prob(pts.float()).double().numpy()
        lp0 = float(lv.log_prob(mean[None].float()))
        mass *= float(np.trapezoid(np.exp(lp - lp0), xs))
    total = mass * math.exp(lp0)
    if abs(total - 1) > 1e-3:
        ck.finding("normalisation:LotkaVolterraOscillating", "integrates to %.4g over its box" % total, {"search": "lotka"})
    # ---- Gaussian kernel density evaluator
    for D in (1, 2):
        samples = torch.randn(6, D, generator=g, dtype=torch.float64)
        ck.case(("kde", D), nontrivial=True)

        def logp(pts):
            return torchutils.gaussian_kde_log_eval(samples.float(), pts.float()[:, None, :]).double()
        tot = integrate_1d(logp) if D == 1 else integrate_2d(logp, -9, 9, 361)
        if abs(tot - 1) > 1e-4:
            ck.finding("normalisation:gaussian_kde_log_eval", "D=%d integrates to %r" % (D, tot), {"search": "kde", "D": D})


def kde_many_samples(ck, seed):
    """the kernel density evaluator with more samples than a small-case shortcut would see, near the origin and far from it
    (single precision, as documented): still a normalised density, and equal to the float64 evaluation of the same formula"""
    import numpy as np
    from nflows.utils import torchutils
    for N, centre in ((6, 0.0), (40, 0.0), (300, 0.0), (40, 3000.0), (300, 3000.0), (500, -8000.0)):
        g = tgen(seed, "kde-many", N, centre)
        samples = (centre + torch.randn(N, 1, generator=g, dtype=torch.float64)).float()
        xs = centre + np.linspace(-9.0, 9.0, 3601)
        q = torch.tensor(xs, dtype=torch.float64).float()[:, None, None]
        ck.case(("kde-many", N, centre), nontrivial=True)
        case = {"search": "kde-many-samples", "N": N, "centre": centre, "seed": seed}
        r = attempt(torchutils.gaussian_kde_log_eval, samples, q)
        if r[0] != "ok":
            ck.finding("normalisation:gaussian_kde_log_eval:raises", "%d samples around %g: %s %s" % (N, centre, r[1], r[2]), case)
            continue
        lp = r[1].double().reshape(-1).numpy()
        xs32 = q.reshape(-1).double().numpy()
        tot = float(np.trapezoid(np.exp(lp), xs32))
        std = N ** (-1 / 5)
        ref = torch.logsumexp(-0.5 * ((q.double().reshape(-1, 1) - samples.double().reshape(1, -1)) / std) ** 2, dim=-1) \
            - math.log(N) - 0.5 * math.log(2 * math.pi) - math.log(std)
        err = float((torch.tensor(lp) - ref)[ref > -20].abs().max())
        if abs(tot - 1) > 2e-3 or err > 5e-2:
            ck.finding("normalisation:gaussian_kde_log_eval",
                       "%d float32 samples around %g: integrates to %.4f, log-density differs from the float64 formula by %.3g" % (N, centre, tot, err), case)


def mixture_sampler_follows_density(ck, seed):
    """the MADE mixture with a floor on its standard deviations that matters (epsilon = 0.5 and 2, as the constructor allows): what
    sample() draws has the mean and standard deviation of the density log_prob describes (one feature: quadrature)"""
    import numpy as np
    from nflows.nn.nde.made import MixtureOfGaussiansMADE
    for eps_ in (0.5, 2.0, 1e-2):
        for rep in range(2):
            torch.manual_seed(seed % 100000 + 17 + rep)
            r = attempt(lambda: MixtureOfGaussiansMADE(features=1, hidden_features=8, context_features=None, num_blocks=1, num_mixture_components=3,
                                                       epsilon=eps_, custom_initialization=True))
            if r[0] != "ok":
                continue
            m = r[1].eval()
            with torch.no_grad():
                for prm in m.parameters():
                    prm.add_(torch.randn(prm.shape) * 0.7)
                xs = torch.linspace(-40.0, 40.0, 16001)[:, None]
                lp = attempt(m.log_prob, xs)
                torch.manual_seed(seed % 100000 + 23 + rep)
                smp = attempt(m.sample, 60000)
            ck.case(("mog-sampler-density", eps_, rep), nontrivial=True)
            if lp[0] != "ok" or smp[0] != "ok":
                continue
            p_ = np.exp(lp[1].double().numpy().reshape(-1))
            xg = xs.double().numpy().reshape(-1)
            mass = float(np.trapezoid(p_, xg))
            mean_d = float(np.trapezoid(p_ * xg, xg)) / mass
            sd_d = math.sqrt(max(float(np.trapezoid(p_ * (xg - mean_d) ** 2, xg)) / mass, 0.0))
            sv = smp[1].double().reshape(-1)
            mean_s, sd_s = float(sv.mean()), float(sv.std())
            # six standard errors of the sample mean and of the sample variance, the latter from the density's fourth central moment
            # (a rare far component makes the variance estimate noisy: the tolerance follows the density, not a fixed percentage)
            mu4 = float(np.trapezoid(p_ * (xg - mean_d) ** 4, xg)) / mass
            se_var = math.sqrt(max(mu4 - sd_d ** 4, 0.0) / sv.numel())
            se_mean = sd_d / math.sqrt(sv.numel())
            if abs(mass - 1) > 1e-3 or abs(sd_s ** 2 - sd_d ** 2) > 6 * se_var + 1e-3 * sd_d ** 2 or abs(mean_s - mean_d) > 6 * se_mean + 1e-3 * sd_d:
                ck.finding("sampling:MixtureOfGaussiansMADE:samples-do-not-follow-log_prob",
                           "epsilon %g: 60000 draws have mean %.4f / std %.4f, the density exp(log_prob) has mean %.4f / std %.4f (mass %.5f)"
                           % (eps_, mean_s, sd_s, mean_d, sd_d, mass), {"search": "mog-sampler-density", "epsilon": eps_, "rep": rep, "seed": seed})
                break


def run(tier, seed):
    ck = Check("C05", tier, seed, areas=[], gen_groups=["Dist", "Nonlin", "DistBase"])
    ck.rule = ("Bernoulli: exact summation over {0,1}^D (D up to 8, 1-D and 2-D event shapes); standard / diagonal / conditional "
               "diagonal normal: quadrature in one and two dimensions for four event shapes, mean() against the quadrature "
               "expectation and the documented shape, sample means with a fixed seed; MADE mixture: quadrature of the 1-D and 2-D "
               "densities; BoxUniform, MG1Uniform, LotkaVolterraOscillating, Gaussian KDE; non-trivial = all; distinct by (class, event shape)")
    ck.assumptions = ["quadrature grids [-12, 12] (1-D) / [-10, 10]^2 (2-D) capture the mass to 1e-6 for the parameter ranges used",
                      "sample-moment comparison is a search aid (fixed seed), not part of the claim"]
    ck.build()
    ck.sample({"generated": "Gen/Dist.v: sn_neg_energy_term, sn_log_z, cdn_norm_input, bern_log_prob_term, flow_log_prob"})
    search(ck, tier, seed)
    kde_many_samples(ck, seed)
    mixture_sampler_follows_density(ck, seed)
    return ck.finish()


def replay(payload):
    print("replay:", payload.get("replay"))
    return 0
