"""Correspondence of the extracted spline models with the implementation, all four families,
bounded and with linear tails, both directions."""
import math

import torch

from common import F, f, z, Z
from implutil import tgen, close
import splines_h as sh

FAMCODE = {"linear": 0, "quadratic": 1, "cubic": 2, "rq": 3}
CODES = {0: "ok", 1: "InputOutsideDomain", 3: "ValueError", 6: "IndexError"}


def model_call(drv, fam, inverse, x, params, box=None, tail_bound=None, identity_init=False):
    names = [n for n, _ in sh.param_shapes(fam, 1, tail_bound is not None)]
    ps = [params[n].tolist() for n in names]
    while len(ps) < 3:
        ps.append([])
    if fam == "cubic":
        ps = [ps[0], ps[1], [ps[2][0], ps[3][0]]]
    geo = [tail_bound] if tail_bound is not None else list(box)
    codes, outs, lads = drv.call("spline", z(FAMCODE[fam]), z(int(inverse)), z(int(tail_bound is not None)), F(geo),
                                 F(ps[0]), F(ps[1]), F(ps[2]), F(x.tolist()), z(int(identity_init)))
    return codes, outs, lads


def compare(fam, inverse, x, impl, model, knots=None):
    """-> None or description of the first disagreement"""
    codes, outs, lads = model
    if impl[0] != "ok":
        # the implementation rejects the whole batch when any element is outside
        kinds = {CODES.get(c, str(c)) for c in codes if c != 0}
        if impl[1] not in kinds:
            return "implementation raised %s (%s), model codes %s" % (impl[1], impl[2], sorted(set(codes)))
        return None
    if any(c != 0 for c in codes):
        i = [c != 0 for c in codes].index(True)
        return "model rejects x=%r with %s, implementation accepts" % (float(x[i]), CODES.get(codes[i], codes[i]))
    y, lad = impl[1]
    for i in range(len(codes)):
        yi, li = float(y[i]), float(lad[i])
        if math.isnan(yi) or math.isnan(outs[i]):
            if math.isnan(yi) != math.isnan(outs[i]):
                return "x=%r: outputs model %r impl %r" % (float(x[i]), outs[i], yi)
            continue
        amp = 1.0 + math.exp(min(abs(li), 30.0)) if inverse else 1.0 + math.exp(min(max(li, 0.0), 30.0))
        tol = 1e-9 * amp * (10.0 if fam == "cubic" else 1.0)
        if not close(outs[i], yi, tol):
            return "x=%r: outputs model %r impl %r" % (float(x[i]), outs[i], yi)
        near_knot = knots is not None and min(abs(float(x[i]) - k) for k in knots) < 1e-9
        if fam == "linear" and near_knot:
            continue
        if not close(lads[i], li, 1e-7 if (fam == "cubic" or near_knot) else 1e-8):
            return "x=%r: logabsdet model %r impl %r" % (float(x[i]), lads[i], li)
    return None


def correspondence(ck, drv, tier, seed):
    Ks = [1, 2, 4] if tier == "quick" else [1, 2, 3, 5, 8]
    mm, n = [], 0
    for fam in sh.FAMILIES:
        for K in Ks:
            for kind in sh.PARAM_KINDS:
                for bi, box in enumerate(sh.BOXES):
                    if tier == "quick" and (K + bi + len(kind)) % 3:
                        continue
                    g = tgen(seed, "corr", fam, K, kind, bi)
                    params = sh.gen_params(fam, K, False, kind, g)
                    for inverse in (False, True):
                        lo, hi = (box[2], box[3]) if inverse else (box[0], box[1])
                        if inverse:
                            x = torch.rand(7, generator=g, dtype=torch.float64) * (hi - lo) + lo
                            x = torch.cat([x, torch.tensor([lo, hi], dtype=torch.float64)])
                            knots = None
                        else:
                            x = sh.grid(fam, params, box, per_bin=2)
                            knots = sh.knots_x(fam, params, box)
                        impl = sh.call(fam, inverse, x, params, box=box)
                        model = model_call(drv, fam, inverse, x, params, box=box)
                        n += 1
                        ck.case(("corr", fam, K, kind, bi, inverse), nontrivial=K >= 2)
                        bad = compare(fam, inverse, x, impl, model, knots)
                        if bad and not (fam == "cubic" and inverse and kind in ("onehot", "wide")):
                            mm.append({"family": fam, "K": K, "params": kind, "box": box, "inverse": inverse, "what": bad})
                    # out-of-domain elements: same exception class
                    for inverse in (False, True):
                        lo, hi = (box[2], box[3]) if inverse else (box[0], box[1])
                        for bad_x in (lo - 1e-9, hi + 1e-9, math.nextafter(lo, -math.inf), math.nextafter(hi, math.inf)):
                            x = torch.tensor([(lo + hi) / 2, bad_x], dtype=torch.float64)
                            impl = sh.call(fam, inverse, x, params, box=box)
                            model = model_call(drv, fam, inverse, x, params, box=box)
                            n += 1
                            bad = compare(fam, inverse, x, impl, model)
                            if bad:
                                mm.append({"family": fam, "K": K, "box": box, "inverse": inverse, "x": bad_x, "what": bad})
                # linear tails
                for B in ((1.0, 3.0) if tier == "quick" else (0.5, 1.0, 3.0, 8.0)):
                    if fam == "quadratic" and K < 2:
                        continue
                    g = tgen(seed, "corr-tails", fam, K, kind, B)
                    params = sh.gen_params(fam, K, True, kind, g)
                    for inverse in (False, True):
                        x = torch.cat([torch.rand(5, generator=g, dtype=torch.float64) * 2 * B - B,
                                       torch.tensor([-B, B, -B * 1.5, B * 2, math.nextafter(B, math.inf)], dtype=torch.float64)])
                        impl = sh.call(fam, inverse, x, params, tail_bound=B)
                        model = model_call(drv, fam, inverse, x, params, tail_bound=B)
                        n += 1
                        ck.case(("corr-tails", fam, K, kind, B, inverse), nontrivial=True)
                        bad = compare(fam, inverse, x, impl, model)
                        if bad and not (fam == "cubic" and inverse and kind in ("onehot", "wide")):
                            mm.append({"family": fam, "K": K, "params": kind, "tail_bound": B, "inverse": inverse, "what": bad})
    ck.sample({"family": "rq", "K": 2, "box": sh.BOXES[3],
               "model_knots(cumwidths,cumheights,derivatives)": drv.call("rq_knots", F(list(sh.BOXES[3])), F([0.3, -0.2]),
                                                                        F([1.0, 0.0]), F([0.1, 0.2, 0.3]))})
    ck.correspondence("spline models vs implementation (outputs, logabsdet, exception class)", n, mm)
