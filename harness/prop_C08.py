"""C08: Composite, inverse and multiscale wrappers are exact function composition."""
import itertools
import math

import torch

from common import Check, Z, F, z, ModelErr
from implutil import attempt, rng, flat


LD_EPS = [0.0]      # added to every leaf log-det; 1e-9 in the float64 pass (a value float32 cannot hold next to 2**k)


def leaves():
    from nflows.transforms.base import Transform

    class Tag(Transform):
        """x -> 2x + k with log-det 2**k (exact in floating point; log-dets identify the subset of parts applied)"""

        def __init__(self, k):
            super().__init__()
            self.k = k

        def forward(self, x, context=None):
            if context is not None:         # conditional leaf: shift and log-det move with the row's context (integers: exact)
                return x * 2 + self.k + 8 * context[:, :1], x.new_full((x.shape[0],), 2.0 ** self.k + LD_EPS[0]) + 4096 * context[:, 0]
            return x * 2 + self.k, x.new_full((x.shape[0],), 2.0 ** self.k + LD_EPS[0])

        def inverse(self, y, context=None):
            if context is not None:
                return (y - self.k - 8 * context[:, :1]) / 2, y.new_full((y.shape[0],), -(2.0 ** self.k + LD_EPS[0])) - 4096 * context[:, 0]
            return (y - self.k) / 2, y.new_full((y.shape[0],), -(2.0 ** self.k + LD_EPS[0]))

    class Rev(Transform):
        def forward(self, x, context=None):
            return x.reshape(x.shape[0], -1).flip(1).reshape(x.shape), x.new_zeros(x.shape[0])

        def inverse(self, y, context=None):
            return self.forward(y)
    return Tag, Rev


ITER_KIND = ["list"]      # how the parts are handed to CompositeTransform: list, tuple, generator, iter(list), map object, reversed(list)


def as_iterable(parts):
    k = ITER_KIND[0]
    if k == "tuple":
        return tuple(parts)
    if k == "generator":
        return (p_ for p_ in parts)
    if k == "iter":
        return iter(parts)
    if k == "map":
        return map(lambda p_: p_, parts)
    if k == "reversed":
        return reversed(parts[::-1])
    return parts


def build(prog, Tag, Rev, shared=None):
    """prog: nested tuples ('leaf',k) | ('shared',k) | ('rev',) | ('comp',[..]) | ('inv',p) -> (transform, encoding);
    ('shared', k) denotes ONE transform object per program, however often it occurs (tied layers)"""
    from nflows.transforms.base import CompositeTransform, InverseTransform
    shared = {} if shared is None else shared
    kind = prog[0]
    if kind == "leaf":
        return Tag(prog[1]), [0, prog[1]]
    if kind == "shared":
        if prog[1] not in shared:
            shared[prog[1]] = Tag(prog[1])
        return shared[prog[1]], [0, prog[1]]
    if kind == "rev":
        return Rev(), [3]
    if kind == "comp":
        parts = [build(p, Tag, Rev, shared) for p in prog[1]]
        enc = [1, len(parts)]
        for _, e in parts:
            enc += e
        return CompositeTransform(as_iterable([t for t, _ in parts])), enc
    if kind == "inv":
        t, e = build(prog[1], Tag, Rev, shared)
        return InverseTransform(t), [2] + e
    raise ValueError(prog)


def programs(depth, r, n):
    """all nestings up to `depth` over 3 leaves (bounded per level), plus random deeper ones"""
    base = [("leaf", 1), ("leaf", 2), ("rev",)]
    level = list(base)
    allp = list(base)
    # always present (never sampled away): stacks of inverse wrappers, alone and as stages / around composites
    must = []
    for lf in (("leaf", 1), ("leaf", 2)):
        chain = lf
        for m in range(4):
            chain = ("inv", chain)
            must.append(chain)
            must.append(("comp", [chain, ("leaf", 3)]))
            must.append(("comp", [("leaf", 3), chain, ("rev",)]))
            must.append(("inv", ("comp", [chain, ("leaf", 3)])))
    # the same object at several positions (tied layers, a shared permutation)
    must.append(("comp", [("shared", 1), ("leaf", 2), ("shared", 1)]))
    must.append(("comp", [("shared", 2), ("shared", 2)]))
    must.append(("comp", [("shared", 1), ("rev",), ("shared", 1), ("leaf", 3)]))
    must.append(("inv", ("comp", [("shared", 1), ("leaf", 2), ("shared", 1)])))
    must.append(("comp", [("comp", [("shared", 1), ("leaf", 2)]), ("shared", 1)]))
    must.append(("inv", ("inv", ("comp", [("leaf", 1), ("leaf", 2)]))))
    must.append(("comp", [("comp", [("leaf", 1)]), ("comp", []), ("inv", ("comp", [("leaf", 2), ("rev",)]))]))
    for d in range(depth):
        new = []
        pool = level if len(level) <= 9 else r.sample(level, 9)
        for p in pool:
            new.append(("inv", p))
        for a, b in itertools.product(pool, repeat=2):
            new.append(("comp", [a, b]))
        for a in pool[:3]:
            new.append(("comp", [a]))
        new.append(("comp", []))
        for trip in itertools.islice(itertools.product(pool, repeat=3), 0, 27, 4):
            new.append(("comp", list(trip)))
        allp += new
        level = new
    if len(allp) > n:
        head = allp[:40]
        allp = head + r.sample(allp[40:], n - 40)
    return must + allp


def run(tier, seed):
    ck = Check("C08", tier, seed, areas=["compose"], gen_groups=["Wrappers", "Context"])
    ck.rule = ("wrapper programs (nestings of CompositeTransform / InverseTransform over integer-exact leaves x->2x+k "
               "with log-det 2^k, and a reversal) run on the real wrappers and on the extracted model with identical "
               "integer inputs; multiscale: all per-item shapes with <= 3 dims of size <= 4/5, every split_dim, 1-4 "
               "stages; non-trivial = at least two parts / at least two stages; distinct by (program, input shape)")
    ck.build()
    Tag, Rev = leaves()
    r = rng(seed, "c08")
    drv = ck.driver("compose") if ck.have_driver("compose") else None
    # ---------------- composite / inverse programs
    mm, n = [], 0
    progs = programs(2 if tier == "quick" else 3, r, 250 if tier == "quick" else 2500)
    for prog in progs:
        t, enc = build(prog, Tag, Rev)
        x = torch.tensor([[1.0, 2.0, 3.0, 5.0], [-4.0, 0.0, 7.0, 8.0]], dtype=torch.float64)
        fy = attempt(t, x)
        size = str(prog).count("leaf") + str(prog).count("rev") + str(prog).count("shared")
        ck.case(("prog", str(prog)), nontrivial=size >= 2)
        ck.count("program-size=%d" % min(size, 8))
        if fy[0] != "ok":
            ck.finding("wrappers:raises", "program %s raised %s" % (prog, fy[1:]), {"search": "prog", "prog": prog})
            continue
        y, ld = fy[1]
        # (1) the property on the implementation: inverse undoes forward, log-dets cancel, order = fold
        iy = attempt(t.inverse, y)
        if iy[0] != "ok" or not torch.equal(iy[1][0], x) or not torch.equal(iy[1][1], -ld):
            ck.finding("wrappers:inverse-does-not-undo-forward", "program %s: inverse(forward(x)) = %s, lds %s / %s"
                       % (prog, iy[1][0].tolist() if iy[0] == "ok" else iy, ld.tolist(),
                          iy[1][1].tolist() if iy[0] == "ok" else None), {"search": "prog", "prog": prog})
        ref = reference(prog, x)
        if not torch.equal(ref[0], y) or not torch.equal(ref[1], ld):
            ck.finding("wrappers:not-function-composition", "program %s: got %s / %s, composition gives %s / %s"
                       % (prog, y.tolist(), ld.tolist(), ref[0].tolist(), ref[1].tolist()),
                       {"search": "prog", "prog": prog})
        # (2) correspondence with the model
        if drv is not None:
            for row in range(x.shape[0]):
                n += 1
                m = drv.call("prog_fwd", Z(enc), F(x[row].tolist()))
                if m[0] != y[row].tolist() or float(m[1]) != float(ld[row]):
                    mm.append({"prog": str(prog), "x": x[row].tolist(), "model": m, "impl": [y[row].tolist(), float(ld[row])]})
                m2 = drv.call("prog_inv", Z(enc), F(y[row].tolist()))
                if m2[0] != x[row].tolist() or float(m2[1]) != -float(ld[row]):
                    mm.append({"prog": str(prog), "dir": "inverse", "model": m2, "impl": [x[row].tolist(), -float(ld[row])]})
    # the constructor takes "an iterable of Transform objects": the same composite whatever kind of iterable delivers the parts
    for kind in ("tuple", "generator", "iter", "map", "reversed"):
        ITER_KIND[0] = kind
        try:
            for prog in progs[:60]:
                if "comp" not in str(prog):
                    continue
                bt = attempt(build, prog, Tag, Rev)
                ck.case(("prog-iterable", kind, str(prog)), nontrivial=True)
                if bt[0] != "ok":
                    ck.finding("wrappers:constructor-rejects-iterable:%s" % kind, "program %s: %s %s" % (prog, bt[1], bt[2]), {"search": "prog-iterable", "prog": prog, "kind": kind})
                    break
                x = torch.tensor([[1.0, 2.0, 3.0, 5.0], [-4.0, 0.0, 7.0, 8.0]], dtype=torch.float64)
                got = attempt(bt[1][0], x)
                ref = reference(prog, x)
                if got[0] != "ok" or not torch.equal(got[1][0], ref[0]) or not torch.equal(got[1][1], ref[1]):
                    ck.finding("wrappers:not-function-composition:parts-from-%s" % kind,
                               "program %s with its parts handed over as a %s: got %s, plain composition gives %s / %s"
                               % (prog, kind, [v.tolist() for v in got[1]] if got[0] == "ok" else got[1:], ref[0].tolist(), ref[1].tolist()),
                               {"search": "prog-iterable", "prog": prog, "kind": kind})
                    break
        finally:
            ITER_KIND[0] = "list"
    # the same programs in float64 with leaf log-dets 2**k + 1e-9: the wrappers' sums keep the dtype and every digit of their
    # inputs (an accumulator of another dtype rounds them away); implementation against plain composition
    LD_EPS[0] = 1e-9
    try:
        for prog in progs[:120]:
            t, _ = build(prog, Tag, Rev)
            x = torch.tensor([[1.0, 2.0, 3.0, 5.0], [-4.0, 0.0, 7.0, 8.0]], dtype=torch.float64)
            ck.case(("prog-f64", str(prog)), nontrivial=True)
            for direction in ("forward", "inverse"):
                got = attempt(t.forward if direction == "forward" else t.inverse, x)
                ref = (reference if direction == "forward" else reference_inv)(prog, x)
                if got[0] != "ok":
                    continue
                if got[1][1].dtype != x.dtype or got[1][0].dtype != x.dtype or not torch.equal(got[1][1], ref[1]) or not torch.equal(got[1][0], ref[0]):
                    ck.finding("wrappers:not-function-composition:float64",
                               "program %s %s on float64 inputs: log-det %s (dtype %s), plain composition gives %s"
                               % (prog, direction, [repr(v) for v in got[1][1].tolist()], got[1][1].dtype, [repr(v) for v in ref[1].tolist()]),
                               {"search": "prog-f64", "prog": prog, "direction": direction})
                    break
    finally:
        LD_EPS[0] = 0.0
    # conditional leaves (shift and log-det move with the row's context): every wrapper hands the caller's context to every part, in
    # BOTH directions; implementation against plain composition, exact
    cx = torch.tensor([[3.0, 1.0], [-2.0, 5.0]], dtype=torch.float64)
    for prog in progs[:150]:
        t, _ = build(prog, Tag, Rev)
        x = torch.tensor([[16.0, 32.0, 48.0, 80.0], [-64.0, 0.0, 112.0, 128.0]], dtype=torch.float64)
        ck.case(("prog-context", str(prog)), nontrivial=True)
        for direction in ("forward", "inverse"):
            got = attempt(t.forward if direction == "forward" else t.inverse, x, cx)
            ref = (reference if direction == "forward" else reference_inv)(prog, x, cx)
            if got[0] != "ok":
                ck.finding("wrappers:raises:with-context", "program %s %s with a context raised %s" % (prog, direction, got[1:]),
                           {"search": "prog-context", "prog": prog, "direction": direction})
                break
            if not torch.equal(got[1][0], ref[0]) or not torch.equal(got[1][1], ref[1]):
                ck.finding("wrappers:not-function-composition:with-context",
                           "program %s %s with context rows %s: got %s / %s, plain composition of the conditional parts gives %s / %s"
                           % (prog, direction, cx.tolist(), got[1][0].tolist(), got[1][1].tolist(), ref[0].tolist(), ref[1].tolist()),
                           {"search": "prog-context", "prog": prog, "direction": direction, "context": cx.tolist()})
                break
    # the composite is what it was given at construction: the caller's list may grow, shrink or be reordered afterwards
    from nflows.transforms import base as bb_
    for mut in ("append", "reverse", "pop", "replace"):
        parts = [Tag(1), Rev(), Tag(3)]
        comp = bb_.CompositeTransform(parts)
        nested = bb_.CompositeTransform([bb_.InverseTransform(comp), Tag(2)])
        if mut == "append":
            parts.append(Tag(5))
        elif mut == "reverse":
            parts.reverse()
        elif mut == "pop":
            parts.pop()
        else:
            parts[0] = Tag(4)
        prog0 = ("comp", [("leaf", 1), ("rev",), ("leaf", 3)])
        xm0 = torch.tensor([[1.0, 2.0, 3.0, 5.0], [-4.0, 0.0, 7.0, 8.0]], dtype=torch.float64)
        ck.case(("list-mutated", mut), nontrivial=True)
        for what, tr, prog_ in (("composite", comp, prog0), ("Composite(Inverse(composite), leaf)", nested, ("comp", [("inv", prog0), ("leaf", 2)]))):
            for direction in ("forward", "inverse"):
                got = attempt(tr.forward if direction == "forward" else tr.inverse, xm0)
                ref = (reference if direction == "forward" else reference_inv)(prog_, xm0)
                if got[0] != "ok" or not torch.equal(got[1][0], ref[0]) or not torch.equal(got[1][1], ref[1]):
                    ck.finding("wrappers:not-function-composition:caller-list-mutated",
                               "%s built from a list of three parts; after the caller's list was changed (%s) its %s gives %s, the three parts it was given give %s"
                               % (what, mut, direction, got[1][0].tolist() if got[0] == "ok" else got[1:], ref[0].tolist()),
                               {"search": "list-mutated", "mutation": mut, "direction": direction})
                    break
    # mode switches: after w.train() / w.eval() - whatever modes the parts and the wrapper were in before - every part is in that
    # mode, so the wrapper is the composition of its parts in that mode (batch statistics in training mode, running ones otherwise)
    import copy as copy_
    from nflows.transforms import normalization as nm_, base as b_
    def mode_parts():
        torch.manual_seed(3)
        bn = nm_.BatchNorm(4).double()
        with torch.no_grad():
            bn.running_mean.copy_(torch.tensor([0.5, -1.0, 2.0, 0.0])); bn.running_var.copy_(torch.tensor([2.0, 0.5, 1.5, 3.0]))
        return Tag(1).double(), bn
    xm = torch.tensor([[1.0, 2.0, 3.0, 5.0], [-4.0, 0.0, 7.0, 8.0], [2.0, -1.0, 0.5, 3.0]], dtype=torch.float64)
    for wname, wrap in (("CompositeTransform", lambda ps: b_.CompositeTransform(ps)),
                        ("CompositeTransform(nested)", lambda ps: b_.CompositeTransform([b_.CompositeTransform(ps)])),
                        ("InverseTransform(InverseTransform(Composite))", lambda ps: b_.InverseTransform(b_.InverseTransform(b_.CompositeTransform(ps))))):
        for hist in (("parts-eval", "wrap", "train"), ("wrap", "eval", "part-train", "eval"), ("wrap", "train", "part-eval", "train"),
                     ("parts-eval", "wrap", "eval", "train")):
            tag_, bn_ = mode_parts()
            w = None
            for step in hist:
                if step == "parts-eval":
                    tag_.eval(); bn_.eval()
                elif step == "wrap":
                    w = wrap([tag_, bn_])
                elif step == "train":
                    w.train()
                elif step == "eval":
                    w.eval()
                elif step == "part-train":
                    bn_.train()
                elif step == "part-eval":
                    bn_.eval()
            want = hist[-1] == "train"
            ck.case(("mode", wname, hist), nontrivial=True)
            case = {"search": "mode-switch", "wrapper": wname, "history": list(hist)}
            flags = [m_.training for m_ in w.modules()]
            ref_bn = copy_.deepcopy(bn_).train(want)
            with torch.no_grad():
                y1, l1 = tag_(xm)
                y2, l2 = ref_bn(y1)
                got = attempt(copy_.deepcopy(w), xm)
            if any(f_ != want for f_ in flags):
                ck.finding("wrappers:mode-switch-does-not-reach-parts:%s" % wname.split("(")[0],
                           "%s after %s: training flags of its modules are %s" % (wname, " > ".join(hist), flags), case)
            elif got[0] == "ok" and (not torch.allclose(got[1][0], y2, atol=1e-12) or not torch.allclose(got[1][1], l1 + l2, atol=1e-12)):
                ck.finding("wrappers:not-function-composition:after-mode-switch:%s" % wname.split("(")[0],
                           "%s after %s differs from its parts chained by hand in %s mode by %.3g"
                           % (wname, " > ".join(hist), "training" if want else "evaluation", float((got[1][0] - y2).abs().max())), case)
    # the library's own three-part composite, CompositeCDFTransform(squash, cdf) = squash ; cdf ; squash^-1 with ONE squashing
    # transform: after its parameter moves (a training step), the composite is still that composition
    from nflows.transforms import nonlinearities as nl_, base as base_
    for tval in (1.0, 2.5, 0.4):
        sq = nl_.Sigmoid(temperature=1.0, learn_temperature=True).double()
        cdf = nl_.PiecewiseRationalQuadraticCDF([3], num_bins=3).double()
        comp = attempt(nl_.CompositeCDFTransform, sq, cdf)
        ck.case(("composite-cdf", tval), nontrivial=True)
        if comp[0] != "ok":
            continue
        comp = comp[1].double()
        with torch.no_grad():
            sq.temperature.fill_(tval)          # the caller's squashing transform, the one it handed in
        xg = torch.tensor([[-1.2, 0.1, 0.7], [0.4, -0.3, 2.0]], dtype=torch.float64)
        got = attempt(comp, xg)
        ref = attempt(base_.CompositeTransform([sq, cdf, base_.InverseTransform(sq)]), xg)
        nparams = len(list(comp.parameters()))
        if got[0] == "ok" and ref[0] == "ok" and (not torch.allclose(got[1][0], ref[1][0], atol=1e-10) or not torch.allclose(got[1][1], ref[1][1], atol=1e-10)):
            ck.finding("wrappers:not-function-composition:CompositeCDFTransform",
                       "temperature %g set on the squashing transform after construction: outputs differ from squash ; cdf ; squash^-1 by %g, log-dets by %g"
                       % (tval, float((got[1][0] - ref[1][0]).abs().max()), float((got[1][1] - ref[1][1]).abs().max())),
                       {"search": "composite-cdf", "temperature": tval})
            break
    ck.sample({"program": str(progs[min(30, len(progs) - 1)])})
    if drv is not None:
        ck.correspondence("composite/inverse programs", n, mm)
    # ---------------- multiscale
    multiscale(ck, drv, Tag, Rev, tier, r)
    return ck.finish()


def reference(prog, x, c=None):
    """plain function composition, written independently of the library wrappers (c: the context every leaf is shown)"""
    kind = prog[0]
    b = x.shape[0]
    if kind in ("leaf", "shared"):
        if c is not None:
            return x * 2 + prog[1] + 8 * c[:, :1], x.new_full((b,), 2.0 ** prog[1] + LD_EPS[0]) + 4096 * c[:, 0]
        return x * 2 + prog[1], x.new_full((b,), 2.0 ** prog[1] + LD_EPS[0])
    if kind == "rev":
        return x.flip(1), x.new_zeros(b)
    if kind == "comp":
        ld = x.new_zeros(b)
        for p in prog[1]:
            x, l = reference(p, x, c)
            ld = ld + l
        return x, ld
    if kind == "inv":
        return reference_inv(prog[1], x, c)


def reference_inv(prog, y, c=None):
    kind = prog[0]
    b = y.shape[0]
    if kind in ("leaf", "shared"):
        if c is not None:
            return (y - prog[1] - 8 * c[:, :1]) / 2, y.new_full((b,), -(2.0 ** prog[1] + LD_EPS[0])) - 4096 * c[:, 0]
        return (y - prog[1]) / 2, y.new_full((b,), -(2.0 ** prog[1] + LD_EPS[0]))
    if kind == "rev":
        return y.flip(1), y.new_zeros(b)
    if kind == "comp":
        ld = y.new_zeros(b)
        for p in reversed(prog[1]):
            y, l = reference_inv(p, y, c)
            ld = ld + l
        return y, ld
    if kind == "inv":
        return reference(prog[1], y, c)


def multiscale(ck, drv, Tag, Rev, tier, r):
    from nflows.transforms.base import MultiscaleCompositeTransform
    maxsize = 4 if tier == "quick" else 5
    mm, n = [], 0
    mm_add, n_add = [], 0
    shapes = [list(s) for nd in (1, 2, 3) for s in itertools.product(range(1, maxsize + 1), repeat=nd)]
    if tier == "quick":
        shapes = [s for i, s in enumerate(shapes) if len(s) < 3 or i % 3 == 0]
    for sh in shapes:
        for d in range(1, len(sh) + 2):
            for nst in (1, 2, 3, 4):
                key = ("ms", tuple(sh), d, nst)
                # walk add_transform on the implementation and on the model
                ms = attempt(MultiscaleCompositeTransform, nst, d)
                if ms[0] != "ok":
                    continue
                ms = ms[1]
                cur = list(sh)
                stages_enc, ok, parts = [], True, []
                for i in range(nst):
                    t = Tag(i + 1) if i % 2 == 0 else Rev()
                    enc = [0, i + 1] if i % 2 == 0 else [3]
                    res = attempt(ms.add_transform, t, tuple(cur))
                    n_add += 1
                    if drv is not None:
                        try:
                            m = ("ok", drv.call("add_transform", z(d), z(nst), z(i), Z(cur)))
                        except ModelErr as e:
                            m = ("err", e.kind)
                        im = ("ok", [list(ms._output_shapes[-1]), list(res[1]) if res[1] is not None else [],
                                     int(res[1] is not None)]) if res[0] == "ok" else ("err", res[1])
                        if m != im:
                            mm_add.append({"shape": cur, "split_dim": d, "num": nst, "count": i, "model": m, "impl": im})
                    if res[0] != "ok":
                        ok = False
                        break
                    stages_enc += [len(enc)] + enc + [len(cur)] + cur
                    parts.append((i, list(cur)))
                    if res[1] is not None:
                        cur = list(res[1])
                ck.case(key, nontrivial=ok and nst >= 2)
                ck.count("stages=%d" % nst)
                if not ok:
                    ck.count("add_transform-rejected")
                    continue
                numel = math.prod(sh)
                x = torch.arange(1, 2 * numel + 1, dtype=torch.float64).reshape([2] + sh)
                fy = attempt(ms, x)
                if fy[0] != "ok":
                    ck.finding("multiscale:forward-raises", "shape %s split_dim %d stages %d: %s" % (sh, d, nst, fy[1:]),
                               {"search": "ms", "shape": sh, "d": d, "stages": nst})
                    continue
                y, ld = fy[1]
                iy = attempt(ms.inverse, y)
                good = iy[0] == "ok" and torch.equal(iy[1][0], x) and torch.equal(iy[1][1], -ld)
                if not good:
                    ck.finding("multiscale:inverse-does-not-undo-forward",
                               "shape %s split_dim %d stages %d: %s" % (sh, d, nst, iy[1][0].tolist() if iy[0] == "ok" else iy[1:]),
                               {"search": "ms", "shape": sh, "d": d, "stages": nst})
                # routing: every coordinate appears exactly once, having passed a prefix of the stages.
                # Tag stage i multiplies by 2 and adds i+1; undo by brute force: each output value must decode to a
                # distinct input value through stages 0..j of some j.
                if list(y.shape) != [2, numel]:
                    ck.finding("multiscale:output-size", "shape %s -> output %s" % (sh, list(y.shape)),
                               {"search": "ms", "shape": sh, "d": d, "stages": nst})
                if drv is not None:
                    for row in range(2):
                        n += 1
                        xin = x[row].reshape(-1).tolist()
                        m = drv.call("ms_fwd", z(d), Z([nst] + stages_enc), F(xin))
                        if m[0] != y[row].tolist() or float(m[1]) != float(ld[row]):
                            mm.append({"shape": sh, "split_dim": d, "stages": nst, "model": m,
                                       "impl": [y[row].tolist(), float(ld[row])]})
                        m2 = drv.call("ms_inv", z(d), Z([nst] + stages_enc), F(y[row].tolist()))
                        if m2[0] != xin:
                            mm.append({"shape": sh, "split_dim": d, "stages": nst, "dir": "inverse", "model": m2, "impl": xin})
    ck.sample({"multiscale": {"shape": [3, 2], "split_dim": 1, "stages": 2}})
    if drv is not None:
        ck.correspondence("multiscale add_transform (shapes and errors)", n_add, mm_add)
        ck.correspondence("multiscale forward/inverse", n, mm)


def replay(payload):
    print("replay:", payload.get("replay"))
    return 0
