"""C12: batch items are evaluated independently in evaluation mode."""
import torch

from common import Check
from implutil import attempt, tgen
import catalogue


def close_enough(a, b, dtype):
    """bit-exact where the kernels are row-wise; BLAS blocking may change the last bits of matrix products
    between batch sizes: a few ulps are accepted and counted"""
    if torch.equal(a, b):
        return True, True
    # float64: 1e-9 relative.  Iterated inverses (one pass per feature through matrix products whose BLAS blocking depends on the
    # batch size) amplify last-bit differences by the conditioning of the map: 3e-11 was observed for three stacked conditional
    # MAF parts; a value that really came from another row differs at the scale of the data
    tol = 1e-5 if dtype == torch.float32 else 1e-9
    ok = bool(((a - b).abs() <= tol * (1 + a.abs())).all()) or bool((torch.isnan(a) & torch.isnan(b)).all())
    return ok, False


def search(ck, tier, seed):
    exact = inexact = 0
    todo = [(e, False) for e in catalogue.entries(tier) + catalogue.boundary_entries()]
    # splines once more with all parameters zero: uniform bins whose interior segments are exactly linear next to curved edge
    # segments, so that one batch mixes the special-cased and the general branch of the inverses
    todo += [(dict(e, name=e["name"] + " [flat parameters]"), True) for e in catalogue.entries(tier) if e["kinks"]]
    # normalisation layers that have never seen a training batch, straight in evaluation mode (a model evaluated before it is
    # trained, or built for inference and not yet restored): no batch may serve as "initialisation data" there
    todo += [(dict(e, name=e["name"] + " [never trained]"), "fresh") for e in catalogue.entries(tier)
             if any(k_ in e["name"] for k_ in ("ActNorm", "BatchNorm", "Multiscale(Squeeze"))]
    for e, flat_params in todo:
        if flat_params == "fresh":
            t = attempt(catalogue.build, e, seed, torch.float64, False, False, True)
        else:
            t = attempt(catalogue.build, e, seed, torch.float64, False, flat_params)
        if t[0] != "ok":
            continue
        t = t[1]
        x0, ctx = catalogue.sample_inputs(e, 5, seed + 50)
        variants = [("plain", x0)]
        if e["dom"] == "real" and not e["umnn"]:
            # rows of very different magnitude: some entirely inside a spline's interval / a nonlinearity's central
            # region, others in the tails, so that batch-wide shortcuts show
            scales = torch.tensor([0.15, 0.5, 1.0, 2.5, 6.0], dtype=x0.dtype).reshape([5] + [1] * (x0.dim() - 1))
            variants.append(("mixed-scale", x0 * scales))
        for vname, x in variants:
          for direction in ("forward", "inverse"):
                fn = t.forward if direction == "forward" else t.inverse
                arg = x
                if direction == "inverse":
                    with torch.no_grad():
                        r0 = attempt(t.forward, x, ctx)
                    if r0[0] != "ok":
                        continue
                    arg = r0[1][0].detach()
                with torch.no_grad():
                    full = attempt(fn, arg, ctx)
                if full[0] != "ok":
                    continue
                yf, lf = full[1]
                ck.case(("c12", e["name"], direction, vname), nontrivial=True)
                ck.count(direction)
                case = {"search": "batch", "entry": e["name"], "direction": direction, "inputs": vname, "seed": seed}
                # rows one at a time (batch size one); for never-trained layers on ANOTHER never-used instance, rows before any batch
                fn_rows = fn
                if flat_params == "fresh":
                    t_rows = attempt(catalogue.build, e, seed, torch.float64, False, False, True)
                    if t_rows[0] == "ok":
                        fn_rows = t_rows[1].forward if direction == "forward" else t_rows[1].inverse
                for i in range(arg.shape[0]):
                    with torch.no_grad():
                        r = attempt(fn_rows, arg[i:i + 1], None if ctx is None else ctx[i:i + 1])
                    if r[0] != "ok":
                        ck.finding("batch:single-row-fails:%s" % e["name"], "%s %s row %d: %s %s" % (e["name"], direction, i, r[1], r[2]), case)
                        break
                    ok1, ex1 = close_enough(r[1][0][0], yf[i], torch.float64)
                    ok2, ex2 = close_enough(r[1][1][0], lf[i], torch.float64)
                    exact += ex1 and ex2
                    inexact += not (ex1 and ex2)
                    if not (ok1 and ok2):
                        ck.finding("batch:row-depends-on-other-rows:%s" % e["name"],
                                   "%s %s: row %d evaluated alone differs from the same row inside the batch (max diff %.3g)"
                                   % (e["name"], direction, i, float((r[1][0][0] - yf[i]).abs().max())), case)
                        break
                # permutation equivariance
                perm = torch.tensor([3, 0, 4, 1, 2])
                with torch.no_grad():
                    r = attempt(fn, arg[perm], None if ctx is None else ctx[perm])
                if r[0] == "ok":
                    ok1, _ = close_enough(r[1][0], yf[perm], torch.float64)
                    ok2, _ = close_enough(r[1][1], lf[perm], torch.float64)
                    if not (ok1 and ok2):
                        ck.finding("batch:not-permutation-equivariant:%s" % e["name"], "%s %s" % (e["name"], direction), case)
                # unaffected by extra rows
                extra, ectx = catalogue.sample_inputs(e, 3, seed + 77)
                if direction == "inverse":
                    with torch.no_grad():
                        re = attempt(t.forward, extra, ectx)
                    if re[0] != "ok":
                        continue
                    extra = re[1][0].detach()
                with torch.no_grad():
                    r = attempt(fn, torch.cat([extra[:1], arg, extra[1:]]), None if ctx is None else torch.cat([ectx[:1], ctx, ectx[1:]]))
                if r[0] == "ok":
                    ok1, _ = close_enough(r[1][0][1:1 + arg.shape[0]], yf, torch.float64)
                    ok2, _ = close_enough(r[1][1][1:1 + arg.shape[0]], lf, torch.float64)
                    if not (ok1 and ok2):
                        ck.finding("batch:affected-by-other-rows:%s" % e["name"], "%s %s" % (e["name"], direction), case)
    # float32, with one OUTLIER row (identity features / inputs of size 1e6): whatever that row turns into, the other rows are
    # evaluated as if it were not there.  A reduction over the whole batch (a shared maximum, a shared scale) shows at the float32
    # precision that models are actually run in, not in float64.
    for e in catalogue.entries(tier):
        if not e["kinks"] or e["dom"] != "real":
            continue
        t = attempt(catalogue.build, e, seed, torch.float32)
        if t[0] != "ok":
            continue
        t = t[1]
        x0, ctx = catalogue.sample_inputs(e, 5, seed + 50, torch.float32)
        for which, direction in [(w_, d_) for w_ in ("all features", "odd features", "even features") for d_ in ("forward", "inverse")]:
            xo = x0.clone()
            if which == "all features":
                xo[2] = xo[2] * 1e6
            else:
                xo[2, (1 if which.startswith("odd") else 0)::2] *= 1e6      # e.g. only the identity side of a coupling: the row stays inside the spline's interval
            if True:
                fn = t.forward if direction == "forward" else t.inverse
                ck.case(("c12-outlier", e["name"], which, direction), nontrivial=True)
                case = {"search": "outlier-row-float32", "entry": e["name"], "outlier": which, "direction": direction, "seed": seed}
                with torch.no_grad():
                    full = attempt(fn, xo, ctx)
                if full[0] != "ok":
                    continue
                for i in (0, 1, 3, 4):
                    with torch.no_grad():
                        r = attempt(fn, xo[i:i + 1], None if ctx is None else ctx[i:i + 1])
                    if r[0] != "ok":
                        continue
                    ok1, _ = close_enough(r[1][0][0], full[1][0][i], torch.float32)
                    ok2, _ = close_enough(r[1][1][0], full[1][1][i], torch.float32)
                    if not (ok1 and ok2):
                        ck.finding("batch:row-depends-on-other-rows:outlier:%s" % e["name"],
                                   "%s %s (float32): row %d evaluated alone differs from the same row next to a row of size 1e6 (outputs %.3g, log-abs-det %.3g)"
                                   % (e["name"], direction, i, float((r[1][0][0] - full[1][0][i]).abs().max()), float((r[1][1][0] - full[1][1][i]).abs().max())), case)
                        break
    ck.notes.append("row comparisons bit-identical: %d, within a few ulps (BLAS blocking): %d" % (exact, inexact))
    # distributions and flows
    from nflows.distributions import normal, discrete, mixture
    from nflows.flows.base import Flow
    from nflows.transforms.autoregressive import MaskedAffineAutoregressiveTransform
    dists = [("StandardNormal", normal.StandardNormal([2, 3]), [2, 3], None),
             ("ConditionalDiagonalNormal", normal.ConditionalDiagonalNormal([3]), [3], 6),
             ("DiagonalNormal", normal.DiagonalNormal([3]), [3], None),
             ("ConditionalIndependentBernoulli", discrete.ConditionalIndependentBernoulli([3]), [3], 3),
             ("MADEMoG", mixture.MADEMoG(3, 8, 2, num_mixture_components=2), [3], 2),
             ("Flow", Flow(MaskedAffineAutoregressiveTransform(3, 8, context_features=2), normal.StandardNormal([3])), [3], 2),
             ("Flow(embedding net)", Flow(MaskedAffineAutoregressiveTransform(3, 8, context_features=4), normal.StandardNormal([3]),
                                          embedding_net=torch.nn.Linear(2, 4)), [3], 2)]
    for name, d, ev, cf in dists:
        d = d.double().eval()
        g = tgen(seed, "c12d", name)
        x = torch.rand(5, *ev, generator=g, dtype=torch.float64)
        if "Bernoulli" in name:
            x = (x > 0.5).double()
        c = None if cf is None else torch.randn(5, cf, generator=g, dtype=torch.float64)
        ck.case(("c12-dist", name), nontrivial=True)
        with torch.no_grad():
            full = attempt(d.log_prob, x, c)
        if full[0] != "ok":
            ck.finding("batch:log_prob-fails:%s" % name, "%s: %s %s" % (name, full[1], full[2]), {"search": "dist", "class": name})
            continue
        for i in range(5):
            with torch.no_grad():
                r = attempt(d.log_prob, x[i:i + 1], None if c is None else c[i:i + 1])
            if r[0] != "ok" or not close_enough(r[1][0], full[1][i], torch.float64)[0]:
                ck.finding("batch:log_prob-row-depends-on-other-rows:%s" % name, "%s row %d" % (name, i), {"search": "dist", "class": name})
                break
        # a batch in which neighbouring rows carry the SAME context (what repeat_rows produces, what class-conditional batches look
        # like): each row still gets the parameters of its own context
        if c is not None:
            idx_ = [0, 0, 1, 1, 1, 2, 0]
            with torch.no_grad():
                rep = attempt(d.log_prob, x[idx_[:len(idx_)]].clone() if True else None, c[idx_].clone())
            if rep[0] == "ok" and not close_enough(rep[1], full[1][idx_], torch.float64)[0]:
                ck.finding("batch:log_prob-row-depends-on-other-rows:repeated-context:%s" % name,
                           "%s: rows 0,0,1,1,1,2,0 (equal neighbouring contexts) differ from the same rows evaluated in the plain batch by %.3g"
                           % (name, float((rep[1] - full[1][idx_]).abs().max())), {"search": "dist-repeated-context", "class": name})
        # sub-batches that are VIEWS of the big batch (same storage, same first address, different strides), one after the other:
        # rows 0,1,2 and then rows 0,2,4 - anything remembered about "the" context of the previous call must not leak
        with torch.no_grad():
            va = attempt(d.log_prob, x[:3], None if c is None else c[:3])
            vb = attempt(d.log_prob, x[::2], None if c is None else c[::2])
        for tag, vv, idx in (("rows 0-2 (contiguous view)", va, [0, 1, 2]), ("rows 0,2,4 (strided view)", vb, [0, 2, 4])):
            if vv[0] == "ok" and not close_enough(vv[1], full[1][idx], torch.float64)[0]:
                ck.finding("batch:log_prob-row-depends-on-other-rows:view:%s" % name,
                           "%s: log_prob of %s differs from the same rows in the full batch (max diff %.3g)"
                           % (name, tag, float((vv[1] - full[1][idx]).abs().max())), {"search": "dist-views", "class": name})
                break
        if hasattr(d, "transform_to_noise"):
            with torch.no_grad():
                nz = d.transform_to_noise(x, c)
                n1 = d.transform_to_noise(x[2:3], c[2:3])
            if not close_enough(n1[0], nz[2], torch.float64)[0]:
                ck.finding("batch:noise-row-depends-on-other-rows:%s" % name, name, {"search": "dist", "class": name})


def correspondence(ck, drv, seed):
    """the extracted flatten / map / cut-back pipeline of the 1x1 convolution vs the real OneByOneConvolution"""
    from common import F, f, z
    from implutil import close, flat
    from nflows.transforms import conv
    mm, n = [], 0
    for (b, c, h, w) in [(1, 2, 1, 1), (2, 3, 2, 1), (3, 2, 2, 3), (2, 4, 3, 2)]:
        torch.manual_seed(seed + b + c)
        t = conv.OneByOneConvolution(c, identity_init=False).double().eval()
        catalogue.randomize(t, seed + 9, 0.5)
        with torch.no_grad():
            t.permutation._permutation.copy_(torch.arange(c))     # identity permutation: the pipeline alone
            x = torch.randn(b, c, h, w, dtype=torch.float64)
            y, _ = t(x)
            W = t.weight()
        px = x.permute(0, 2, 3, 1).reshape(-1).tolist()
        m = drv.call("conv", z(c), z(h * w), F(flat(W)), F(t.bias.tolist()), F(px))
        impl = y.permute(0, 2, 3, 1).reshape(-1).tolist()
        n += 1
        ck.case(("c12-corr", b, c, h, w), nontrivial=b > 1)
        if not close(m[0], impl, 1e-9) or not close(m[1], impl, 1e-9):
            mm.append({"shape": [b, c, h, w], "what": "1x1 convolution pipeline"})
    xs = [-3.0, -1.0, 0.5, 1.0, 2.5]
    m = drv.call("masked", f(1.0), F(xs))[0]
    n += 1
    if m != [x if abs(x) > 1 else 2 * x + 1 for x in xs]:
        mm.append({"what": "masked apply", "model": m})
    ck.correspondence("1x1-convolution reshape pipeline and masked apply vs implementation", n, mm)


def run(tier, seed):
    ck = Check("C12", tier, seed, areas=["batch"], gen_groups=["TailWrappers", "FlowRows"])
    ck.rule = ("every catalogue transform (evaluation mode, float64, 2-D and image inputs with h != w and c != h) in both "
               "directions, and six distributions / flows: the batch result vs each row evaluated alone (batch size one), vs a "
               "permuted batch, vs the batch embedded among extra rows; bit-exact, falling back to a few ulps for matrix "
               "products (counted in the evidence notes); distinct by (entry, direction)")
    ck.build()
    if ck.have_driver("batch"):
        correspondence(ck, ck.driver("batch"), seed)
    search(ck, tier, seed)
    ck.sample({"notes": ck.notes[-1:]})
    return ck.finish()


def replay(payload):
    print("replay:", payload.get("replay"))
    return 0
