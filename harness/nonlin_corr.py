"""Correspondence of the extracted nonlinearity models with the implementation."""
import math

import torch

from common import F, z
from implutil import attempt, tgen, close

CODES = {0: "ok", 1: "InputOutsideDomain"}


def transforms():
    from nflows.transforms import nonlinearities as nl
    return [
        (0, "Exp", lambda: nl.Exp(), [], (None, "pos")),
        (1, "Tanh", lambda: nl.Tanh(), [], (None, "open-1-1")),
        (2, "CauchyCDF", lambda: nl.CauchyCDF(), [], (None, "closed-0-1")),
        (3, "Sigmoid(T=1)", lambda: nl.Sigmoid(), [1.0, 1e-6], (None, "closed-0-1")),
        (3, "Sigmoid(T=2.5)", lambda: nl.Sigmoid(temperature=2.5, eps=1e-3), [2.5, 1e-3], (None, "closed-0-1")),
        (4, "LogTanh(1)", lambda: nl.LogTanh(1), [1.0], (None, None)),
        (4, "LogTanh(0.5)", lambda: nl.LogTanh(0.5), [0.5], (None, None)),
        (5, "LeakyReLU(0.01)", lambda: nl.LeakyReLU(), [1e-2], (None, None)),
        (5, "LeakyReLU(0.3)", lambda: nl.LeakyReLU(0.3), [0.3], (None, None)),
    ]


def inputs_for(domain, g):
    base = torch.randn(8, generator=g, dtype=torch.float64) * 2
    if domain is None:
        extra = [0.0, 1.0, -1.0, 0.5, -0.5, 1e-9, -1e-9, 5.0, -5.0]
        return [torch.cat([base, torch.tensor(extra, dtype=torch.float64)])]
    if domain == "pos":
        good = torch.cat([base.abs() + 1e-3, torch.tensor([1e-300, 1.0, 1e6], dtype=torch.float64)])
        bad = [0.0, -1e-300, -1.0]
    elif domain == "open-1-1":
        good = torch.cat([torch.tanh(base), torch.tensor([0.0, 1 - 1e-12, -1 + 1e-12], dtype=torch.float64)])
        bad = [1.0, -1.0, 1.0000001, -2.0]
    else:
        good = torch.cat([torch.sigmoid(base), torch.tensor([0.0, 1.0, 0.5, 1e-9, 1 - 1e-9], dtype=torch.float64)])
        bad = [-1e-300, math.nextafter(1.0, 2.0), -0.1, 1.5]
    return [good] + [torch.cat([good[:2], torch.tensor([b], dtype=torch.float64)]) for b in bad]


def correspondence(ck, drv, tier, seed):
    mm, n = [], 0
    for kind, name, ctor, ps, (fdom, idom) in transforms():
        t = ctor().double() if hasattr(ctor(), "double") else ctor()
        for inverse, dom in ((False, fdom), (True, idom)):
            g = tgen(seed, "nl", name, inverse)
            for x in inputs_for(dom, g):
                xin = x.reshape(-1, 1)
                r = attempt(t.inverse if inverse else t.forward, xin)
                codes, outs, lads = drv.call("nl", z(kind), z(int(inverse)), F(ps), F(x.tolist()))
                n += 1
                ck.case(("nl", name, inverse, tuple(x.tolist()[-1:])), nontrivial=True)
                bad = None
                if r[0] != "ok":
                    if r[1] not in {CODES.get(c, str(c)) for c in codes if c != 0}:
                        bad = "implementation raised %s, model codes %s" % (r[1], sorted(set(codes)))
                elif any(c != 0 for c in codes):
                    bad = "model rejects %r, implementation accepts" % x[[c != 0 for c in codes].index(True)].item()
                else:
                    y, lad = r[1]
                    for i in range(len(outs)):
                        yi, li = float(y[i, 0]), float(lad[i])
                        if not close(outs[i], yi, 1e-9 * (1 + math.exp(min(abs(li), 30)))) and not (math.isinf(yi) and math.isinf(outs[i])):
                            bad = "x=%r output model %r impl %r" % (float(x[i]), outs[i], yi)
                            break
                        if not close(lads[i], li, 1e-7) and not (math.isinf(li) and math.isinf(lads[i])):
                            bad = "x=%r logabsdet model %r impl %r" % (float(x[i]), lads[i], li)
                            break
                if bad:
                    mm.append({"transform": name, "inverse": inverse, "what": bad})
    # GatedLinearUnit: one gate per row
    from nflows.transforms import nonlinearities as nl
    g = tgen(seed, "glu")
    x = torch.randn(6, 1, generator=g, dtype=torch.float64)
    c = torch.randn(6, 1, generator=g, dtype=torch.float64)
    for inverse in (False, True):
        t = nl.GatedLinearUnit()
        r = attempt(t.inverse if inverse else t.forward, x, c)
        codes, outs, lads = drv.call("nl", z(6), z(int(inverse)), F(c.reshape(-1).tolist()), F(x.reshape(-1).tolist()))
        n += 1
        if r[0] != "ok" or not close(outs, r[1][0].reshape(-1).tolist(), 1e-9) or not close(lads, r[1][1].tolist(), 1e-9):
            mm.append({"transform": "GatedLinearUnit(1 feature)", "inverse": inverse, "what": "values"})
    ck.sample({"transform": "Tanh", "x": [0.5], "model": drv.call("nl", z(1), z(0), F([]), F([0.5]))})
    ck.correspondence("nonlinearity models vs implementation (outputs, logabsdet, exception class)", n, mm)
