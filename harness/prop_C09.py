"""C09: spline transformers are increasing bijections of their box, identity in tails."""
import math

import torch

from common import Check, F, f, z, Z, ModelErr
from implutil import attempt, rng, tgen, close
import splines_h as sh
import splines_corr


def search(ck, tier, seed):
    Ks = [1, 2, 3, 5] if tier == "quick" else [1, 2, 3, 4, 5, 8]
    kinds = sh.PARAM_KINDS
    boxes = sh.BOXES if tier == "thorough" else sh.BOXES[:4]
    for fam in sh.FAMILIES:
        for K in Ks:
            for kind in kinds:
                for bi, box in enumerate(boxes):
                    if tier == "quick" and (K + bi + len(kind)) % 2:
                        continue
                    g = tgen(seed, fam, K, kind, bi)
                    params = sh.gen_params(fam, K, False, kind, g)
                    for mins, inverse in [(m_, i_) for m_ in sh.MINS[fam] for i_ in (False, True)]:
                        if mins is not None and (kind not in ("normal", "zeros") or mins["min_bin_width"] * K > 1 or mins["min_bin_height"] * K > 1):
                            continue
                        mbw = 1e-3 if mins is None else mins["min_bin_width"]
                        dom = (box[2], box[3], box[0], box[1]) if inverse else box
                        lo, hi, blo, bhi = dom
                        if inverse:
                            # input-side knots of the inverse are the forward images of the knots
                            kx = torch.tensor(sh.knots_x(fam, params, box, mbw), dtype=torch.float64)
                            r0 = sh.call(fam, False, kx.clamp(box[0], box[1]), params, box=box, extra=mins)
                            if r0[0] != "ok":
                                continue
                            ky = r0[1][0].clamp(lo, hi)
                            pts = set(ky.tolist()) | {lo, hi}
                            inf = torch.tensor(math.inf, dtype=torch.float64)
                            for v in ky:
                                for w in (torch.nextafter(v, inf), torch.nextafter(v, -inf)):
                                    if lo <= float(w) <= hi:
                                        pts.add(float(w))
                            # ... and points a little below / above every knot (1e-7 .. 2e-6 of the interval): a bin lookup with a
                            # tolerance files them under the neighbouring bin, whose line has another slope
                            for v in ky.tolist():
                                for off in (2e-7, 5e-7, 9e-7, 1.5e-6, 2e-6):
                                    for w in (v - off * (hi - lo), v + off * (hi - lo)):
                                        if lo <= w <= hi:
                                            pts.add(w)
                            srt = sorted(pts)
                            for a, b in zip(srt[:-1], srt[1:]):
                                pts.add((a + b) / 2)
                            x = torch.tensor(sorted(pts), dtype=torch.float64)
                        else:
                            x = sh.grid(fam, params, box, mbw=mbw)
                        ck.case(("c09", fam, K, kind, bi, inverse, str(mins)), nontrivial=K >= 2)
                        unstable = fam == "cubic" and inverse and kind in ("wide", "onehot")

                        def report(key, what, case_):
                            # the cubic inverse's root selection is numerically unreliable for strongly non-uniform parameters
                            # (one-hot or N(0,16) logits): NaN, jumps, loss of monotonicity and overshoot at knots and end
                            # points are symptoms of that one known defect; for moderate parameters each symptom keeps its key
                            ck.finding("spline:cubic-inverse-unstable-for-non-uniform-parameters" if unstable else key, what, case_)
                        ck.count("family=" + fam)
                        r = sh.call(fam, inverse, x, params, box=box, extra=mins)
                        case = {"search": "bounded", "family": fam, "K": K, "kind": kind, "box": box, "inverse": inverse,
                                "mins": mins, "seed": seed}
                        tag = "%s:%s" % (fam, "inverse" if inverse else "forward")
                        if r[0] != "ok":
                            report("spline:raises-in-domain:%s:%s" % (tag, r[1]),
                                       "%s K=%d params=%s box=%s: %s %s" % (tag, K, kind, box, r[1], r[2]), case)
                            continue
                        y, lad = r[1]
                        scale = max(1.0, abs(blo), abs(bhi))
                        # the cubic inverse declares its approximation constants (eps = 1e-5 root tolerance, 1e-3
                        # quadratic fallback threshold): its values are only claimed to that accuracy
                        vtol = 1e-4 * scale if (fam == "cubic" and inverse) else 1e-9 * scale
                        mtol = 1e-4 * scale if (fam == "cubic" and inverse) else 1e-12 * scale
                        if not bool(torch.isfinite(y).all()):
                            badx = x[~torch.isfinite(y)]
                            bad = badx[:3].tolist()
                            sc_ = 1e-9 * max(1.0, abs(lo), abs(hi))
                            at_end = bool((((badx - hi).abs() <= sc_) | ((badx - lo).abs() <= sc_)).all())
                            where = "end-point" if (fam == "cubic" and inverse and at_end) else kind
                            report("spline:non-finite-output:%s:%s" % (tag, where), "K=%d params=%s box=%s at x=%s" % (K, kind, box, bad), case)
                            continue
                        d = y[1:] - y[:-1]
                        if bool((d < -mtol).any()):
                            i = int(torch.argmin(d))
                            report("spline:not-monotone:%s" % tag,
                                       "K=%d params=%s box=%s: f(%r)=%r > f(%r)=%r" % (K, kind, box, float(x[i]), float(y[i]),
                                                                                  float(x[i + 1]), float(y[i + 1])), case)
                        # strictness between points that are not float neighbours
                        gap = (x[1:] - x[:-1]) > 1e-6 * scale
                        if not (fam == "cubic" and inverse) and bool(((d <= 0) & gap).any()):
                            i = int(torch.nonzero((d <= 0) & gap)[0])
                            report("spline:not-strictly-increasing:%s" % tag,
                                       "K=%d params=%s box=%s: f(%r)=%r, f(%r)=%r" % (K, kind, box, float(x[i]), float(y[i]),
                                                                                 float(x[i + 1]), float(y[i + 1])), case)
                        if abs(float(y[0]) - blo) > vtol or abs(float(y[-1]) - bhi) > vtol:
                            report("spline:end-points-not-mapped:%s" % tag,
                                       "K=%d params=%s box=%s: f(%r)=%r (want %r), f(%r)=%r (want %r)"
                                       % (K, kind, box, lo, float(y[0]), blo, hi, float(y[-1]), bhi), case)
                        if float(y.min()) < blo - vtol or float(y.max()) > bhi + vtol:
                            report("spline:leaves-output-interval:%s" % tag,
                                       "K=%d params=%s box=%s: range [%r, %r]" % (K, kind, box, float(y.min()), float(y.max())), case)
                        # continuity across float-adjacent grid points
                        adj = ~gap
                        slope = torch.exp(torch.maximum(lad[1:], lad[:-1]).clamp(max=60.0))
                        allowed = 1e-7 * scale + vtol + 4.0 * slope * (x[1:] - x[:-1])
                        if bool((d.abs()[adj] > allowed[adj]).any()):
                            i = int(torch.nonzero(adj & (d.abs() > allowed))[0])
                            report("spline:discontinuous-at-knot:%s" % tag,
                                       "K=%d params=%s box=%s: jump %g at x=%r" % (K, kind, box, float(d[i]), float(x[i])), case)
    # tails
    for fam in sh.FAMILIES:
        for K in ([2, 4] if tier == "quick" else [1, 2, 3, 5, 8]):
            if fam == "quadratic" and K < 2:
                continue
            for B in (0.5, 1.0, 3.0, 8.0, 0.3, 0.7, 1.1, 2.7):       # the last four are not float32 numbers (two round up, two down)
                for kind in (("zeros", "normal", "wide") if B in (0.5, 1.0, 3.0, 8.0) else ("normal",)):
                    g = tgen(seed, "tails", fam, K, B, kind)
                    params = sh.gen_params(fam, K, True, kind, g)
                    inf = torch.tensor(math.inf, dtype=torch.float64)
                    b = torch.tensor(B, dtype=torch.float64)
                    x = torch.stack([-b * 3, torch.nextafter(-b, -inf), -b, torch.nextafter(-b, inf), torch.tensor(0.1 * B, dtype=torch.float64),
                                     torch.nextafter(b, -inf), b, torch.nextafter(b, inf), b * 3, b + 100.0])
                    for mins, inverse in [(m_, i_) for m_ in sh.MINS[fam] for i_ in (False, True)]:
                        if mins is not None and kind != "normal":
                            continue
                        ck.case(("c09-tails", fam, K, B, kind, inverse, str(mins)), nontrivial=True)
                        r = sh.call(fam, inverse, x, params, tail_bound=B, extra=mins)
                        case = {"search": "tails", "family": fam, "K": K, "kind": kind, "tail_bound": B, "inverse": inverse, "mins": mins, "seed": seed}
                        tag = "%s:%s" % (fam, "inverse" if inverse else "forward")
                        if r[0] != "ok":
                            ck.finding("spline-tails:raises:%s:%s" % (tag, r[1]), "K=%d B=%g params=%s: %s" % (K, B, kind, r[2]), case)
                            continue
                        y, lad = r[1]
                        out = (x.abs() > B)
                        if not torch.equal(y[out], x[out]) or bool((lad[out] != 0).any()):
                            ck.finding("spline-tails:not-identity-outside:%s" % tag, "K=%d B=%g params=%s" % (K, B, kind), case)
                        ttol = (1e-4 if (fam == "cubic" and inverse) else 1e-9) * max(1.0, B)
                        for idx in (2, 6):
                            if abs(float(y[idx]) - float(x[idx])) > ttol:
                                ck.finding("spline-tails:discontinuous-at-bound:%s" % tag,
                                           "K=%d B=%g params=%s: f(%r)=%r" % (K, B, kind, float(x[idx]), float(y[idx])), case)
                        dd = y[1:] - y[:-1]
                        if bool((dd < -(ttol if (fam == "cubic" and inverse) else 1e-12 * max(1.0, B))).any()):
                            ck.finding("spline-tails:not-monotone-across-bound:%s" % tag, "K=%d B=%g params=%s" % (K, B, kind), case)
                        # single precision at the junction, for bounds that float32 rounds (0.1, 0.3, 1.1 ...): the mask that routes an
                        # input into the spline and the spline's own domain check must agree about float32(+-B)
                        if kind == "normal" and mins is None:
                            for Bq in (0.1, 0.3, 1.1, B):
                                b32 = torch.tensor(Bq, dtype=torch.float32)
                                x32 = torch.stack([-b32, b32, torch.nextafter(b32, torch.tensor(0.0)), -torch.nextafter(b32, torch.tensor(0.0)), b32 * 0.5])
                                p32 = {k_: v_.float() for k_, v_ in params.items()}
                                r32 = sh.call(fam, inverse, x32, p32, tail_bound=Bq)
                                if r32[0] != "ok":
                                    ck.finding("spline-tails:raises:%s:%s" % (tag, r32[1]),
                                               "K=%d tail bound %g, float32 inputs at the junction %s: %s" % (K, Bq, x32[:2].tolist(), str(r32[2])[:80]), case)
                                    break
                                y32 = r32[1][0]
                                if not (fam == "cubic" and inverse) and (abs(float(y32[0]) + float(b32)) > 1e-5 * max(1.0, Bq) or abs(float(y32[1]) - float(b32)) > 1e-5 * max(1.0, Bq)):
                                    ck.finding("spline-tails:discontinuous-at-bound:%s" % tag,
                                               "K=%d tail bound %g (float32): f(+-B) = %r, %r" % (K, Bq, float(y32[0]), float(y32[1])), case)
                                    break
                        # the same values in another memory layout (a transposed, i.e. column-major, batch of two features): the
                        # transformer is a function of the VALUES; masked writes through a flattened copy would be lost
                        n_ = x.shape[0]
                        x2 = torch.stack([x, x.flip(0)], 0).t()                 # [n, 2], non-contiguous view
                        kw2 = {k_: v_[None, None, :].expand(n_, 2, -1).clone() for k_, v_ in params.items()}
                        kw2.update(tails="linear", tail_bound=B)
                        if mins:
                            kw2.update(mins)
                        r2 = attempt(sh.spline_fn(fam, True), inputs=x2, inverse=inverse, **kw2)
                        if r2[0] == "ok":
                            y2 = r2[1][0]
                            def agree(u_, v_):       # equal, both NaN (the cubic inverse's recorded instability), or within the tolerance
                                return bool((((u_ - v_).abs() <= ttol) | (torch.isnan(u_) & torch.isnan(v_)) | (u_ == v_)).all())
                            same, same2 = agree(y2[:, 0], y), agree(y2[:, 1], y.flip(0))
                            if not (same and same2):
                                ck.finding("spline-tails:depends-on-memory-layout:%s" % tag,
                                           "K=%d B=%g params=%s: a column-major batch gives %s, the same values row-major %s"
                                           % (K, B, kind, [round(v, 6) for v in y2[:, 0].tolist()], [round(v, 6) for v in y.tolist()]), case)
                        elif r[0] == "ok":
                            ck.finding("spline-tails:raises:%s:%s" % (tag, r2[1]), "K=%d B=%g params=%s, column-major inputs: %s" % (K, B, kind, r2[2]), case)


def cubic_nearly_quadratic_bin(ck, tier, seed):
    """cubic splines one of whose bins is (almost) a parabola: the left boundary derivative is solved, by bisection on the forward
    map's third difference, so that the first bin's cubic coefficient vanishes while its quadratic one does not - the inverse then
    takes its low-degree branch.  There, too, the inverse is increasing, stays in [left, right] and undoes the forward map."""
    for K in (2, 3, 5):
        for rep in range(2 if tier == "quick" else 6):
            for box, B in (((0.0, 1.0, 0.0, 1.0), None), ((-2.0, 3.0, 1.0, 5.0), None), (None, 3.0)):
                g = tgen(seed, "c09-nq", K, rep, str(box))
                params = sh.gen_params("cubic", K, B is not None, "normal", g)
                bx = box if box is not None else (-B, B, -B, B)
                kn = sh.knots_x("cubic", params, bx)
                x0, x1 = float(kn[0]), float(kn[1])
                pts = torch.tensor([x0 + (x1 - x0) * f for f in (0.1, 0.35, 0.6, 0.85)], dtype=torch.float64)

                def third(u):
                    p_ = dict(params, unnorm_derivatives_left=torch.tensor([u], dtype=torch.float64))
                    r_ = sh.call("cubic", False, pts, p_, box=box, tail_bound=B)
                    if r_[0] != "ok":
                        return None
                    y_ = r_[1][0]
                    return float(y_[3] - 3 * y_[2] + 3 * y_[1] - y_[0])
                lo, hi = -8.0, 8.0
                flo, fhi = third(lo), third(hi)
                if flo is None or fhi is None or flo * fhi > 0:
                    ck.count("nearly-quadratic: no sign change")
                    continue
                for _ in range(70):
                    mid = 0.5 * (lo + hi)
                    fm = third(mid)
                    if fm is None:
                        break
                    if fm * flo <= 0:
                        hi = mid
                    else:
                        lo, flo = mid, fm
                params = dict(params, unnorm_derivatives_left=torch.tensor([0.5 * (lo + hi)], dtype=torch.float64))
                xs = torch.linspace(x0, x1, 41, dtype=torch.float64)
                f = sh.call("cubic", False, xs, params, box=box, tail_bound=B)
                ck.case(("c09-nq", K, rep, str(box)), nontrivial=True)
                if f[0] != "ok":
                    continue
                y = f[1][0]
                curv = float((y[2] - 2 * y[1] + y[0]).abs())
                if curv < 1e-9:
                    ck.count("nearly-quadratic: the bin is a straight line")
                    continue
                case = {"search": "cubic-nearly-quadratic-bin", "K": K, "rep": rep, "box": box, "tail_bound": B, "seed": seed,
                        "unnorm_derivatives_left": float(params["unnorm_derivatives_left"])}
                b = sh.call("cubic", True, y, params, box=box, tail_bound=B)
                if b[0] != "ok":
                    ck.finding("spline:raises:cubic:inverse:%s" % b[1], "nearly quadratic first bin, K=%d: %s" % (K, b[2]), case)
                    continue
                xr = b[1][0]
                tol_ = 1e-5 * (bx[1] - bx[0])
                if bool(torch.isnan(xr).any()) or float((xr - xs).abs().max()) > tol_ or float(xr.min()) < bx[0] - tol_ or float(xr.max()) > bx[1] + tol_ \
                        or bool(((xr[1:] - xr[:-1]) < -tol_).any()):
                    i = int(torch.argmax((xr - xs).abs().nan_to_num(1e9)))
                    ck.finding("spline:inverse-wrong-on-nearly-quadratic-bin:cubic",
                               "K=%d box=%s tail_bound=%s, first bin a parabola (cubic coefficient solved to zero): f^-1(f(%r)) = %r; range of the inverse "
                               "on the bin [%r, %r], the bin is [%r, %r]" % (K, box, B, float(xs[i]), float(xr[i]), float(xr.min()), float(xr.max()), x0, x1), case)


def run(tier, seed):
    ck = Check("C09", tier, seed, areas=["splines"], gen_groups=["SplineRQ", "SplineLinear", "SplineQuadratic", "SplineCubic", "Utils"])
    ck.rule = ("four spline families x bin counts from 1 x boxes (incl. non-default) x parameter kinds (zeros, N(0,1), "
               "N(0,16), one-hot +-12, small) x both directions, inputs on every knot, its float64 neighbours, end "
               "points, bin interiors; tails: +-B, neighbours, far tails; non-trivial = at least two bins; distinct by "
               "(family, K, kind, box, direction)")
    ck.build()
    if ck.have_driver("splines"):
        splines_corr.correspondence(ck, ck.driver("splines"), tier, seed)
    search(ck, tier, seed)
    sh.module_double_inputs(ck, seed, "tails")
    cubic_nearly_quadratic_bin(ck, tier, seed)
    return ck.finish()


def replay(payload):
    print("replay:", payload.get("replay"))
    return 0
