"""C03: exp(log_prob) of a flow integrates to one over the data space."""
import math

import numpy as np
import torch
from torch import nn

from common import Check
from implutil import attempt, tgen, stable_hash

LOG2PI = math.log(2 * math.pi)


# ------------------------------------------------------------------ programs: compositions of library transforms
def atoms(D, cf=None):
    """name -> (constructor(seed), kind); kind 'R': maps R^D onto R^D; ('first', lo, hi): only as the first transform, data
    space (lo, hi)^D mapped onto R^D; ctx: number of context features it consumes (0 = none)"""
    from nflows.transforms import (base, coupling as cp, autoregressive as ar, linear, lu, qr, svd, orthogonal,
                                   normalization as norm, nonlinearities as nl, standard, permutations as perm)
    from nflows.nn import nets
    A = {}

    def rnd(seed, n, lo, hi):
        g = torch.Generator(); g.manual_seed(seed)
        return lo + (hi - lo) * torch.rand(n, generator=g, dtype=torch.float64)

    A["PointwiseAffine"] = (lambda s: standard.PointwiseAffineTransform(rnd(s, D, -1, 1), rnd(s + 1, D, 0.6, 1.6) * (1 if s % 2 else -1)), "R", 0)
    A["LeakyReLU"] = (lambda s: nl.LeakyReLU(0.2 + 0.1 * (s % 5)), "R", 0)
    A["LeakyReLU(0.2)"] = (lambda s: nl.LeakyReLU(0.2), "R", 0)
    A["Inverse(LeakyReLU)"] = (lambda s: base.InverseTransform(nl.LeakyReLU(0.5)), "R", 0)
    # LogTanh itself grows like a logarithm: its data distribution has tails ~ exp(|z|), out of reach of a box quadrature;
    # its inverse direction (light tails) is used instead
    A["Inverse(LogTanh)"] = (lambda s: base.InverseTransform(nl.LogTanh(1.0 + 0.5 * (s % 3))), "R", 0)
    A["Sigmoid;Logit"] = (lambda s: base.CompositeTransform([nl.Sigmoid(temperature=0.7 + 0.2 * (s % 4)), nl.Logit()]), "R", 0)
    A["CauchyCDF;CauchyCDFInverse"] = (lambda s: base.CompositeTransform([nl.CauchyCDF(), nl.CauchyCDFInverse()]), "R", 0)
    for nm, cls in (("PiecewiseLinearCDF", nl.PiecewiseLinearCDF), ("PiecewiseQuadraticCDF", nl.PiecewiseQuadraticCDF),
                    ("PiecewiseCubicCDF", nl.PiecewiseCubicCDF), ("PiecewiseRationalQuadraticCDF", nl.PiecewiseRationalQuadraticCDF)):
        A[nm + "(tails)"] = (lambda s, cls=cls: cls([D], num_bins=3 + s % 3, tails="linear", tail_bound=2.0 + (s % 2)), "R", 0)
        if nm != "PiecewiseLinearCDF":     # configured minimum bin sizes, width and height deliberately different
            A[nm + "(tails, mins)"] = (lambda s, cls=cls: cls([D], num_bins=3 + s % 2, tails="linear", tail_bound=2.0,
                                                              min_bin_width=0.02, min_bin_height=0.005), "R", 0)
        A[nm + ";Logit"] = (lambda s, cls=cls: base.CompositeTransform([cls([D], num_bins=3 + s % 3), nl.Logit()]), ("first", 0.0, 1.0), 0)
        A["Sigmoid;" + nm + ";Logit"] = (lambda s, cls=cls: base.CompositeTransform([nl.Sigmoid(), cls([D], num_bins=4), nl.Logit()]), "R", 0)
    A["Logit"] = (lambda s: nl.Logit(), ("first", 0.0, 1.0), 0)
    A["Inverse(Tanh)"] = (lambda s: base.InverseTransform(nl.Tanh()), ("first", -1.0, 1.0), 0)
    A["Inverse(Sigmoid)"] = (lambda s: base.InverseTransform(nl.Sigmoid(temperature=1.5)), ("first", 0.0, 1.0), 0)
    A["CauchyCDFInverse"] = (lambda s: nl.CauchyCDFInverse(), ("first", 0.0, 1.0), 0)
    # constructor arguments away from their defaults (the pinned code accepts and ignores location / scale)
    A["CauchyCDFInverse(scale 0.5)"] = (lambda s: nl.CauchyCDFInverse(location=0.0, scale=0.5), ("first", 0.0, 1.0), 0)
    A["CauchyCDF(scale 2);CauchyCDFInverse"] = (lambda s: base.CompositeTransform([nl.CauchyCDF(location=0.0, scale=2.0), nl.CauchyCDFInverse()]), "R", 0)
    A["Sigmoid(T 2.5);Logit(T 0.4)"] = (lambda s: base.CompositeTransform([nl.Sigmoid(temperature=2.5), nl.Logit(temperature=0.4)]), "R", 0)
    A["ActNorm"] = (lambda s: norm.ActNorm(D), "R", 0)
    A["BatchNorm(eval)"] = (lambda s: norm.BatchNorm(D), "R", 0)
    A["LULinear"] = (lambda s: lu.LULinear(D, identity_init=False), "R", 0)
    A["NaiveLinear"] = (lambda s: linear.NaiveLinear(D, orthogonal_initialization=True), "R", 0)
    A["MaskedAffineAutoregressive"] = (lambda s: ar.MaskedAffineAutoregressiveTransform(D, 8, context_features=cf, num_blocks=1), "R", 0)
    A["MaskedPiecewiseRQAutoregressive(tails)"] = (lambda s: ar.MaskedPiecewiseRationalQuadraticAutoregressiveTransform(
        D, 8, context_features=cf, num_bins=3, tails="linear", tail_bound=2.5, num_blocks=1), "R", 0)
    A["MaskedPiecewiseLinearAutoregressive;Logit"] = (lambda s: base.CompositeTransform(
        [ar.MaskedPiecewiseLinearAutoregressiveTransform(3, D, 8, context_features=cf, num_blocks=1), nl.Logit()]), ("first", 0.0, 1.0), 0)
    A["MaskedPiecewiseQuadraticAutoregressive(tails)"] = (lambda s: ar.MaskedPiecewiseQuadraticAutoregressiveTransform(
        D, 8, context_features=cf, num_bins=3, tails="linear", tail_bound=2.0, num_blocks=1), "R", 0)
    if D == 2:
        mk = lambda: (lambda i, o: nets.ResidualNet(i, o, hidden_features=8, context_features=cf, num_blocks=1))
        A["QRLinear"] = (lambda s: qr.QRLinear(2, num_householder=2), "R", 0)
        A["SVDLinear"] = (lambda s: svd.SVDLinear(2, num_householder=2, identity_init=False), "R", 0)
        A["HouseholderSequence"] = (lambda s: orthogonal.HouseholderSequence(2, 3), "R", 0)
        A["ReversePermutation"] = (lambda s: perm.ReversePermutation(2), "R", 0)
        A["AffineCoupling"] = (lambda s: cp.AffineCouplingTransform([s % 2, 1 - s % 2], mk()), "R", 0)
        A["AdditiveCoupling"] = (lambda s: cp.AdditiveCouplingTransform([0, 1], mk()), "R", 0)
        A["RQCoupling(tails)"] = (lambda s: cp.PiecewiseRationalQuadraticCouplingTransform([1, 0], mk(), num_bins=3, tails="linear", tail_bound=2.5), "R", 0)
        A["LinearCoupling;Logit"] = (lambda s: base.CompositeTransform([cp.PiecewiseLinearCouplingTransform([1, 0], mk(), num_bins=3), nl.Logit()]), ("first", 0.0, 1.0), 0)
        A["QuadraticCoupling(tails)"] = (lambda s: cp.PiecewiseQuadraticCouplingTransform([1, 0], mk(), num_bins=3, tails="linear", tail_bound=2.0), "R", 0)
        A["CubicCoupling(tails)"] = (lambda s: cp.PiecewiseCubicCouplingTransform([0, 1], mk(), num_bins=3, tails="linear", tail_bound=2.0), "R", 0)
    return {k: v for k, v in A.items() if v is not None}


def bases(D):
    from nflows.distributions import normal, mixture
    B = {}
    B["StandardNormal"] = (lambda s: normal.StandardNormal([D]), 0)
    B["DiagonalNormal"] = (lambda s: normal.DiagonalNormal([D]), 0)
    B["ConditionalDiagonalNormal"] = (lambda s: normal.ConditionalDiagonalNormal([D], context_encoder=nn.Linear(2, 2 * D)), 2)
    B["MADEMoG"] = (lambda s: mixture.MADEMoG(D, 8, 2, num_blocks=1, num_mixture_components=2, custom_initialization=True), 2)
    return B


def warm_up(fl, D, seed):
    """BatchNorm starts with running_var = 0 (a scale of 1/sqrt(eps)); give it statistics as training would"""
    from nflows.transforms.normalization import BatchNorm
    if not any(isinstance(m, BatchNorm) for m in fl.modules()):
        return
    g = torch.Generator(); g.manual_seed(seed)
    fl.train()
    with torch.no_grad():
        for _ in range(40):
            x = torch.randn(256, D, generator=g, dtype=torch.float64) * 1.3 + 0.2
            for m in fl.modules():
                if isinstance(m, BatchNorm):
                    m(x)
    fl.eval()


def randomize(m, seed, scale):
    g = torch.Generator(); g.manual_seed(seed)
    with torch.no_grad():
        for prm in m.parameters():
            prm.add_((torch.randn(prm.shape, generator=g) * scale).to(prm.dtype))


def programs(D, tier, seed):
    """(name, make() -> Flow (float64, eval), data box, needs context)"""
    from nflows.flows.base import Flow
    from nflows.transforms import base
    A0, AC, B = atoms(D), atoms(D, 2), bases(D)
    A = A0
    names = sorted(A)
    firsts = [n for n in names if A[n][1] != "R"]
    rs = [n for n in names if A[n][1] == "R"]
    out = []
    # every atom alone over a StandardNormal, then random compositions of depth 2..3 over every base
    plan = [([n], "StandardNormal", False) for n in names]
    plan += [([n], "StandardNormal", True) for n in names if "Coupling" in n or "Autoregressive" in n]
    nrand = (10 if D == 1 else 6) if tier == "quick" else (60 if D == 1 else 14)
    rng = np.random.RandomState(stable_hash(("c03", D, seed)) % (2 ** 31))
    bnames = sorted(B)
    for i in range(nrand):
        depth = 2 + int(rng.randint(2))
        first = [firsts[rng.randint(len(firsts))]] if rng.rand() < 0.25 else [rs[rng.randint(len(rs))]]
        rest = [rs[rng.randint(len(rs))] for _ in range(depth - 1)]
        seq = first + rest
        # Logit (= Sigmoid.inverse) clamps its argument to [eps, 1 - eps]: its range is +-13.8, not the whole line.  Directly in
        # front of the base that costs 1e-43 of mass; followed by a contraction it becomes visible (known finding, shown by the
        # canary program below).  Random programs therefore keep a Logit-ending atom in the last position.
        trunc = [n for n in seq if n.endswith("Logit")]
        seq = [n for n in seq if not n.endswith("Logit")] + trunc[-1:]
        if box_first := [n for n in seq if A[n][1] != "R"]:
            seq = box_first[:1] + [n for n in seq if A[n][1] == "R"]
        plan.append((seq, bnames[i % len(bnames)], B[bnames[i % len(bnames)]][1] > 0 or bool(rng.rand() < 0.3)))
    if D == 1:
        plan.append((["Sigmoid;Logit", "LeakyReLU(0.2)"], "StandardNormal", False))      # canary for the Logit clamp
    for k, (seq, bn, conditional) in enumerate(plan):
        def make(seq=seq, bn=bn, k=k, conditional=conditional):
            torch.manual_seed(seed + k)
            ts = [(AC if conditional else A0)[n][0](seed + k + j) for j, n in enumerate(seq)]
            t = ts[0] if len(ts) == 1 else base.CompositeTransform(ts)
            fl = Flow(t, B[bn][0](seed + k)).double().eval()
            randomize(fl, seed + k, 0.2)
            warm_up(fl, D, seed + k)
            return fl
        kind = A[seq[0]][1]
        box = None if kind == "R" else (kind[1], kind[2])
        out.append((" ; ".join(seq) + " | " + bn + (" | context" if conditional else ""), make, box, conditional))
    return out


def library_flows(D, seed):
    from nflows.flows.autoregressive import MaskedAutoregressiveFlow
    from nflows.flows.realnvp import SimpleRealNVP
    out = []

    def maf():
        torch.manual_seed(seed)
        fl = MaskedAutoregressiveFlow(D, 8, 2, 1, batch_norm_within_layers=True, batch_norm_between_layers=True).double().eval()
        randomize(fl, seed, 0.2); warm_up(fl, D, seed); return fl
    out.append(("MaskedAutoregressiveFlow(batch norm)", maf, None, False))
    if D == 2:
        def nvp():
            torch.manual_seed(seed)
            fl = SimpleRealNVP(2, 8, 2, 1, batch_norm_within_layers=True, batch_norm_between_layers=True).double().eval()
            randomize(fl, seed, 0.2); warm_up(fl, D, seed); return fl
        out.append(("SimpleRealNVP(batch norm)", nvp, None, False))
    return out


# ------------------------------------------------------------------ quadrature
def gl_nodes(a, b, pieces, order):
    xs, ws = np.polynomial.legendre.leggauss(order)
    edges = np.linspace(a, b, pieces + 1)
    half = 0.5 * (edges[1:] - edges[:-1])
    mid = 0.5 * (edges[1:] + edges[:-1])
    return (mid[:, None] + half[:, None] * xs[None, :]).ravel(), (half[:, None] * ws[None, :]).ravel()


def integrate(fl, ctx, D, box, L, pieces, order=3):
    pieces = int(pieces)
    a, b = (-L, L) if box is None else box
    x, w = gl_nodes(a, b, pieces, order)
    xt = torch.tensor(x, dtype=torch.float64)
    with torch.no_grad():
        if D == 1:
            c = None if ctx is None else ctx.expand(len(x), -1)
            lp = fl.log_prob(xt[:, None], c)
            return float((torch.exp(lp) * torch.tensor(w)).sum()), bool(torch.isnan(lp).any())
        total, nan = 0.0, False
        wt = torch.tensor(w)
        rows = max(1, 400000 // len(x))
        for i in range(0, len(x), rows):
            xi = xt[i:i + rows]
            pts = torch.stack([xi[:, None].expand(-1, len(x)), xt[None, :].expand(len(xi), -1)], -1).reshape(-1, 2)
            c = None if ctx is None else ctx.expand(pts.shape[0], -1)
            lp = fl.log_prob(pts, c).reshape(len(xi), len(x))
            nan = nan or bool(torch.isnan(lp).any())
            total += float((torch.exp(lp) * wt[None, :] * wt[i:i + rows, None]).sum())
        return total, nan


def decide(fl, ctx, D, box, tier):
    """-> (verdict, value, resolution).  The integral is computed on four grids of different step (n, 1.13 n, 1.31 n, 2 n pieces: a
    kink or jump of the density falls differently into the cells of each, so their spread measures the error kinks cause; two
    successive halvings alone can agree by accident) and on a domain 1.5 times as large.  'ok': within 1e-5 + resolution of one,
    resolution <= 1e-3.  'bad': resolution <= 1e-3 and further than 1e-5 + 6 * resolution from one.  Otherwise 'unresolved'
    (very wide or very peaked densities): decides nothing."""
    if D == 1:
        L, n, order = 16.0, 4000, 3
    else:
        L, n, order = 9.0, 48, 4
    budget = 2000000 if D == 1 else (3000000 if tier == "quick" else 6000000)     # points of the finest grid
    for r in range(8):
        dom = (None, L) if box is None else (box, None)
        vals, nan = [], False
        for m in (n, int(1.13 * n) + 1, int(1.31 * n) + 2, 2 * n):
            v, bad = integrate(fl, ctx, D, dom[0], dom[1], m, order)
            vals.append(v)
            nan = nan or bad
        ring = 0.0
        if box is None:
            ic, _ = integrate(fl, ctx, D, None, 1.5 * L, (3 * n) // 2, order)
            ring = ic - vals[0]
        if nan:
            return "nan", vals[-1], float("nan")
        spread = max(vals) - min(vals)
        val, est = vals[-1] + ring, 2 * spread + 2 * abs(ring)
        if est < 2e-6:
            break
        if abs(ring) > spread and L < 30:
            L *= 1.5
            n = (3 * n) // 2
        else:
            n *= 2
        if (2 * n * order) ** D > budget:
            break
    if est <= 1e-3 and abs(val - 1) <= 1e-5 + est:
        return "ok", val, est
    if est <= 1e-3 and abs(val - 1) > 1e-5 + 6 * est:
        return "bad", val, est
    return "unresolved", val, est


def clamp_explains(fl, ctx, D, box, tier):
    """does the deficit disappear when the clamp of every Logit in the flow is (temporarily) moved from eps = 1e-6 to 1e-15?"""
    from nflows.transforms.nonlinearities import Logit
    inner = [m._transform for m in fl.modules() if isinstance(m, Logit)]
    if not inner:
        return False
    old = [m.eps for m in inner]
    try:
        for m in inner:
            m.eps = 1e-15
        v = attempt(decide, fl, ctx, D, box, tier)
    finally:
        for m, e_ in zip(inner, old):
            m.eps = e_
    return v[0] == "ok" and v[1][0] == "ok"


def search(ck, tier, seed):
    unresolved = 0
    for D in (1, 2):
        progs = programs(D, tier, seed) + library_flows(D, seed)
        for name, make, box, needs_ctx in progs:
            r = attempt(make)
            case = {"search": "normalisation", "D": D, "program": name, "seed": seed}
            ck.case(("c03", D, name), nontrivial=True)
            ck.count("D=%d" % D)
            if r[0] != "ok":
                ck.finding("flow:construction-fails:%s" % name, "%s %s" % (r[1], r[2]), case)
                continue
            fl = r[1]
            rows = [None]
            if needs_ctx:
                g = tgen(seed, "c03ctx", name)
                rows = [torch.randn(1, 2, generator=g, dtype=torch.float64) for _ in range(1 if tier == "quick" and D == 2 else 2)]
            for ri, ctx in enumerate(rows):
                # decomposition against an independent value (standard normal base only)
                if "| StandardNormal" in name or "Flow(" in name:
                    g = tgen(seed, "c03x", name)
                    if box is None:
                        x = torch.randn(6, D, generator=g, dtype=torch.float64) * 1.5
                    else:
                        x = box[0] + (box[1] - box[0]) * (0.02 + 0.96 * torch.rand(6, D, generator=g, dtype=torch.float64))
                    c = None if ctx is None else ctx.expand(6, -1)
                    with torch.no_grad():
                        e = attempt(lambda: (fl.log_prob(x, c), fl._transform(x, context=fl._embedding_net(c) if c is not None else None)))
                    if e[0] != "ok":
                        ck.finding("flow:log_prob-fails:%s" % name, "%s %s" % (e[1], e[2]), case)
                        break
                    lp, (zz, lad) = e[1]
                    indep = -0.5 * (zz ** 2).sum(1) - 0.5 * D * LOG2PI + lad
                    if "| StandardNormal" in name and float((lp - indep).abs().max()) > 1e-9 * (1 + float(indep.abs().max())):
                        ck.finding("flow:log_prob-is-not-base-density-plus-logabsdet:%s" % name,
                                   "max difference %g" % float((lp - indep).abs().max()), case)
                v = attempt(decide, fl, ctx, D, box, tier)
                if v[0] != "ok" and v[1] == "InputOutsideDomain":
                    # far out on the quadrature grid a saturated intermediate value (e.g. a spline output of 1 + 1 ulp handed to
                    # Logit) is rejected: a floating-point range limit at extreme inputs, log_prob at ordinary points was
                    # checked above; the case decides nothing
                    unresolved += 1
                    ck.count("unresolved (domain error far out on the grid)")
                    continue
                if v[0] != "ok":
                    ck.finding("flow:log_prob-fails-on-grid:%s" % name, "%s %s" % (v[1], v[2]), case)
                    break
                verdict, val, est = v[1]
                if verdict == "bad" and name.startswith("Sigmoid;Logit ; LeakyReLU(0.2) |") and val < 1:
                    ck.finding("flow:logit-clamp-truncates-support",
                               "Flow([Sigmoid, Logit, LeakyReLU(0.2)], StandardNormal) integrates to %.6f: Logit clamps to [eps, 1-eps], "
                               "so the transform reaches only [-2.76, 13.8] of the base's support" % val, dict(case, row=ri))
                elif verdict == "bad" and clamp_explains(fl, ctx, D, box, tier):
                    # the recorded defect at another call site: with the clamp of every Logit in the flow moved from 1e-6 to
                    # 1e-15 the same flow integrates to one, so the missing mass is what Logit's clamp cuts off - or, when the
                    # clamped stretch lies inside the region the base still weighs, the surplus is the density the log-abs-det formula
                    # keeps reporting where the clamped map is flat
                    ck.finding("flow:logit-clamp-truncates-support",
                               "%s integrates to %.8f; with Logit's clamp at 1e-15 instead of 1e-6 it integrates to one" % (name, val), dict(case, row=ri))
                elif verdict == "bad":
                    ck.finding("flow:density-does-not-integrate-to-one:%s" % name,
                               "D=%d context row %s: integral %.8f (resolution %.1e)" % (D, ri if ctx is not None else None, val, est), dict(case, row=ri))
                elif verdict == "nan":
                    ck.finding("flow:log_prob-nan-inside-data-space:%s" % name, "D=%d" % D, dict(case, row=ri))
                elif verdict == "unresolved":
                    unresolved += 1
                    ck.count("unresolved")
                else:
                    ck.count("agrees with 1 to 1e-5, resolution <= 2e-6" if est <= 2e-6 else
                             "agrees with 1 within resolution <= 1e-4" if est <= 1e-4 else "agrees with 1 within coarse resolution")
    # base distributions with very small and very large scales under a flow (log-std from -9 to 3): each integrated over a window of
    # +-14 standard deviations around its mode, where a Gaussian keeps all but 1e-40 of its mass
    from nflows.flows.base import Flow as _Flow
    from nflows.distributions import normal as _normal
    from nflows.transforms import standard as _standard
    for bname in ("ConditionalDiagonalNormal", "DiagonalNormal"):
        for ls in (-9.0, -7.5, -5.0, 0.0, 3.0):
            mean_ = 0.37
            if bname == "DiagonalNormal":
                base_ = _normal.DiagonalNormal([1]).double()
                with torch.no_grad():
                    base_.mean_.fill_(mean_)
                    base_.log_std_.fill_(ls)
                ctx_ = None
            else:
                base_ = _normal.ConditionalDiagonalNormal([1]).double()
                ctx_ = torch.tensor([[mean_, ls]], dtype=torch.float64)
            fl_ = _Flow(_standard.PointwiseAffineTransform(0.3, 1.7), base_).double().eval()
            sd_ = math.exp(ls)
            xc, half = (mean_ - 0.3) / 1.7, 14.0 * sd_ / 1.7
            xs_ = torch.linspace(xc - half, xc + half, 40001, dtype=torch.float64)
            ck.case(("c03-scale", bname, ls), nontrivial=True)
            case = {"search": "base-scale", "base": bname, "log_std": ls, "seed": seed}
            with torch.no_grad():
                lp_ = attempt(lambda: fl_.log_prob(xs_[:, None], None if ctx_ is None else ctx_.expand(xs_.shape[0], -1)))
            if lp_[0] != "ok":
                ck.finding("flow:log_prob-fails:Flow(affine, %s)" % bname, "log_std %g: %s %s" % (ls, lp_[1], lp_[2]), case)
                continue
            mass = float(torch.trapezoid(torch.exp(lp_[1]), xs_))
            if abs(mass - 1) > 1e-6:
                ck.finding("flow:density-does-not-integrate-to-one:Flow(affine, %s)" % bname,
                           "base log-std %g (std %.3g): integral %.8f over +-14 standard deviations" % (ls, sd_, mass), case)
    # the same one-dimensional flows once more as a RESTORED model: evaluated once, then given another checkpoint through
    # load_state_dict (every floating-point entry of the state dict scaled by 1 + 0.2 * noise): whatever was derived from the old
    # values (a memoised log-abs-det, a cached matrix) must follow, or the density no longer integrates to one
    import catalogue as _cat
    for name, make, box, needs_ctx in programs(1, tier, seed) + library_flows(1, seed):
        r = attempt(make)
        if r[0] != "ok":
            continue
        fl = r[1]
        g = tgen(seed, "c03restore", name)
        ctx = torch.randn(1, 2, generator=g, dtype=torch.float64) if needs_ctx else None
        x = torch.randn(4, 1, generator=g, dtype=torch.float64) if box is None else \
            box[0] + (box[1] - box[0]) * (0.05 + 0.9 * torch.rand(4, 1, generator=g, dtype=torch.float64))
        with torch.no_grad():
            attempt(fl.log_prob, x, None if ctx is None else ctx.expand(4, -1))
        ld = attempt(lambda: fl.load_state_dict(_cat.perturbed_state(fl, seed + 17)))
        if ld[0] != "ok":
            continue
        case = {"search": "normalisation-after-load", "D": 1, "program": name, "seed": seed}
        ck.case(("c03-restored", name), nontrivial=True)
        ck.count("restored")
        v = attempt(decide, fl, ctx, 1, box, tier)
        if v[0] != "ok":
            unresolved += 1
            continue
        verdict, val, est = v[1]
        if verdict == "bad" and name.startswith("Sigmoid;Logit ; LeakyReLU(0.2) |") and val < 1:
            continue        # the recorded Logit clamp finding, reported by the first pass
        if verdict == "bad" and clamp_explains(fl, ctx, 1, box, tier):
            # the recorded defect at another call site (same causal test as in the first pass)
            ck.finding("flow:logit-clamp-truncates-support",
                       "%s (restored) integrates to %.8f; with Logit's clamp at 1e-15 instead of 1e-6 it integrates to one" % (name, val), case)
            continue
        if verdict == "bad":
            ck.finding("flow:density-does-not-integrate-to-one:after-load:%s" % name,
                       "evaluated once, then loaded with another state dict: integral %.8f (resolution %.1e)" % (val, est), case)
        elif verdict == "unresolved":
            unresolved += 1
    # call order: flows whose linear layers keep their matrices (using_cache=True, evaluation mode), SAMPLED first - the inverse
    # direction fills the cache - and integrated afterwards; and the other order
    from nflows.transforms import linear as lin_, lu as lu_, qr as qr_, svd as svd_, base as base_, standard as std_
    from nflows.flows.base import Flow as Flow_
    from nflows.distributions.normal import StandardNormal as SN_
    kinds = (("NaiveLinear", lambda D: lin_.NaiveLinear(D, orthogonal_initialization=False, using_cache=True)),
             ("LULinear", lambda D: lu_.LULinear(D, using_cache=True, identity_init=False)),
             ("QRLinear", lambda D: qr_.QRLinear(D, num_householder=2, using_cache=True)),
             ("SVDLinear", lambda D: svd_.SVDLinear(D, num_householder=2, using_cache=True, identity_init=False)))
    for kname, mk in kinds:
        for order in ("sample-first", "log_prob-first"):
            for D_ in (1, 2) if (kname == "NaiveLinear" and order == "sample-first") else (1,):
                torch.manual_seed(seed % 100000 + 31)
                r = attempt(lambda: Flow_(base_.CompositeTransform([std_.PointwiseAffineTransform(0.2, 0.8), mk(D_)]), SN_([D_])).double())
                if r[0] != "ok":
                    continue
                fl = r[1]
                randomize(fl, seed + 5, 0.4)
                fl.eval()
                name = "affine ; %s(using_cache) | StandardNormal (%s, D=%d)" % (kname, order, D_)
                case = {"search": "normalisation-call-order", "D": D_, "program": name, "seed": seed}
                ck.case(("c03-order", name), nontrivial=True)
                with torch.no_grad():
                    if order == "sample-first":
                        attempt(fl.sample, 3)
                    else:
                        attempt(fl.log_prob, torch.zeros(2, D_, dtype=torch.float64))
                        attempt(fl.sample, 3)
                v = attempt(decide, fl, None, D_, None, tier)
                if v[0] != "ok":
                    unresolved += 1
                    continue
                verdict, val, est = v[1]
                if verdict == "bad":
                    ck.finding("flow:density-does-not-integrate-to-one:call-order:%s" % kname,
                               "%s: integral %.8f (resolution %.1e)" % (name, val, est), case)
                elif verdict == "unresolved":
                    unresolved += 1
    return unresolved


def run(tier, seed):
    ck = Check("C03", tier, seed, areas=[], gen_groups=["Dist", "Nonlin"])
    ck.rule = ("data dimension 1 and 2: every atom of a list of ~40 onto-R library transforms (elementwise, splines with tails / "
               "between Sigmoid and Logit, linear family, normalisation, autoregressive, couplings, bounded-domain first "
               "transforms) alone over a StandardNormal, random compositions of depth 2-3 over StandardNormal / DiagonalNormal / "
               "ConditionalDiagonalNormal / MADEMoG with random parameters and context rows, MaskedAutoregressiveFlow and "
               "SimpleRealNVP; Gauss-Legendre quadrature at three resolutions / two domain sizes, target 1e-5, a case counts "
               "only when the resolutions agree; log_prob against -|z|^2/2 - D/2 ln 2pi + logabsdet; non-trivial = all; "
               "distinct by (dimension, program)")
    ck.assumptions = ["quadrature resolved (three-resolution agreement below 4e-6) for every counted case; unresolved cases are counted in the input distribution and decide nothing"]
    ck.build()
    ck.sample({"generated": "Gen/Dist.v flow_log_prob from Flow._log_prob"})
    u = search(ck, tier, seed)
    ck.sample({"unresolved_quadratures": u})
    return ck.finish()


def replay(payload):
    print("replay:", payload.get("replay"))
    return 0
