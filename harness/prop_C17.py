"""C17: out-of-domain inputs are rejected, in-domain inputs never fail."""
import math

import torch

from common import Check
from implutil import attempt, tgen
import splines_h as sh
import splines_corr
import nonlin_corr


def neighbours(v, dtype):
    t = torch.tensor(v, dtype=dtype)
    inf = torch.tensor(math.inf, dtype=dtype)
    return float(torch.nextafter(t, -inf)), float(t), float(torch.nextafter(t, inf))


def search(ck, tier, seed):
    from nflows.transforms import nonlinearities as nl
    # ---- restricted-domain nonlinearities: inverse directions
    specs = [("Exp", nl.Exp(), 0.0, None, True, False), ("Tanh", nl.Tanh(), -1.0, 1.0, True, True),
             ("Sigmoid", nl.Sigmoid(), 0.0, 1.0, False, False), ("Logit", nl.Logit(), 0.0, 1.0, False, False),
             ("CauchyCDF", nl.CauchyCDF(), 0.0, 1.0, False, False)]
    for name, t, lo, hi, lo_open, hi_open in specs:
        for dtype in (torch.float64, torch.float32):
            fn = t.forward if name == "Logit" else t.inverse
            inside = [0.25, 0.5, 0.75] if hi is not None else [0.5, 1.0, 1e3]
            for bound, is_lo, is_open in ((lo, True, lo_open), (hi, False, hi_open)):
                if bound is None:
                    continue
                below, at, above = neighbours(bound, dtype)
                cases = [(below, not is_lo), (at, not is_open), (above, is_lo)]
                for val, ok in cases:
                    for pos in range(3):
                        for bsz in (1, 3):
                            row = list(inside[:3])
                            row[pos] = val
                            x = torch.tensor([row] * bsz, dtype=dtype)
                            if bsz > 1:
                                x[1:] = torch.tensor(inside[:3], dtype=dtype)
                            r = attempt(fn, x)
                            ck.case(("c17-nl", name, str(dtype), val, pos, bsz), nontrivial=True)
                            case = {"search": "nonlin", "transform": name, "dtype": str(dtype), "value": val, "position": pos, "batch": bsz}
                            if ok:
                                if r[0] != "ok":
                                    ck.finding("domain:in-domain-rejected:%s" % name, "%s(%r) (%s) raised %s" % (name, val, dtype, r[1:]), case)
                                elif not bool(torch.isfinite(r[1][0]).all() and torch.isfinite(r[1][1]).all()):
                                    ck.finding("domain:in-domain-non-finite:%s" % name, "%s(%r) (%s) -> %s" % (name, val, dtype, r[1][0].tolist()), case)
                            else:
                                if not (r[0] == "err" and r[1] == "InputOutsideDomain"):
                                    ck.finding("domain:out-of-domain-accepted:%s" % name,
                                               "%s(%r) (%s) -> %s" % (name, val, dtype, r[1:] if r[0] == "err" else r[1][0].tolist()), case)
    # ---- bounded splines, both directions, boxes of any magnitude, both dtypes
    boxes = [(0.0, 1.0, 0.0, 1.0), (-1.0, 1.0, -1.0, 1.0), (0.0, 2.0, -1.0, 0.5), (-32.0, 32.0, -32.0, 32.0), (-1e3, 1e3, -1e3, 1e3),
             (-1e6, 1e6, -1e6, 1e6), (31.0, 64.0, -64.0, -31.0),
             # output intervals with an end at exactly zero over input intervals that have none there
             (-2.0, 2.0, 0.0, 1.0), (-3.0, -1.0, -5.0, 0.0), (1.0, 4.0, 0.0, 0.5), (-4.0, -1.0, -0.5, 0.0)]
    Ks = [1, 4] if tier == "quick" else [1, 2, 4, 8]
    for fam in sh.FAMILIES:
        for K in Ks:
            for bi, box in enumerate(boxes):
                for dtype in (torch.float64, torch.float32):
                    g = tgen(seed, "c17", fam, K, bi)
                    params = sh.gen_params(fam, K, False, "normal", g, dtype=dtype)
                    for inverse in (False, True):
                        lo, hi = (box[2], box[3]) if inverse else (box[0], box[1])
                        mid = (lo + hi) / 2
                        for bound, is_lo in ((lo, True), (hi, False)):
                            below, at, above = neighbours(bound, dtype)
                            for val, ok in ((below, not is_lo), (at, True), (above, is_lo)):
                                for pos in (0, 2):
                                    x = torch.tensor([mid, mid, mid], dtype=dtype)
                                    x[pos] = val
                                    r = sh.call(fam, inverse, x, params, box=box)
                                    ck.case(("c17-spline", fam, K, bi, str(dtype), inverse, val, pos), nontrivial=True)
                                    case = {"search": "spline", "family": fam, "K": K, "box": box, "dtype": str(dtype), "inverse": inverse,
                                            "value": val, "position": pos, "seed": seed}
                                    tag = "%s:%s" % (fam, "inverse" if inverse else "forward")
                                    if ok:
                                        if r[0] != "ok":
                                            ck.finding("domain:in-domain-rejected:%s:%s" % (tag, r[1]),
                                                       "box %s %s: input %r raised %s %s" % (box, dtype, val, r[1], r[2]), case)
                                        elif not bool(torch.isfinite(r[1][0]).all() and torch.isfinite(r[1][1]).all()):
                                            big = "large-box" if max(abs(v) for v in box) >= 1e3 else "moderate-box"
                                            ck.finding("domain:in-domain-non-finite:%s:%s:%s" % (tag, str(dtype).split(".")[1], big),
                                                       "box %s %s: input %r -> %s / %s" % (box, dtype, val, r[1][0].tolist(), r[1][1].tolist()), case)
                                    elif not (r[0] == "err" and r[1] == "InputOutsideDomain"):
                                        ck.finding("domain:out-of-domain-accepted:%s" % tag,
                                                   "box %s %s: input %r -> %s" % (box, dtype, val, r[1:] if r[0] == "err" else r[1][0].tolist()), case)
    # ---- unconstrained splines: values exactly on a tail bound of any magnitude, any feature position / batch size
    for fam in sh.FAMILIES:
        for B in (0.1, 0.5, 0.7, 1.0, 1.1, 3.0, 3.3, 8.0, 31.0, 32.0, 64.0, 1e3, 1e6):     # 0.1 / 1.1 round up in float32, 0.7 / 3.3 down
            for dtype in (torch.float64, torch.float32):
                K = 4
                g = tgen(seed, "c17-tails", fam, B)
                params = sh.gen_params(fam, K, True, "normal", g, dtype=dtype)
                for inverse in (False, True):
                    for bsz in (1, 5):
                        vals = [B, -B, float(neighbours(B, dtype)[0]), float(neighbours(B, dtype)[2]), 0.0][:bsz] if bsz > 1 else [B]
                        x = torch.tensor(vals, dtype=dtype)
                        r = sh.call(fam, inverse, x, params, tail_bound=B)
                        ck.case(("c17-tails", fam, B, str(dtype), inverse, bsz), nontrivial=True)
                        case = {"search": "tails", "family": fam, "tail_bound": B, "dtype": str(dtype), "inverse": inverse, "values": vals}
                        tag = "%s:%s" % (fam, "inverse" if inverse else "forward")
                        if r[0] != "ok":
                            ck.finding("domain:tail-bound-input-fails:%s:%s" % (tag, r[1]),
                                       "tail_bound %g %s inputs %s raised %s: %s" % (B, dtype, vals, r[1], r[2]), case)
                        elif not bool(torch.isfinite(r[1][0]).all() and torch.isfinite(r[1][1]).all()):
                            big = "large-bound" if B >= 1e3 else "moderate-bound"
                            ck.finding("domain:tail-bound-input-non-finite:%s:%s:%s" % (tag, str(dtype).split(".")[1], big),
                                       "tail_bound %g %s inputs %s -> %s / %s" % (B, dtype, vals, r[1][0].tolist(), r[1][1].tolist()), case)


def integer_bounds(ck, tier, seed):
    """float32 inputs exactly on (and one ulp inside) the two ends of [-B, B] and of non-symmetric integer boxes, for many integer
    B: a rescaling whose constants round the wrong way sends an end point just outside [0, 1] (bin index -1 or K)"""
    Bs = range(1, 129) if tier == "quick" else range(1, 1025)
    inf = torch.tensor(math.inf)
    for fam in sh.FAMILIES:
        g = tgen(seed, "c17-int", fam)
        params_t = sh.gen_params(fam, 10 if fam == "linear" else 5, True, "normal", g, dtype=torch.float32)
        params_b = sh.gen_params(fam, 10 if fam == "linear" else 5, False, "normal", g, dtype=torch.float32)
        for B in Bs:
            b = torch.tensor(float(B))
            x = torch.stack([-b, torch.nextafter(-b, inf), torch.nextafter(b, -inf), b])
            for inverse in (False, True):
                r = sh.call(fam, inverse, x, params_t, tail_bound=float(B))
                ck.case(("c17-int-tails", fam, B, inverse), nontrivial=True)
                if r[0] != "ok" or not bool(torch.isfinite(r[1][0]).all() and torch.isfinite(r[1][1]).all()):
                    ck.finding("domain:tail-bound-input-fails:%s:%s:%s" % (fam, "inverse" if inverse else "forward", r[1] if r[0] != "ok" else "non-finite"),
                               "float32, tail_bound %d, inputs %s: %s" % (B, x.tolist(), r[1:] if r[0] != "ok" else r[1][0].tolist()),
                               {"search": "integer-tail-bounds", "family": fam, "tail_bound": B, "inverse": inverse})
                    break
        for lo, hi in ((-23.0, 10.0), (-5.0, 1.0), (-7.0, 3.0), (3.0, 11.0), (-100.0, 7.0), (0.1, 0.3), (-13.0, -6.0)):
            box = (lo, hi, lo, hi)
            l, h = torch.tensor(lo), torch.tensor(hi)
            x = torch.stack([l, torch.nextafter(l, inf), torch.nextafter(h, -inf), h])
            for inverse in (False, True):
                r = sh.call(fam, inverse, x, params_b, box=box)
                ck.case(("c17-int-box", fam, lo, hi, inverse), nontrivial=True)
                if r[0] != "ok" or not bool(torch.isfinite(r[1][0]).all() and torch.isfinite(r[1][1]).all()):
                    ck.finding("domain:in-domain-rejected:%s:%s:%s" % (fam, "inverse" if inverse else "forward", r[1] if r[0] != "ok" else "non-finite"),
                               "float32, box [%g, %g], inputs on / next to the ends: %s" % (lo, hi, r[1:] if r[0] != "ok" else r[1][0].tolist()),
                               {"search": "integer-boxes", "family": fam, "box": box, "inverse": inverse})


def sigmoid_end_points(ck, seed):
    """Sigmoid.inverse / Logit on the closed unit interval, end points included, for clamps away from the default: finite outputs
    and log-dets (float64 inputs resolve every eps used; float32 inputs are used with the default only)"""
    from nflows.transforms import nonlinearities as nl
    for eps in (1e-6, 1e-9, 1e-12):
        for dtype in ((torch.float64, torch.float32) if eps == 1e-6 else (torch.float64,)):
            for tname, mk, call in (("Sigmoid(eps=%g).inverse" % eps, lambda: nl.Sigmoid(eps=eps), "inverse"),
                                    ("Logit(eps=%g).forward" % eps, lambda: nl.Logit(eps=eps), "forward"),
                                    ("Sigmoid(temperature 2, eps=%g).inverse" % eps, lambda: nl.Sigmoid(temperature=2.0, eps=eps), "inverse")):
                t = mk()
                x = torch.tensor([[0.0, 0.5, 1.0], [1.0, 0.25, 0.0]], dtype=dtype)
                ck.case(("sigmoid-ends", tname, str(dtype)), nontrivial=True)
                case = {"search": "sigmoid-end-points", "transform": tname, "dtype": str(dtype)}
                with torch.no_grad():
                    r = attempt(getattr(t, call), x)
                if r[0] != "ok":
                    ck.finding("domain:in-domain-rejected:%s" % tname.split("(")[0], "%s on %s inputs [0, 0.5, 1]: %s %s" % (tname, dtype, r[1], r[2]), case)
                elif not bool(torch.isfinite(r[1][0]).all() and torch.isfinite(r[1][1]).all()):
                    ck.finding("domain:in-domain-non-finite:%s" % tname.split("(")[0],
                               "%s on %s inputs [0, 0.5, 1] -> %s" % (tname, dtype, r[1][0][0].tolist()), case)


def run(tier, seed):
    ck = Check("C17", tier, seed, areas=["splines", "nonlin"],
               gen_groups=["Nonlin", "SplineRQ", "SplineLinear", "SplineQuadratic", "SplineCubic", "Utils"])
    ck.rule = ("domain-restricted transforms x directions x inputs on / one ulp inside / one ulp outside every boundary, "
               "float32 and float64, boxes and tail bounds from 0.5 to 1e6, the offending element at different feature "
               "positions and batch sizes; non-trivial = all; distinct by (transform, dtype, value, position, batch)")
    ck.build()
    if ck.have_driver("nonlin"):
        nonlin_corr.correspondence(ck, ck.driver("nonlin"), tier, seed)
    if ck.have_driver("splines"):
        splines_corr.correspondence(ck, ck.driver("splines"), tier, seed)
    search(ck, tier, seed)
    integer_bounds(ck, tier, seed)
    sh.module_double_inputs(ck, seed, "domain")
    sigmoid_end_points(ck, seed)
    return ck.finish()


def replay(payload):
    print("replay:", payload.get("replay"))
    return 0
