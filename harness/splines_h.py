"""Shared harness code for the four spline families (used by C01, C02, C09, C17, C19)."""
import math

import torch

from implutil import attempt, rng, tgen, close

FAMILIES = ["linear", "quadratic", "cubic", "rq"]


def spline_fn(family, unconstrained):
    from nflows.transforms import splines
    return {
        ("linear", False): splines.linear_spline, ("linear", True): splines.unconstrained_linear_spline,
        ("quadratic", False): splines.quadratic_spline, ("quadratic", True): splines.unconstrained_quadratic_spline,
        ("cubic", False): splines.cubic_spline, ("cubic", True): splines.unconstrained_cubic_spline,
        ("rq", False): splines.rational_quadratic_spline, ("rq", True): splines.unconstrained_rational_quadratic_spline,
    }[(family, unconstrained)]


def param_shapes(family, K, unconstrained):
    """ordered (name, length) of the unnormalised parameter vectors"""
    if family == "linear":
        return [("unnormalized_pdf", K)]
    if family == "quadratic":
        return [("unnormalized_widths", K), ("unnormalized_heights", K - 1 if unconstrained else K + 1)]
    if family == "cubic":
        return [("unnormalized_widths", K), ("unnormalized_heights", K), ("unnorm_derivatives_left", 1),
                ("unnorm_derivatives_right", 1)]
    return [("unnormalized_widths", K), ("unnormalized_heights", K),
            ("unnormalized_derivatives", K - 1 if unconstrained else K + 1)]


PARAM_KINDS = ["zeros", "normal", "wide", "onehot", "small"]


def gen_params(family, K, unconstrained, kind, g, dtype=torch.float64):
    out = {}
    for name, n in param_shapes(family, K, unconstrained):
        if kind == "zeros":
            v = torch.zeros(n, dtype=dtype)
        elif kind == "normal":
            v = torch.randn(n, generator=g, dtype=torch.float64).to(dtype)
        elif kind == "wide":
            v = (torch.randn(n, generator=g, dtype=torch.float64) * 4.0).to(dtype)
        elif kind == "small":
            v = (torch.randn(n, generator=g, dtype=torch.float64) * 0.05).to(dtype)
        else:  # one-hot +-12
            v = torch.zeros(n, dtype=dtype)
            if n:
                v[int(torch.randint(0, n, (1,), generator=g))] = 12.0 if float(torch.rand(1, generator=g)) < 0.5 else -12.0
        out[name] = v
    return out


def call(family, inverse, x, params, box=None, tail_bound=None, extra=None):
    """x: 1-D tensor of inputs sharing one parameter row.  box = (left, right, bottom, top) for the bounded
    spline, tail_bound for the unconstrained one.  -> ('ok', (y, lad)) | ('err', kind, msg)"""
    fn = spline_fn(family, tail_bound is not None)
    kw = {k: v[None, :].expand(x.shape[0], -1).clone() for k, v in params.items()}
    if tail_bound is not None:
        kw.update(tails="linear", tail_bound=tail_bound)
    else:
        kw.update(left=box[0], right=box[1], bottom=box[2], top=box[3])
    if extra:
        kw.update(extra)
    return attempt(fn, inputs=x.clone(), inverse=inverse, **kw)


def knots_x(family, params, box, mbw=1e-3):
    """input-side knots of the bounded spline as the implementation places them (float64)"""
    K = params[param_shapes(family, 1, False)[0][0]].shape[0]
    left, right = box[0], box[1]
    if family == "linear":
        return [left + (right - left) * i / K for i in range(K + 1)]
    uw = params["unnormalized_widths"].double()
    w = torch.softmax(uw, -1)
    w = mbw + (1 - mbw * K) * w
    cw = torch.cumsum(w, -1)
    cw = torch.cat([torch.zeros(1, dtype=torch.float64), cw])
    cw = (right - left) * cw + left
    cw[0], cw[-1] = left, right
    return cw.tolist()


def grid(family, params, box, dtype=torch.float64, per_bin=3, mbw=1e-3):
    """sorted inputs concentrated on knots, their float neighbours, end points and bin interiors"""
    ks = knots_x(family, params, box, mbw)
    pts = set()
    lo, hi = box[0], box[1]
    inf = torch.tensor(math.inf, dtype=dtype)
    for k in ks:
        t = torch.tensor(k, dtype=dtype)
        for v in (t, torch.nextafter(t, inf), torch.nextafter(t, -inf)):
            fv = float(v)
            if lo <= fv <= hi:
                pts.add(fv)
    for a, b in zip(ks[:-1], ks[1:]):
        for j in range(1, per_bin + 1):
            fv = float(torch.tensor(a + (b - a) * j / (per_bin + 1), dtype=dtype))
            if lo <= fv <= hi:
                pts.add(fv)
    pts.add(float(torch.tensor(lo, dtype=dtype)))
    pts.add(float(torch.tensor(hi, dtype=dtype)))
    return torch.tensor(sorted(pts), dtype=dtype)


BOXES = [(0.0, 1.0, 0.0, 1.0), (-1.0, 1.0, -1.0, 1.0), (-3.0, 3.0, -3.0, 3.0), (0.0, 2.0, -1.0, 0.5), (-2.0, 5.0, 1.0, 2.0)]


# non-default minimum bin sizes / derivative (width and height deliberately different)
MINS = {"linear": [None],
        "quadratic": [None, dict(min_bin_width=0.02, min_bin_height=0.005), dict(min_bin_width=0.002, min_bin_height=0.05)],
        "cubic": [None, dict(min_bin_width=0.02, min_bin_height=0.005), dict(min_bin_width=0.002, min_bin_height=0.03)],
        "rq": [None, dict(min_bin_width=0.02, min_bin_height=0.005, min_derivative=0.05),
               dict(min_bin_width=0.001, min_bin_height=0.06, min_derivative=0.01)]}     # both orders: height minimum below / above the width minimum


def modules(seed):
    """the four Piecewise*CDF modules (parameters in single precision, as constructed), bounded and with linear tails"""
    from nflows.transforms import nonlinearities as nl
    out = []
    for fam, cls in (("linear", nl.PiecewiseLinearCDF), ("quadratic", nl.PiecewiseQuadraticCDF), ("cubic", nl.PiecewiseCubicCDF),
                     ("rq", nl.PiecewiseRationalQuadraticCDF)):
        for tails, B in ((None, 1.0), ("linear", 3.0), ("linear", 0.7)):
            torch.manual_seed(seed % 100000 + 5)
            out.append((fam, tails, B, cls([3], num_bins=4, tails=tails, tail_bound=B)))
    return out


def module_double_inputs(ck, seed, what):
    """double-precision inputs handed to the (single-precision) modules.  what = "tails": outside the tail bound the transformer is
    exactly the identity on the numbers it was given, and an input just outside the bound is outside; what = "domain": an input just
    outside the box of a bounded module is rejected.  Calls the unchanged code rejects for mixed dtypes are counted, not reported."""
    for fam, tails, B, t in modules(seed):
        for dname in ("forward", "inverse"):
            tag = "%s:%s" % (fam, dname)
            if what == "tails" and tails:
                x = torch.tensor([[12345.678901234, -B * (1 + 1e-9), 0.5 * B], [B * (1 + 1e-9), 1e6 + 0.123456789, -0.2 * B], [-B - 1e-7, 2.0 * B + 1e-9, 0.0]],
                                 dtype=torch.float64)
                ck.case(("module-double", fam, B, dname), nontrivial=True)
                case = {"search": "module-double-inputs", "family": fam, "tail_bound": B, "direction": dname, "inputs": x.tolist(), "seed": seed}
                with torch.no_grad():
                    r = attempt(getattr(t, dname), x)
                if r[0] != "ok":
                    ck.count("module-double-inputs-raise:%s:%s" % (tag, r[1]))
                    continue
                y, lad = r[1]
                out = x.abs() > B
                if not torch.equal(y[out].double(), x[out]):
                    i = int(torch.nonzero((y.double() != x) & out)[0][0])
                    ck.finding("spline-tails:not-identity-outside:%s" % tag,
                               "Piecewise%sCDF module (tail bound %g), float64 inputs: rows %s -> %s outside the bound"
                               % (fam, B, x[i].tolist(), y[i].tolist()), case)
                    continue
                # the log-determinant: only the inside elements contribute
                with torch.no_grad():
                    xin = torch.where(out, torch.full_like(x, 10.0 * B), x)
                    r2 = attempt(getattr(t, dname), xin)
                if r2[0] == "ok" and not close(r2[1][1].double().tolist(), lad.double().tolist(), 1e-5):
                    ck.finding("spline-tails:logabsdet-outside-not-zero:%s" % tag, "float64 inputs %s" % x.tolist(), case)
            if what == "domain" and not tails:
                for val in (1.0 + 1e-9, -1e-50, 1.0 + 3e-8, -1e-12):
                    for pos in (0, 2):
                        x = torch.tensor([[0.5, 0.25, 0.75], [0.1, 0.2, 0.3]], dtype=torch.float64)
                        x[1, pos] = val
                        ck.case(("module-double-domain", fam, dname, val, pos), nontrivial=True)
                        case = {"search": "module-double-inputs", "family": fam, "direction": dname, "value": val, "position": pos, "seed": seed}
                        with torch.no_grad():
                            r = attempt(getattr(t, dname), x)
                        if not (r[0] == "err" and r[1] == "InputOutsideDomain"):
                            if r[0] == "err":
                                ck.count("module-double-inputs-raise:%s:%s" % (tag, r[1]))
                                continue
                            ck.finding("domain:out-of-domain-accepted:%s" % tag,
                                       "Piecewise%sCDF module on [0,1], float64 input %r at position %d -> %s" % (fam, val, pos, r[1][0][1].tolist()), case)
