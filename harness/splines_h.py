"""Shared harness code for the four spline families (used by C01, C02, C09, C17, C19)."""
import math

import torch

from implutil import attempt, rng, tgen, close

FAMILIES = ["linear", "quadratic", "cubic", "rq"]


def spline_fn(family, unconstrained):
    from nflows.transforms import splines
    return {
        ("linear", False): splines.linear_spline, ("linear", True): splines.unconstrained_linear_spline,
        ("quadratic", False): splines.quadratic_spline, ("quadratic", True): splines.unconstrained_quadratic_spline,
        ("cubic", False): splines.cubic_spline, ("cubic", True): splines.unconstrained_cubic_spline,
        ("rq", False): splines.rational_quadratic_spline, ("rq", True): splines.unconstrained_rational_quadratic_spline,
    }[(family, unconstrained)]


def param_shapes(family, K, unconstrained):
    """ordered (name, length) of the unnormalised parameter vectors"""
    if family == "linear":
        return [("unnormalized_pdf", K)]
    if family == "quadratic":
        return [("unnormalized_widths", K), ("unnormalized_heights", K - 1 if unconstrained else K + 1)]
    if family == "cubic":
        return [("unnormalized_widths", K), ("unnormalized_heights", K), ("unnorm_derivatives_left", 1),
                ("unnorm_derivatives_right", 1)]
    return [("unnormalized_widths", K), ("unnormalized_heights", K),
            ("unnormalized_derivatives", K - 1 if unconstrained else K + 1)]


PARAM_KINDS = ["zeros", "normal", "wide", "onehot", "small"]


def gen_params(family, K, unconstrained, kind, g, dtype=torch.float64):
    out = {}
    for name, n in param_shapes(family, K, unconstrained):
        if kind == "zeros":
            v = torch.zeros(n, dtype=dtype)
        elif kind == "normal":
            v = torch.randn(n, generator=g, dtype=torch.float64).to(dtype)
        elif kind == "wide":
            v = (torch.randn(n, generator=g, dtype=torch.float64) * 4.0).to(dtype)
        elif kind == "small":
            v = (torch.randn(n, generator=g, dtype=torch.float64) * 0.05).to(dtype)
        else:  # one-hot +-12
            v = torch.zeros(n, dtype=dtype)
            if n:
                v[int(torch.randint(0, n, (1,), generator=g))] = 12.0 if float(torch.rand(1, generator=g)) < 0.5 else -12.0
        out[name] = v
    return out


def call(family, inverse, x, params, box=None, tail_bound=None, extra=None):
    """x: 1-D tensor of inputs sharing one parameter row.  box = (left, right, bottom, top) for the bounded
    spline, tail_bound for the unconstrained one.  -> ('ok', (y, lad)) | ('err', kind, msg)"""
    fn = spline_fn(family, tail_bound is not None)
    kw = {k: v[None, :].expand(x.shape[0], -1).clone() for k, v in params.items()}
    if tail_bound is not None:
        kw.update(tails="linear", tail_bound=tail_bound)
    else:
        kw.update(left=box[0], right=box[1], bottom=box[2], top=box[3])
    if extra:
        kw.update(extra)
    return attempt(fn, inputs=x.clone(), inverse=inverse, **kw)


def knots_x(family, params, box, mbw=1e-3):
    """input-side knots of the bounded spline as the implementation places them (float64)"""
    K = params[param_shapes(family, 1, False)[0][0]].shape[0]
    left, right = box[0], box[1]
    if family == "linear":
        return [left + (right - left) * i / K for i in range(K + 1)]
    uw = params["unnormalized_widths"].double()
    w = torch.softmax(uw, -1)
    w = mbw + (1 - mbw * K) * w
    cw = torch.cumsum(w, -1)
    cw = torch.cat([torch.zeros(1, dtype=torch.float64), cw])
    cw = (right - left) * cw + left
    cw[0], cw[-1] = left, right
    return cw.tolist()


def grid(family, params, box, dtype=torch.float64, per_bin=3, mbw=1e-3):
    """sorted inputs concentrated on knots, their float neighbours, end points and bin interiors"""
    ks = knots_x(family, params, box, mbw)
    pts = set()
    lo, hi = box[0], box[1]
    inf = torch.tensor(math.inf, dtype=dtype)
    for k in ks:
        t = torch.tensor(k, dtype=dtype)
        for v in (t, torch.nextafter(t, inf), torch.nextafter(t, -inf)):
            fv = float(v)
            if lo <= fv <= hi:
                pts.add(fv)
    for a, b in zip(ks[:-1], ks[1:]):
        for j in range(1, per_bin + 1):
            fv = float(torch.tensor(a + (b - a) * j / (per_bin + 1), dtype=dtype))
            if lo <= fv <= hi:
                pts.add(fv)
    pts.add(float(torch.tensor(lo, dtype=dtype)))
    pts.add(float(torch.tensor(hi, dtype=dtype)))
    return torch.tensor(sorted(pts), dtype=dtype)


BOXES = [(0.0, 1.0, 0.0, 1.0), (-1.0, 1.0, -1.0, 1.0), (-3.0, 3.0, -3.0, 3.0), (0.0, 2.0, -1.0, 0.5), (-2.0, 5.0, 1.0, 2.0)]


# non-default minimum bin sizes / derivative (width and height deliberately different)
MINS = {"linear": [None],
        "quadratic": [None, dict(min_bin_width=0.02, min_bin_height=0.005), dict(min_bin_width=0.002, min_bin_height=0.05)],
        "cubic": [None, dict(min_bin_width=0.02, min_bin_height=0.005), dict(min_bin_width=0.002, min_bin_height=0.03)],
        "rq": [None, dict(min_bin_width=0.02, min_bin_height=0.005, min_derivative=0.05),
               dict(min_bin_width=0.001, min_bin_height=0.06, min_derivative=0.01)]}     # both orders: height minimum below / above the width minimum
