"""C10: weight caching in linear transforms is transparent over every history."""
import copy
import itertools
import math

import torch

from common import Check, Z, z
from implutil import attempt, rng, tgen

OPS = ["train", "eval", "use_cache(False)", "use_cache(True)", "forward", "inverse", "forward+backward",
       "inverse+backward", "update", "load_state_dict", "float()", "double()"]
TRAIN, EVAL, UC0, UC1, FWD, INV, FWDB, INVB, UPD, LOAD, TO32, TO64 = range(12)
W = 17  # ints per step in the driver's answer


def classes():
    from nflows.transforms import lu, qr, svd, linear, conv
    return [
        ("LULinear", lambda u: lu.LULinear(3, using_cache=u, identity_init=False), False),
        ("QRLinear", lambda u: qr.QRLinear(3, num_householder=2, using_cache=u), False),
        ("SVDLinear", lambda u: svd.SVDLinear(3, num_householder=2, using_cache=u, identity_init=False), False),
        ("NaiveLinear", lambda u: linear.NaiveLinear(3, orthogonal_initialization=False, using_cache=u), False),
        ("OneByOneConvolution", lambda u: conv.OneByOneConvolution(3, using_cache=u, identity_init=False), True),
        # constructor options away from their defaults: every cached quantity has to be built with the configured values
        ("SVDLinear(eps=0.05)", lambda u: svd.SVDLinear(3, num_householder=2, using_cache=u, identity_init=False, eps=0.05), False),
        ("LULinear(eps=0.05)", lambda u: lu.LULinear(3, using_cache=u, identity_init=False, eps=0.05), False),
        ("SVDLinear(eps=1e-6, four reflections)", lambda u: svd.SVDLinear(3, num_householder=4, using_cache=u, identity_init=False, eps=1e-6), False),
    ]


def randomize(t, g):
    with torch.no_grad():
        for prm in t.parameters():
            prm.copy_((torch.randn(prm.shape, generator=g) * 0.6).to(prm.dtype))


class Lockstep:
    """drive a real transform through a history; after each step report what happened"""

    def __init__(self, name, ctor, image, u, seed):
        self.name, self.image = name, image
        self.g = tgen(seed, name, "ls")
        torch.manual_seed(seed)
        self.t = ctor(u)
        randomize(self.t, self.g)
        self.ctor = ctor
        self.snap = {0: copy.deepcopy(self.t.state_dict())}
        self.ver = 0
        self.nextver = 1
        self.dtype = torch.float32

    def x(self):
        shape = (2, 3, 2, 2) if self.image else (2, 3)
        return torch.randn(*shape, generator=self.g).to(self.dtype)

    def twin(self, ver, dtype):
        """uncached transform holding parameter version `ver` in `dtype` (bias: current)"""
        tw = self.ctor(False)
        sdt = next(v.dtype for v in self.snap[ver].values() if v.is_floating_point())
        tw.to(sdt)   # load without rounding the stored values
        tw.load_state_dict(self.snap[ver])
        if hasattr(self.t, "permutation"):
            tw.permutation._permutation.copy_(self.t.permutation._permutation)
        tw = tw.to(dtype)
        tw.eval()
        return tw

    def apply(self, op):
        """-> dict(kind=none|out|err, y, lad, flags)"""
        t = self.t
        res = {"kind": "none"}
        if op == TRAIN:
            t.train()
        elif op == EVAL:
            t.eval()
        elif op in (UC0, UC1):
            t.use_cache(op == UC1)
        elif op == UPD:
            with torch.no_grad():
                for prm in t.parameters():
                    prm.add_((torch.randn(prm.shape, generator=self.g) * 0.4).to(prm.dtype))
            self.ver = self.nextver
            self.nextver += 1
            self.snap[self.ver] = copy.deepcopy(t.state_dict())
        elif op == LOAD:
            other = self.ctor(False)
            randomize(other, self.g)
            sd = {k: v.to(self.dtype) if v.is_floating_point() else v for k, v in other.state_dict().items()}
            child = [k for k in sd if "." in k and not k.startswith("permutation")]
            if child and self.nextver % 2 == 1:
                # every other load changes ONLY the parameters held by child modules (the Householder vectors of QR / SVD):
                # the transform's own entries keep their current values
                cur = t.state_dict()
                sd = {k: (v if k in child else cur[k].clone()) for k, v in sd.items()}
            if hasattr(t, "permutation"):
                sd["permutation._permutation"] = t.permutation._permutation.clone()
            t.load_state_dict(sd)
            self.ver = self.nextver
            self.nextver += 1
            self.snap[self.ver] = copy.deepcopy(t.state_dict())
        elif op in (TO32, TO64):
            lossy = self.dtype == torch.float64 and op == TO32
            self.dtype = torch.float32 if op == TO32 else torch.float64
            t.to(self.dtype)
            if lossy:
                # float64 -> float32 rounds the parameters: from here on "the current parameters" are the rounded ones
                self.snap[self.ver] = copy.deepcopy(t.state_dict())
        else:
            inv = op in (INV, INVB)
            back = op in (FWDB, INVB)
            x = self.x()
            if back:
                x.requires_grad_(True)
            try:
                y, lad = (t.inverse(x) if inv else t(x))
                if back:
                    (y.sum() + lad.sum()).backward()
                    res["gradx"] = x.grad.detach().clone()
                res.update(kind="out", y=y.detach().clone(), lad=lad.detach().clone(), x=x.detach(), inv=inv)
                # the caller owns what it was handed: it may accumulate into the returned tensors in place (as
                # CouplingTransform.inverse does with an unconditional transform's log-det); later passes must not notice
                lad.detach().add_(7.0)
                y.detach().mul_(-3.0)
            except RuntimeError as ex:
                res.update(kind="err", msg=str(ex)[:160], x=x.detach(), inv=inv)
        c = t.cache
        res["flags"] = [int(t.training), int(t.using_cache), int(c.weight is None), int(c.inverse is None),
                        int(c.logabsdet is None)]
        return res

    def expected(self, res, mv, md, lv, ld):
        """outputs recomputed from version mv (dtype md) for the matrix and lv (ld) for the log-det"""
        dts = {32: torch.float32, 64: torch.float64}
        tm = self.twin(mv, dts[md])
        tl = self.twin(lv, dts[ld])
        cur = self.twin(self.ver, self.dtype)
        x = res["x"]
        with torch.no_grad():
            if self.image:
                b, c, h, w = x.shape
                if res["inv"]:
                    xi = x.permute(0, 2, 3, 1).reshape(-1, c)
                    y = torch.nn.functional.linear(xi - cur.bias, tm.weight_inverse().to(x.dtype))
                    y = y.reshape(b, h, w, c).permute(0, 3, 1, 2)
                    y, _ = cur.permutation.inverse(y)
                    lad = -tl.logabsdet().to(x.dtype) * h * w * torch.ones(b, dtype=x.dtype)
                else:
                    xp, _ = cur.permutation(x)
                    xi = xp.permute(0, 2, 3, 1).reshape(-1, c)
                    y = torch.nn.functional.linear(xi, tm.weight().to(x.dtype), cur.bias)
                    y = y.reshape(b, h, w, c).permute(0, 3, 1, 2)
                    lad = tl.logabsdet().to(x.dtype) * h * w * torch.ones(b, dtype=x.dtype)
            else:
                if res["inv"]:
                    y = torch.nn.functional.linear(x - cur.bias, tm.weight_inverse().to(x.dtype))
                    lad = -tl.logabsdet().to(x.dtype) * torch.ones(x.shape[0], dtype=x.dtype)
                else:
                    y = torch.nn.functional.linear(x, tm.weight().to(x.dtype), cur.bias)
                    lad = tl.logabsdet().to(x.dtype) * torch.ones(x.shape[0], dtype=x.dtype)
        return y, lad


def tol(dtype):
    return dict(atol=2e-4, rtol=2e-4) if dtype == torch.float32 else dict(atol=1e-9, rtol=1e-9)


def run_history(ck, drv, name, ctor, image, u, ops, seed, mm):
    ls = Lockstep(name, ctor, image, u, seed)
    model = drv.call("run", z(int(u)), Z(ops))[0] if drv is not None else None
    for k, op in enumerate(ops):
        res = ls.apply(op)
        hist = {"class": name, "using_cache_ctor": bool(u), "ops": [OPS[o] for o in ops[:k + 1]], "codes": ops[:k + 1],
                "seed": seed}
        if model is not None:
            row = model[k * W:(k + 1) * W]
            okind, mv, md, lv, ld = row[0:5]
            rkind = row[5]
            flags = row[10:15]
            kinds = {0: "none", 1: "out", 2: "err"}
            bad = None
            if kinds[okind] == "err" and res["kind"] == "out" and op in (FWDB, INVB):
                # the model keeps ONE liveness flag per cached entry and predicts "second backward through a freed graph";
                # autograd raises only if a node of that graph saved tensors (QRLinear's logabsdet = sum(parameter) does
                # not), so the model over-approximates this failure: accepted, values are not compared for this step
                ck.count("model predicts a double-backward error, autograd has nothing freed to miss")
            elif kinds[okind] != res["kind"]:
                bad = "outcome: model %s, implementation %s %s" % (kinds[okind], res["kind"], res.get("msg", ""))
            elif flags != res["flags"]:
                bad = "flags [training, using, w None, inv None, lad None]: model %s implementation %s" % (flags, res["flags"])
            elif res["kind"] == "out":
                ey, elad = ls.expected(res, mv, md, lv, ld)
                if ey.dtype != res["y"].dtype or not torch.allclose(ey, res["y"], **tol(ls.dtype)) \
                        or not torch.allclose(elad.to(res["lad"].dtype), res["lad"], **tol(ls.dtype)):
                    bad = "values: implementation output is not built from version %d/%d as the model says" % (mv, lv)
            if bad:
                mm.append({"history": hist, "what": bad})
                model = None        # keep checking the property itself on the implementation for the rest of the history
        # the property itself, on the implementation: compare with the uncached twin at current parameters
        if op in (FWD, INV, FWDB, INVB):
            ref = ls.twin(ls.ver, ls.dtype)
            ref.train(ls.t.training)
            xr = res["x"].clone().requires_grad_(op in (FWDB, INVB))
            r = attempt(lambda: (ref.inverse(xr) if res["inv"] else ref(xr)))
            cls_key = name
            if res["kind"] == "err" and r[0] == "ok":
                what = "after %s the cached transform raises (%s) where the uncached one works" % (hist["ops"], res["msg"])
                kind = "double-backward" if "backward through the graph a second time" in res["msg"] else (
                    "dtype" if "dtype" in res["msg"] else "raises")
                ck.finding("cache:%s" % kind, what, {"search": "history", **hist})
                return
            if res["kind"] == "out" and r[0] == "ok":
                ry, rl = r[1]
                if ry.dtype != res["y"].dtype or not torch.allclose(ry.detach(), res["y"], **tol(ls.dtype)) or \
                        not torch.allclose(rl.detach(), res["lad"], **tol(ls.dtype)):
                    prev = [o for o in ops[:k] if o in (LOAD, UPD, TO32, TO64)]
                    kind = "stale-after-load_state_dict" if LOAD in prev else (
                        "stale-after-update" if UPD in prev else "stale")
                    ck.finding("cache:%s" % kind,
                               "after %s (the caller accumulates into every returned tensor in place) cached output differs from "
                               "recomputation (outputs: max diff %g, log-abs-det: max diff %g)"
                               % (hist["ops"], float((ry.detach() - res["y"]).abs().max()), float((rl.detach() - res["lad"]).abs().max())),
                               {"search": "history", **hist})
                    return


def admissible(ops, u):
    training = True
    for o in ops:
        if o == TRAIN:
            training = True
        elif o == EVAL:
            training = False
        elif o == UPD and not training:
            return False
    return True


NCORPUS = 15      # the pointed histories at the head of histories() always run on every class


def histories(tier, seed):
    r = rng(seed, "hist")
    core = [TRAIN, EVAL, UC0, UC1, FWD, INV, UPD, LOAD, TO32, TO64]
    hs = []
    # a corpus of short, pointed histories first
    hs += [[EVAL, FWD, LOAD, FWD], [EVAL, INV, LOAD, INV], [EVAL, FWD, TO64, FWD], [EVAL, FWD, TRAIN, UPD, EVAL, FWD],
           [EVAL, UC0, FWD, UC1, FWD, INV], [EVAL, INV, FWD, TRAIN, UPD, EVAL, INV, FWD],
           [EVAL, FWDB, FWDB], [EVAL, INVB, INVB], [EVAL, FWDB], [EVAL, FWD, TO64, TO32, FWD],
           [EVAL, FWD, UC0, LOAD, UC1, FWD], [EVAL, INV, UC0, TRAIN, UPD, EVAL, UC1, INV],
           # lossy dtype round trips with no call in between (the parameters are rounded, a cache must not survive)
           [TO64, EVAL, FWD, TO32, TO64, FWD], [TO64, EVAL, INV, TO32, TO64, INV, FWD],
           [TO64, TRAIN, UPD, EVAL, FWD, INV, TO32, TO64, INV, FWD]]
    n = 60 if tier == "quick" else 1500
    maxlen = 12 if tier == "quick" else 40
    while len(hs) < n:
        ln = r.randint(2, maxlen)
        ops = []
        for _ in range(ln):
            w = r.random()
            if w < 0.35:
                ops.append(r.choice([FWD, INV]))
            elif w < 0.42:
                ops.append(r.choice([FWDB, INVB]))
            else:
                ops.append(r.choice(core))
        if admissible(ops, True):
            hs.append(ops)
    if tier == "thorough":
        for ln in (1, 2, 3, 4):
            for ops in itertools.product([TRAIN, EVAL, UC1, FWD, INV, UPD, LOAD, TO64], repeat=ln):
                if admissible(list(ops), True) and (FWD in ops or INV in ops):
                    hs.append(list(ops))
    return hs


def many_features(ck, seed):
    """the same question for wide layers, whose determinant leaves the floating-point range while its logarithm is ordinary (64 and 96
    features with diagonals around 0.13 and 3 in float32, 128 features in float64): with caching on, whichever direction fills the
    cache, outputs and log-abs-dets equal the uncached ones"""
    from nflows.transforms import lu, linear, qr, svd, conv
    kinds = (("LULinear", lambda D: lu.LULinear(D, using_cache=True, identity_init=False)),
             ("NaiveLinear", lambda D: linear.NaiveLinear(D, using_cache=True)),
             ("QRLinear", lambda D: qr.QRLinear(D, num_householder=3, using_cache=True)),
             ("SVDLinear", lambda D: svd.SVDLinear(D, num_householder=4, using_cache=True, identity_init=False)))
    for kname, mk in kinds:
        for D, diag, dtype in ((64, 0.13, torch.float32), (96, 3.0, torch.float32), (128, 0.02, torch.float64)):
            for first in ("forward", "inverse"):
                torch.manual_seed(seed % 100000 + D)
                t = mk(D)
                with torch.no_grad():
                    for n_, p_ in t.named_parameters():
                        if "unconstrained_upper_diag" in n_ or "unconstrained_diagonal" in n_:
                            # softplus(u) + eps = diag
                            p_.copy_(torch.log(torch.expm1(torch.full_like(p_, max(diag - 1e-3, 1e-4)))))
                        elif "log_upper_diag" in n_:
                            p_.fill_(math.log(diag))
                        elif "_weight" in n_ and kname == "NaiveLinear":
                            p_.mul_(diag)
                        elif "lower_entries" in n_ or "upper_entries" in n_:
                            p_.copy_(torch.randn(p_.shape) * 0.05)
                t = t.to(dtype).eval()
                x = torch.randn(3, D, dtype=dtype)
                ck.case(("wide", kname, D, first), nontrivial=True)
                case = {"search": "wide-layer", "class": kname, "features": D, "diagonal": diag, "dtype": str(dtype), "first": first, "seed": seed}
                with torch.no_grad():
                    un_f, un_i = attempt(t.forward_no_cache, x), attempt(t.inverse_no_cache, x)
                    order = ("forward", "inverse") if first == "forward" else ("inverse", "forward")
                    got = {}
                    for d_ in order:
                        got[d_] = attempt(getattr(t, d_), x)
                if un_f[0] != "ok" or un_i[0] != "ok" or not bool(torch.isfinite(un_f[1][1]).all()) or not bool(torch.isfinite(un_i[1][0]).all()):
                    ck.count("wide-layer: uncached reference not finite")
                    continue
                for d_, ref in (("forward", un_f), ("inverse", un_i)):
                    g_ = got[d_]
                    if g_[0] != "ok":
                        ck.finding("cache:raises", "%s(%d) cached %s raises: %s" % (kname, D, d_, g_[1:]), case)
                        break
                    tol_ = 1e-3 if dtype == torch.float32 else 1e-8
                    el = float((g_[1][1] - ref[1][1]).abs().max())
                    eo = float((g_[1][0] - ref[1][0]).abs().max()) / (1 + float(ref[1][0].abs().max()))
                    if not (el <= tol_ * (1 + float(ref[1][1].abs().max())) and eo <= tol_ * 50):
                        ck.finding("cache:stale", "%s with %d features (%s, diagonal about %g), %s first: the cached %s returns log-abs-det %r, the uncached one %r "
                                   "(outputs differ by %.3g relative)" % (kname, D, dtype, diag, first, d_, float(g_[1][1][0]), float(ref[1][1][0]), eo), case)
                        break


def run(tier, seed):
    ck = Check("C10", tier, seed, areas=["cache"], gen_groups=["LinearCache", "LinearFamily"])
    ck.rule = ("histories over {train, eval, use_cache(on/off), forward, inverse, forward/inverse+backward, optimiser "
               "step (training mode only), load_state_dict, float()/double()} run in lock-step on the five linear "
               "classes and on the extracted model; non-trivial = the history evaluates the transform at least once "
               "after filling the cache; distinct by (class, constructor flag, op sequence)")
    ck.assumptions = ["parameter updates happen in training mode (the property's alphabet)",
                      "autograd graph lifetime is modelled by one alive/freed flag per cached entry"]
    ck.build()
    drv = ck.driver("cache") if ck.have_driver("cache") else None
    mm = []
    n = 0
    hs = histories(tier, seed)
    for hi, ops in enumerate(hs):
        for ci, (name, ctor, image) in enumerate(classes()):
            if tier == "quick" and hi >= NCORPUS and (hi + ci) % 5 != 0:
                continue
            if tier == "thorough" and hi >= NCORPUS and len(ops) <= 4 and (hi + ci) % 5 != 0:
                continue
            for u in ((True,) if hi % 3 else (True, False)):
                n += 1
                evals = sum(1 for o in ops if o in (FWD, INV, FWDB, INVB))
                ck.case((name, u, tuple(ops)), nontrivial=evals >= 2)
                ck.count("len=%d" % min(len(ops), 15))
                ck.count(name)
                run_history(ck, drv, name, ctor, image, u, ops, seed + hi, mm)
    many_features(ck, seed)
    ck.sample({"class": "LULinear", "history": [OPS[o] for o in hs[0]],
               "model_rows(obs,ref,flags,ver,dtype)": (drv.call("run", z(1), Z(hs[0]))[0] if drv else None)})
    ck.sample({"history": [OPS[o] for o in hs[min(20, len(hs) - 1)]]})
    if drv is not None:
        ck.correspondence("lock-step histories (outcome kind, cache flags, parameter version used)", n, mm)
    return ck.finish()


def replay(payload):
    rp = payload.get("replay", {})
    print("replay:", rp)
    if rp.get("search") == "history":
        for name, ctor, image in classes():
            if name == rp["class"]:
                class Sink:
                    def finding(self, key, what, replay):
                        print("REPRODUCED:", key, what)
                run_history(Sink(), None, name, ctor, image, rp["using_cache_ctor"], rp["codes"], rp["seed"], [])
    return 0
