open Model
open Proto

let rec chunk n l = if l = [] then [] else
    let rec take k l = if k = 0 then ([], l) else match l with x :: r -> let (a, b) = take (k - 1) r in (x :: a, b) | [] -> ([], []) in
    let (a, b) = take n l in a :: chunk n b

(* pairing z:n z:d F[noise k*n*d] F[ctx k]  with the context-revealing inverse x = z + 1000 * c (per coordinate) *)
let dispatch (cmd : string) (args : arg list) : arg list =
  match cmd, args with
  | "pairing", [Zs n; Zs d; FL noise; FL ctx] ->
    let rows = chunk d noise in
    let blocks = chunk n rows in
    let inv (z : float list) (c : float) = List.map (fun v -> v +. 1000.0 *. c) z in
    let out = flow_sample inv (nat_of_int n) blocks ctx in
    [FL (List.concat (List.concat out))]
  | _ -> failwith ("unknown command or bad arguments: " ^ cmd)
