open Model
open Proto

let rec take n l = if n = 0 then ([], l) else match l with x :: r -> let (a, b) = take (n - 1) r in (x :: a, b) | [] -> failwith "take"
let mkop code batch = match code with
  | 0 -> NTrain | 1 -> NEval | 2 -> NForward batch | 3 -> NInverse batch | 4 -> NReload | _ -> failwith "op"

(* an Z[ops] Z[lens] F[values] -> per op: Z[kind init training] F[log_scale shift lad] F[outputs] flattened *)
let dispatch (cmd : string) (args : arg list) : arg list =
  match cmd, args with
  | "an", [ZL ops; ZL lens; FL vals] ->
    let s = ref (an_fresh fops) and rest = ref vals in
    let flags = ref [] and nums = ref [] and outs = ref [] in
    List.iter2 (fun code len ->
        let (b, r) = take len !rest in rest := r;
        let (s', res) = an_step fops !s (mkop code b) in
        s := s';
        let (kind, y, lad) = match res with Ok (y, lad) -> (0, y, lad) | e -> (int_of_nat (rcode e), [], 0.0) in
        flags := !flags @ [kind; bool_int s'.an_init; bool_int s'.an_training];
        nums := !nums @ [s'.an_log_scale; s'.an_shift; lad];
        outs := !outs @ y) ops lens;
    [ZL !flags; FL !nums; FL !outs]
  | "bn", [Fs eps; Fs momentum; Fs uw; Fs bias; ZL ops; ZL lens; FL vals] ->
    let s = ref { bn_rm = 0.0; bn_rv = 0.0; bn_uw = uw; bn_bias = bias; bn_training = true } and rest = ref vals in
    let flags = ref [] and nums = ref [] and outs = ref [] in
    List.iter2 (fun code len ->
        let (b, r) = take len !rest in rest := r;
        let (s', res) = bn_step fops eps momentum !s (mkop code b) in
        s := s';
        let (kind, y, lad) = match res with Ok (y, lad) -> (0, y, lad) | e -> (int_of_nat (rcode e), [], 0.0) in
        flags := !flags @ [kind; bool_int s'.bn_training];
        nums := !nums @ [s'.bn_rm; s'.bn_rv; lad];
        outs := !outs @ y) ops lens;
    [ZL !flags; FL !nums; FL !outs]
  | _ -> failwith ("unknown command or bad arguments: " ^ cmd)
