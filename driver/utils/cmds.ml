open Model
open Proto

let tensor_out_z (t : int tensor) = [ZL (ints t.shape); ZL t.data]
let tensor_out_f (t : float tensor) = [ZL (ints t.shape); FL t.data]

let dispatch (cmd : string) (args : arg list) : arg list =
  match cmd, args with
  | "tc", [Zs which; PV p] ->
    let f = match which with
      | 0 -> tc_is_bool | 1 -> tc_is_int | 2 -> tc_is_positive_int
      | 3 -> tc_is_nonnegative_int | 4 -> tc_is_power_of_two | _ -> failwith "tc" in
    [Zs (bool_int (f p))]
  | "tile", [ZL x; PV n] -> [ZL (get (tile 0 x n))]
  | "repeat_rows", [ZL sh; ZL dt; PV n] -> tensor_out_z (get (repeat_rows { shape = nats sh; data = dt } n))
  | "merge", [ZL sh; ZL dt; PV n] -> tensor_out_z (get (merge_leading_dims { shape = nats sh; data = dt } n))
  | "split", [ZL sh; ZL dt; ZL s] -> tensor_out_z (get (split_leading_dim { shape = nats sh; data = dt } (zs s)))
  | "sum_except_batch", [ZL sh; FL dt; PV n] -> tensor_out_f (get (sum_except_batch fops { shape = nats sh; data = dt } n))
  | "searchsorted", [FL locs; Fs x] -> [Zs (int_of_z (searchsorted fops locs x)); FL (searchsorted_locs fops locs)]
  | "cbrt", [Fs x] -> [Fs (cbrt fops x)]
  | "temperature", [Fs m; Fs b] -> [Fs (get_temperature fops m b)]
  | "alt_mask", [Zs n; Zs even] -> [ZL (List.map bool_int (alternating_mask (nat_of_int n) (even <> 0)))]
  | "mid_mask", [Zs n] -> [ZL (List.map bool_int (mid_split_mask (nat_of_int n)))]
  | "random_mask", [Zs n; ZL idx] -> [ZL (List.map bool_int (random_mask (nat_of_int n) (nats idx)))]
  | _ -> failwith ("unknown command or bad arguments: " ^ cmd)

