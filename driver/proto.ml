(* Line-protocol driver around the extracted model (model.ml).
   Request :  <cmd> <arg> <arg> ...      Response: OK <arg> ... | ERR <code> | BAD <msg>
   Args    :  f:<hexfloat>  z:<int>  F[h,h,..]  Z[i,i,..]  p:<pyval>
   pyval   :  i<int> | bT | bF | fl | no | st
   The float dictionary below is the only hand-written numeric code: it maps the
   [ops] record fields to OCaml Stdlib (C libm) double operations. *)
open Model

let rec z_of_pos (n : int) : positive =
  if n = 1 then XH else if n land 1 = 0 then XO (z_of_pos (n lsr 1)) else XI (z_of_pos (n lsr 1))
let z_of_int (n : int) : z = if n = 0 then Z0 else if n > 0 then Zpos (z_of_pos n) else Zneg (z_of_pos (-n))
let rec int_of_pos = function XH -> 1 | XO p -> 2 * int_of_pos p | XI p -> 2 * int_of_pos p + 1
let int_of_z = function Z0 -> 0 | Zpos p -> int_of_pos p | Zneg p -> - (int_of_pos p)
let rec nat_of_int (n : int) : nat = if n <= 0 then O else S (nat_of_int (n - 1))
let rec int_of_nat = function O -> 0 | S n -> 1 + int_of_nat n

let fops : float ops = {
  o_zero = 0.0; o_one = 1.0; o_pi = 4.0 *. atan 1.0;
  o_add = ( +. ); o_sub = ( -. ); o_mul = ( *. ); o_div = ( /. );
  o_neg = (fun x -> -. x); o_abs = abs_float;
  o_exp = exp; o_ln = log; o_sqrt = sqrt; o_tanh = tanh; o_atan = atan; o_tan = tan;
  o_cos = cos; o_sin = sin; o_atan2 = atan2;
  o_leb = (fun x y -> x <= y); o_ltb = (fun x y -> x < y);
  o_floor = (fun x -> z_of_int (int_of_float (floor x)));
  o_ofZ = (fun z -> float_of_int (int_of_z z));
}

type arg = Fs of float | Zs of int | FL of float list | ZL of int list | PV of pyval

let split_commas s = if s = "" then [] else String.split_on_char ',' s
let parse_pyval s =
  if s = "bT" then PBool true else if s = "bF" then PBool false
  else if s = "fl" then PFloat else if s = "no" then PNone else if s = "st" then PStr
  else if String.length s > 1 && s.[0] = 'i' then PInt (z_of_int (int_of_string (String.sub s 1 (String.length s - 1))))
  else failwith ("pyval " ^ s)
let parse_arg (t : string) : arg =
  let n = String.length t in
  if n >= 2 && t.[1] = ':' then begin
    let body = String.sub t 2 (n - 2) in
    match t.[0] with
    | 'f' -> Fs (float_of_string body)
    | 'z' -> Zs (int_of_string body)
    | 'p' -> PV (parse_pyval body)
    | _ -> failwith ("arg " ^ t)
  end else if n >= 3 && t.[1] = '[' && t.[n - 1] = ']' then begin
    let body = String.sub t 2 (n - 3) in
    match t.[0] with
    | 'F' -> FL (List.map float_of_string (split_commas body))
    | 'Z' -> ZL (List.map int_of_string (split_commas body))
    | _ -> failwith ("arg " ^ t)
  end else failwith ("arg " ^ t)

let show_arg = function
  | Fs x -> Printf.sprintf "f:%h" x
  | Zs i -> Printf.sprintf "z:%d" i
  | FL l -> "F[" ^ String.concat "," (List.map (Printf.sprintf "%h") l) ^ "]"
  | ZL l -> "Z[" ^ String.concat "," (List.map string_of_int l) ^ "]"
  | PV _ -> "p:?"

exception Err of int
let get (r : 'a result) : 'a = match r with Ok a -> a | e -> raise (Err (int_of_nat (rcode e)))
let bool_int b = if b then 1 else 0
let nats l = List.map nat_of_int l
let ints l = List.map int_of_nat l
let zs l = List.map z_of_int l


