#!/bin/sh
# build.sh <area>... : compile driver/<area>/model.ml (extracted) + proto + cmds + main into driver/drv_<area>
cd "$(dirname "$0")"
rc=0
for a in "$@"; do
  [ -f "$a/model.ml" ] || { echo "no extracted model for area $a"; rc=1; continue; }
  if [ "drv_$a" -nt "$a/model.ml" ] && [ "drv_$a" -nt "$a/cmds.ml" ] && [ "drv_$a" -nt proto.ml ] && [ "drv_$a" -nt main.ml ]; then continue; fi
  rm -f "$a/model.mli"
  cp proto.ml main.ml "$a/"
  ( cd "$a" && ocamlfind ocamlopt -w -a -O2 model.ml proto.ml cmds.ml main.ml -o "../drv_$a.tmp" >/dev/null 2>build.log \
      || ocamlfind ocamlopt -w -a model.ml proto.ml cmds.ml main.ml -o "../drv_$a.tmp" 2>build.log ) \
    && mv "drv_$a.tmp" "drv_$a" || { echo "driver build failed for $a:"; cat "$a/build.log"; rc=1; }
  rm -f "$a"/proto.ml "$a"/main.ml "$a"/*.cm* "$a"/*.o
done
exit $rc
