open Model
open Proto

(* nl <kind> z:inverse F[params] F[xs] -> Z[codes] F[outs] F[lads]
   kind: 0 exp | 1 tanh | 2 cauchy | 3 sigmoid [temperature; eps] | 4 logtanh [cut] | 5 leakyrelu [slope] | 6 glu [ctx per x] *)
let dispatch (cmd : string) (args : arg list) : arg list =
  match cmd, args with
  | "nl", [Zs kind; Zs inv; FL ps; FL xs] ->
    let inverse = inv <> 0 in
    let f i x = match kind with
      | 0 -> exp_t fops inverse x | 1 -> tanh_t fops inverse x | 2 -> cauchy_t fops inverse x
      | 3 -> sigmoid_t fops (List.nth ps 0) (List.nth ps 1) inverse x
      | 4 -> logtanh_t fops (logtanh_make fops (List.nth ps 0)) inverse x
      | 5 -> lrelu_t fops (List.nth ps 0) inverse x
      | _ -> glu_t fops inverse x (List.nth ps i) in
    let res = List.mapi f xs in
    [ZL (List.map (fun r -> int_of_nat (rcode r)) res);
     FL (List.map (function Ok (y, _) -> y | _ -> nan) res);
     FL (List.map (function Ok (_, l) -> l | _ -> nan) res)]
  | _ -> failwith ("unknown command or bad arguments: " ^ cmd)
