open Proto

let () =
  try
    while true do
      let line = input_line stdin in
      let toks = List.filter (fun s -> s <> "") (String.split_on_char ' ' (String.trim line)) in
      (match toks with
       | [] -> print_endline "BAD empty"
       | cmd :: rest ->
         (try
            let args = List.map parse_arg rest in
            let out = Cmds.dispatch cmd args in
            print_endline ("OK " ^ String.concat " " (List.map show_arg out))
          with
          | Err c -> print_endline (Printf.sprintf "ERR %d" c)
          | Failure m -> print_endline ("BAD " ^ m)
          | Not_found -> print_endline "BAD not_found"
          | Stack_overflow -> print_endline "BAD stack_overflow"));
      flush stdout
    done
  with End_of_file -> ()
