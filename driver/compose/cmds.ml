open Model
open Proto

(* programs over int lists with integer log-dets: prefix encoding
   0 k = Leaf k (x -> 2x+k, ld 2^k) | 3 = Rev | 1 n p1..pn = Comp | 2 p = Inv *)
let pow2 k = float_of_int (1 lsl k)
let leaf k : (float list, float) tr =
  let kf = float_of_int k in
  { fwd = (fun x -> (List.map (fun v -> 2.0 *. v +. kf) x, pow2 k));
    inv = (fun y -> (List.map (fun v -> (v -. kf) /. 2.0) y, -. (pow2 k))) }
let revt : (float list, float) tr = { fwd = (fun x -> (List.rev x, 0.0)); inv = (fun x -> (List.rev x, 0.0)) }

let rec parse (p : int list) : (float list, float) tr * int list =
  match p with
  | 0 :: k :: r -> (leaf k, r)
  | 3 :: r -> (revt, r)
  | 1 :: n :: r ->
    let rec go n r acc = if n = 0 then (List.rev acc, r) else let (t, r') = parse r in go (n - 1) r' (t :: acc) in
    let (ts, r') = go n r [] in
    (comp ( +. ) 0.0 ts, r')
  | 2 :: r -> let (t, r') = parse r in (inverse_of t, r')
  | _ -> failwith "program"

let rec take n l = if n = 0 then ([], l) else match l with x :: r -> let (a, b) = take (n - 1) r in (x :: a, b) | [] -> failwith "take"
let rec parse_stages n l =
  if n = 0 then [] else
    match l with
    | pl :: r ->
      let (pr, r1) = take pl r in
      let (t, _) = parse pr in
      (match r1 with
       | sl :: r2 -> let (sh, r3) = take sl r2 in (t, nats sh) :: parse_stages (n - 1) r3
       | [] -> failwith "stages")
    | [] -> failwith "stages"

let dispatch (cmd : string) (args : arg list) : arg list =
  match cmd, args with
  | "prog_fwd", [ZL p; FL x] -> let (t, _) = parse p in let (y, l) = t.fwd x in [FL y; Fs l]
  | "prog_inv", [ZL p; FL x] -> let (t, _) = parse p in let (y, l) = t.inv x in [FL y; Fs l]
  | "ms_fwd", [Zs d; ZL st; FL x] ->
    (match st with n :: r -> let ss = parse_stages n r in
       let (y, l) = ms_forward ( +. ) 0.0 (nat_of_int d) ss x in [FL y; Fs l] | [] -> failwith "st")
  | "ms_inv", [Zs d; ZL st; FL x] ->
    (match st with n :: r -> let ss = parse_stages n r in
       let (y, l) = ms_inverse ( +. ) 0.0 (nat_of_int d) ss x in [FL y; Fs l] | [] -> failwith "st")
  | "add_transform", [Zs sd; Zs num; Zs count; ZL sh] ->
    (match get (add_transform (nat_of_int sd) (nat_of_int num) (nat_of_int count) (nats sh)) with
     | (out, Some hid) -> [ZL (ints out); ZL (ints hid); Zs 1]
     | (out, None) -> [ZL (ints out); ZL []; Zs 0])
  | _ -> failwith ("unknown command or bad arguments: " ^ cmd)
