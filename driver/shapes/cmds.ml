open Model
open Proto

(* context: Z[] = None encoded as Z[-1]; otherwise the context's shape *)
let ctx_of l = match l with [-1] -> None | l -> Some (nats l)

let dispatch (cmd : string) (args : arg list) : arg list =
  match cmd, args with
  | "sample", [ZL ev; PV n; ZL ctx; PV bs; Zs has_bs] ->
    [ZL (ints (get (sample_shape (nats ev) n (ctx_of ctx) (if has_bs <> 0 then Some bs else None))))]
  | "log_prob", [ZL ev; ZL inp; ZL ctx] -> [ZL (ints (get (log_prob_shape (nats ev) (nats inp) (ctx_of ctx))))]
  | "sample_and_log_prob", [ZL ev; PV n; ZL ctx] ->
    let (a, b) = get (sample_and_log_prob_shape (nats ev) n (ctx_of ctx)) in [ZL (ints a); ZL (ints b)]
  | "flow_sample", [ZL ev; Zs n; ZL ctx] -> [ZL (ints (get (flow_sample_shape (nats ev) (nat_of_int n) (ctx_of ctx))))]
  | _ -> failwith ("unknown command or bad arguments: " ^ cmd)
