open Model
open Proto

let rec chunk n l = if l = [] then [] else
    let rec take k l = if k = 0 then ([], l) else match l with x :: r -> let (a, b) = take (k - 1) r in (x :: a, b) | [] -> ([], []) in
    let (a, b) = take n l in a :: chunk n b

(* conv z:c z:npix F[W row-major c x c] F[bias] F[pixels of all items, item-major, pixel-major, channel-minor]
   -> the batched pipeline and the per-item map, both flattened *)
let dispatch (cmd : string) (args : arg list) : arg list =
  match cmd, args with
  | "conv", [Zs c; Zs npix; FL w; FL bias; FL px] ->
    let wr = chunk c w in
    let g (p : float list) = List.map2 (fun row b -> List.fold_left2 (fun acc a x -> acc +. a *. x) 0.0 row p +. b) wr bias in
    let pixels = chunk c px in
    let items = chunk npix pixels in
    let a = conv_batch g (nat_of_int npix) items in
    let b = List.map (conv_item g) items in
    [FL (List.concat (List.concat a)); FL (List.concat (List.concat b))]
  | "masked", [Fs bound; FL xs] ->
    [FL (masked_apply (fun x -> x >= -. bound && x <= bound) (fun x -> 2.0 *. x +. 1.0) xs)]
  | _ -> failwith ("unknown command or bad arguments: " ^ cmd)
