open Model
open Proto

let rec chunk n l = if l = [] then [] else
    let rec take k l = if k = 0 then ([], l) else match l with x :: r -> let (a, b) = take (k - 1) r in (x :: a, b) | [] -> ([], []) in
    let (a, b) = take n l in a :: chunk n b
let flat m = List.concat m

let dispatch (cmd : string) (args : arg list) : arg list =
  match cmd, args with
  | "lu", [Zs n; Fs eps; FL le; FL ue; FL ud; FL bias; FL x] ->
    let nn = nat_of_int n in
    let y = lu_forward fops nn eps le ue ud bias x in
    [FL (flat (lu_weight fops nn eps le ue ud)); FL (flat (lu_weight_inverse fops nn eps le ue ud));
     Fs (lu_logabsdet fops eps ud); FL y; FL (lu_inverse fops nn eps le ue ud bias y)]
  | "hh", [Zs n; FL qs; FL x] ->
    let q = chunk n qs in
    [FL (hh_apply fops q x); FL (hh_inverse fops q x); FL (flat (hh_matrix fops (nat_of_int n) q))]
  | "qr", [Zs n; FL qs; FL ue; FL lud; FL bias; FL x] ->
    let q = chunk n qs and nn = nat_of_int n in
    let y = qr_forward fops nn q ue lud bias x in
    [FL (flat (qr_weight fops nn q ue lud)); Fs (qr_logabsdet fops lud); FL y; FL (qr_inverse fops nn q ue lud bias y)]
  | "svd", [Zs n; FL q1; FL q2; Fs eps; FL ud; FL bias; FL x] ->
    let a = chunk n q1 and b = chunk n q2 in
    let y = svd_forward fops a b eps ud bias x in
    [Fs (svd_logabsdet fops eps ud); FL y; FL (svd_inverse fops a b eps ud bias y)]
  | _ -> failwith ("unknown command or bad arguments: " ^ cmd)
