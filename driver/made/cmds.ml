open Model
open Proto

let gen = function 0 -> genT | _ -> genN
let flat_mask (m : bool list list) = List.concat (List.map (List.map bool_int) m)

let dispatch (cmd : string) (args : arg list) : arg list =
  match cmd, args with
  | "input_degrees", [Zs g; Zs f] -> [ZL (ints (input_degrees (gen g) (nat_of_int f)))]
  | "hidden_degrees_seq", [Zs g; Zs f; Zs h] -> [ZL (ints (hidden_degrees_seq (gen g) (nat_of_int f) (nat_of_int h)))]
  | "output_degrees", [Zs g; Zs f; Zs outf] -> [ZL (ints (output_degrees (gen g) (nat_of_int f) (nat_of_int outf)))]
  | "hidden_mask", [Zs g; ZL dout; ZL din] -> [ZL (flat_mask (hidden_mask (gen g) (nats dout) (nats din)))]
  | "output_mask", [Zs g; ZL dout; ZL din] -> [ZL (flat_mask (output_mask (gen g) (nats dout) (nats din)))]
  | "res_ok", [ZL dout; ZL din] -> [Zs (bool_int (res_degrees_ok (nats dout) (nats din)))]
  | "random_ok", [Zs g; Zs f; ZL din; ZL d] -> [Zs (bool_int (random_degrees_ok (gen g) (nat_of_int f) (nats din) (nats d)))]
  | _ -> failwith ("unknown command or bad arguments: " ^ cmd)
