open Model
open Proto

(* spline <family> z:inverse z:unconstrained F[box (l r b t) | tail_bound] F[p1] F[p2] F[p3] F[xs] z:identity_init
   family: 0 linear (p1 = pdf) | 1 quadratic (p1 = widths, p2 = heights) | 2 cubic (p1 = widths, p2 = heights,
   p3 = [left; right]) | 3 rq (p1, p2, p3 = derivatives)
   -> Z[codes] F[outputs] F[logabsdets] *)
let run_one fam inverse unconstrained geo p1 p2 p3 idinit x : (float * float) result =
  let box () = match geo with [l; r; b; t] -> { b_left = l; b_right = r; b_bottom = b; b_top = t } | _ -> failwith "box" in
  let tb () = match geo with [b] -> b | _ -> failwith "tail bound" in
  match fam with
  | 0 -> if unconstrained then linear_unconstrained fops inverse (tb ()) p1 x else linear_spline fops inverse (box ()) p1 x
  | 1 ->
    let mw = quad_DEFAULT_MIN_BIN_WIDTH fops and mh = quad_DEFAULT_MIN_BIN_HEIGHT fops in
    if unconstrained then quadratic_unconstrained fops mw mh inverse (tb ()) p1 p2 x
    else quadratic_spline fops mw mh inverse (box ()) p1 p2 x
  | 2 ->
    let mw = cub_DEFAULT_MIN_BIN_WIDTH fops and mh = cub_DEFAULT_MIN_BIN_HEIGHT fops in
    let eps = cub_DEFAULT_EPS fops and thr = cub_DEFAULT_QUADRATIC_THRESHOLD fops in
    let (ul, ur) = match p3 with [a; b] -> (a, b) | _ -> failwith "cubic end derivatives" in
    if unconstrained then cubic_unconstrained fops mw mh eps thr inverse (tb ()) p1 p2 ul ur x
    else cubic_spline fops mw mh eps thr inverse (box ()) p1 p2 ul ur x
  | _ ->
    let c0 = rq_default_cfg fops in
    let c = { min_bin_width = c0.min_bin_width; min_bin_height = c0.min_bin_height;
              min_derivative = c0.min_derivative; identity_init = idinit } in
    if unconstrained then rq_unconstrained fops c inverse (tb ()) p1 p2 p3 x
    else rq_spline fops c inverse (box ()) p1 p2 p3 x

let dispatch (cmd : string) (args : arg list) : arg list =
  match cmd, args with
  | "spline", [Zs fam; Zs inv; Zs unc; FL geo; FL p1; FL p2; FL p3; FL xs; Zs idinit] ->
    let res = List.map (fun x -> run_one fam (inv <> 0) (unc <> 0) geo p1 p2 p3 (idinit <> 0) x) xs in
    let codes = List.map (fun r -> int_of_nat (rcode r)) res in
    let outs = List.map (function Ok (y, _) -> y | _ -> nan) res in
    let lads = List.map (function Ok (_, l) -> l | _ -> nan) res in
    [ZL codes; FL outs; FL lads]
  | "rq_knots", [FL geo; FL p1; FL p2; FL p3] ->
    let bx = match geo with [l; r; b; t] -> { b_left = l; b_right = r; b_bottom = b; b_top = t } | _ -> failwith "box" in
    let kn = rq_build fops (rq_default_cfg fops) bx p1 p2 p3 in
    [FL kn.cumwidths; FL kn.cumheights; FL kn.derivs]
  | _ -> failwith ("unknown command or bad arguments: " ^ cmd)
