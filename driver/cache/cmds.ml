open Model
open Proto

let op_of_int = function
  | 0 -> Train | 1 -> Eval | 2 -> UseCache false | 3 -> UseCache true | 4 -> Forward | 5 -> Inverse
  | 6 -> ForwardBackward | 7 -> InverseBackward | 8 -> Update | 9 -> LoadState
  | 10 -> ToDtype F32 | 11 -> ToDtype F64 | _ -> failwith "op"
let dt = function F32 -> 32 | F64 -> 64
let obs_out = function
  | ONone -> [0; 0; 0; 0; 0]
  | OOut (mv, md, lv, ld) -> [1; int_of_nat mv; dt md; int_of_nat lv; dt ld]
  | OErr -> [2; 0; 0; 0; 0]
let none = function None -> 1 | Some _ -> 0

(* run u ops -> per step: obs(5) reference-obs(5) training using w_none i_none l_none ver dtype *)
let dispatch (cmd : string) (args : arg list) : arg list =
  match cmd, args with
  | "run", [Zs u; ZL ops] ->
    let s = ref (init_using (u <> 0)) in
    let out = ref [] in
    List.iter (fun oi ->
        let o = op_of_int oi in
        let r = ref_obs !s o in
        let (s', ob) = step !s o in
        s := s';
        out := !out @ obs_out ob @ obs_out r @
               [bool_int s'.training; bool_int s'.usingc; none s'.cw; none s'.ci; none s'.cl; int_of_nat s'.ver; dt s'.dt])
      ops;
    [ZL !out]
  | "admissible", [Zs u; ZL ops] -> [Zs (bool_int (admissible (init_using (u <> 0)) (List.map op_of_int ops)))]
  | _ -> failwith ("unknown command or bad arguments: " ^ cmd)
