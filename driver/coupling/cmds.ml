open Model
open Proto

(* slices: B = float list (npos values per feature) *)
let rec chunk n l = if l = [] then [] else
    let rec take k l = if k = 0 then ([], l) else match l with x :: r -> let (a, b) = take (k - 1) r in (x :: a, b) | [] -> ([], []) in
    let (a, b) = take n l in a :: chunk n b

(* params P = slices as the network returned them (channel-major), oracle net = recorded output *)
let additive (p : float list list) k (v : float list) = List.map2 ( +. ) v (List.nth p (int_of_nat k))
let additive_inv (p : float list list) k (v : float list) = List.map2 ( -. ) v (List.nth p (int_of_nat k))
(* affine: shift = first T slices, scale = last T slices; the harness passes scale_activation = (+ 3) *)
let affine t (p : float list list) k (v : float list) =
  let k = int_of_nat k in
  let shift = List.nth (affine_shift (nat_of_int t) p) k and scale = List.nth (affine_scale (nat_of_int t) p) k in
  List.map2 ( +. ) (List.map2 (fun a sc -> a *. (sc +. 3.0)) v scale) shift
let affine_inv t (p : float list list) k (v : float list) =
  let k = int_of_nat k in
  let shift = List.nth (affine_shift (nat_of_int t) p) k and scale = List.nth (affine_scale (nat_of_int t) p) k in
  List.map2 (fun a sc -> a /. (sc +. 3.0)) (List.map2 ( -. ) v shift) scale

let dispatch (cmd : string) (args : arg list) : arg list =
  match cmd, args with
  | "idx", [ZL mask] -> [ZL (ints (identity_idx (zs mask))); ZL (ints (transform_idx (zs mask)))]
  | ("fwd" | "inv"), [ZL mask; Zs kind; Zs npos; FL x; FL params] ->
    let xs = chunk npos x and ps = chunk npos params in
    let t = List.length (transform_idx (zs mask)) in
    let net _ () = ps in
    let kel = match kind, cmd with
      | 0, "fwd" -> additive | 0, _ -> additive_inv
      | _, "fwd" -> affine t | _, _ -> affine_inv t in
    let (y, ()) =
      if cmd = "fwd" then forward [] net kel (fun _ _ -> ()) (fun _ _ -> ()) None (zs mask) xs ()
      else inverse [] net kel (fun _ _ -> ()) (fun _ _ -> ()) () None (zs mask) xs () in
    [FL (List.concat y); FL (List.concat (gather [] (identity_idx (zs mask)) xs))]
  | "params_2d", [Zs m; Zs t; FL netout] ->
    [FL (List.concat (params_2d 0.0 (nat_of_int m) (nat_of_int t) netout))]
  | "params_4d", [Zs m; Zs t; Zs npos; FL netout] ->
    [FL (List.concat (List.concat (params_4d 0.0 (nat_of_int m) (nat_of_int t) (nat_of_int npos) (chunk npos netout))))]
  | _ -> failwith ("unknown command or bad arguments: " ^ cmd)
