#!/bin/sh
# Offline build of the whole framework from files on disk: translator -> Coq (full .vo build) -> extracted drivers.
here="$(cd "$(dirname "$0")" && pwd)"
cd "$here" || exit 1
/venv/bin/python tools/py2coq.py --repo "${NFLOWS_REPO:-/repo}" --out coq/Gen >/dev/null
cd coq && ./mk.sh && timeout 3000 make -f Makefile.coq -k -j16 2>&1 | grep -v '^COQ\|^Closed under\|^Axioms:\|^  \|^[A-Za-z_.]* :\|^$' | tail -40
cd "$here"
areas=$(ls coq/Extract/Ex_*.v | sed 's|.*/Ex_||; s|\.v$||')
./driver/build.sh $areas
echo "setup done"
