"""Block specifications for py2coq: which fragments of /repo become which
Coq definitions.  Every function returns (list of (name, text), extra_header)."""
import ast
from py2coq import (Source, Untranslatable, block_defs, single_def, guard_def, if_on, nth_assign,
                    first_raise_guard, ExprTr, GuardTr, lit, _short, store_census, expect_skeleton)


# ---------------------------------------------------------------- typechecks
def g_typechecks(repo):
    src = Source(repo, "nflows/utils/typechecks.py")
    known = {}
    defs = []

    def tr(e, arg):
        if isinstance(e, ast.Call) and isinstance(e.func, ast.Name):
            if e.func.id == "isinstance" and len(e.args) == 2 and isinstance(e.args[0], ast.Name) \
                    and e.args[0].id == arg and isinstance(e.args[1], ast.Name) and e.args[1].id in ("bool", "int"):
                return "(isinstance_%s v)" % e.args[1].id
            if e.func.id in known and len(e.args) == 1 and isinstance(e.args[0], ast.Name) and e.args[0].id == arg:
                return "(tc_%s v)" % e.func.id
        if isinstance(e, ast.BoolOp):
            op = "andb" if isinstance(e.op, ast.And) else "orb"
            parts = [tr(v, arg) for v in e.values]
            out = parts[0]
            for p in parts[1:]:
                out = "(%s %s %s)" % (op, out, p)
            return out
        if isinstance(e, ast.Compare) and len(e.ops) == 1 and isinstance(e.left, ast.Name) and e.left.id == arg \
                and isinstance(e.comparators[0], ast.Constant) and isinstance(e.comparators[0].value, int):
            c = e.comparators[0].value
            if isinstance(e.ops[0], ast.Gt):
                return "(py_gt v (%d))" % c
            if isinstance(e.ops[0], ast.GtE):
                return "(py_ge v (%d))" % c
            if isinstance(e.ops[0], ast.Lt):
                return "(negb (py_ge v (%d)))" % c
            if isinstance(e.ops[0], ast.LtE):
                return "(negb (py_gt v (%d)))" % c
        if isinstance(e, ast.UnaryOp) and isinstance(e.op, ast.Not):
            # `not n & (n - 1)`
            o = e.operand
            if isinstance(o, ast.BinOp) and isinstance(o.op, ast.BitAnd) and isinstance(o.left, ast.Name) \
                    and o.left.id == arg and isinstance(o.right, ast.BinOp) and isinstance(o.right.op, ast.Sub) \
                    and isinstance(o.right.left, ast.Name) and o.right.left.id == arg \
                    and isinstance(o.right.right, ast.Constant) and o.right.right.value == 1:
                return "(py_and_pred_is_zero v)"
            return "(negb %s)" % tr(o, arg)
        if isinstance(e, ast.Constant) and isinstance(e.value, bool):
            return "true" if e.value else "false"
        raise Untranslatable("typecheck expression", e)

    for st in src.tree.body:
        if isinstance(st, ast.Expr) and isinstance(st.value, ast.Constant):
            continue
        if not isinstance(st, ast.FunctionDef):
            raise Untranslatable("unexpected top-level statement in typechecks.py", st)
        if len(st.args.args) != 1:
            raise Untranslatable("typecheck arity", st)
        arg = st.args.args[0].arg
        body = [s for s in st.body if not (isinstance(s, ast.Expr) and isinstance(s.value, ast.Constant))]
        if len(body) == 1 and isinstance(body[0], ast.Return):
            term = tr(body[0].value, arg)
        elif len(body) == 1 and isinstance(body[0], ast.If) and len(body[0].body) == 1 and len(body[0].orelse) == 1 \
                and isinstance(body[0].body[0], ast.Return) and isinstance(body[0].orelse[0], ast.Return):
            term = "(if %s then %s else %s)" % (tr(body[0].test, arg), tr(body[0].body[0].value, arg),
                                                 tr(body[0].orelse[0].value, arg))
        else:
            raise Untranslatable("typecheck body form", st)
        known[st.name] = True
        defs.append(("tc_" + st.name, "Definition tc_%s (v : pyval) : bool :=\n  %s.\n" % (st.name, term)))
    for need in ("is_bool", "is_int", "is_positive_int", "is_nonnegative_int", "is_power_of_two"):
        if need not in known:
            raise Untranslatable("typechecks.%s missing" % need)
    return defs, "From NF Require Import Base.PyVal.\n\n"


# ---------------------------------------------------------------- utils scalar
def g_utils(repo):
    src = Source(repo, "nflows/utils/torchutils.py")
    defs = []
    fn = src.func("cbrt")
    body = [s for s in fn.body if not (isinstance(s, ast.Expr) and isinstance(s.value, ast.Constant))]
    if len(body) != 1 or not isinstance(body[0], ast.Return):
        raise Untranslatable("cbrt body form", fn)
    defs.append(single_def("utils_cbrt", body[0].value, ["x"]))
    # searchsorted: eps default, the comparison operator and the final `- 1`
    fn = src.func("searchsorted")
    info = searchsorted_shape(fn)
    defs.append(("utils_searchsorted_cmp",
                 "Definition utils_searchsorted_cmp {T : Type} (O : ops T) (v_x v_loc : T) : bool :=\n  %s.\n"
                 % info["cmp"]))
    defs.append(("utils_searchsorted_bumps_last",
                 "Definition utils_searchsorted_bumps_last : bool := %s.\n" % ("true" if info["bump"] else "false")))
    defs.append(("utils_searchsorted_eps",
                 "Definition utils_searchsorted_eps {T : Type} (O : ops T) : T :=\n  %s.\n" % info["eps"]))
    defs.append(("utils_searchsorted_drop_last",
                 "Definition utils_searchsorted_drop_last : bool := %s.\n" % ("true" if info["drop_last"] else "false")))
    defs.append(("utils_searchsorted_offset",
                 "Definition utils_searchsorted_offset : Z := %d.\n" % info["offset"]))
    # logabsdet: the log-magnitude straight from torch.slogdet (never through the determinant itself, which over- and
    # underflows long before its logarithm does)
    fn = src.func("logabsdet")
    body = [ast.unparse(s_) for s_ in fn.body if not (isinstance(s_, ast.Expr) and isinstance(s_.value, ast.Constant))]
    if body not in (["(_, res) = torch.slogdet(x)", "return res"], ["_, res = torch.slogdet(x)", "return res"]):
        raise Untranslatable("logabsdet: expected `_, res = torch.slogdet(x); return res`, found %s" % body, fn)
    defs.append(("utils_logabsdet_is_slogdet", "Definition utils_logabsdet_is_slogdet : bool := true.\n"))
    # get_temperature
    fn = src.func("get_temperature")
    ret = [s for s in fn.body if isinstance(s, ast.Assign) and isinstance(s.targets[0], ast.Name)
           and s.targets[0].id == "temperature"]
    if len(ret) != 1:
        raise Untranslatable("get_temperature: temperature assignment", fn)
    call = ret[0].value
    if not (isinstance(call, ast.Call) and isinstance(call.func, ast.Name) and call.func.id == "min"
            and len(call.args) == 2):
        raise Untranslatable("get_temperature: expected min(expr, 1)", call)
    defs.append(single_def("utils_temperature_raw", call.args[0], ["max_value", "bound"]))
    defs.append(single_def("utils_temperature_cap", call.args[1], []))
    return defs, ""


def searchsorted_shape(fn):
    """Recognise the (few) shapes searchsorted can take and describe them:
         [bin_locations[..., -1] += eps]
         return torch.sum(inputs[..., None] >= LOCS, dim=-1) - 1
       where LOCS is bin_locations or bin_locations[..., :-1] (drop_last) and an
       optional final `+ k` / `- k` integer offset."""
    args = [a.arg for a in fn.args.args]
    if args[:2] != ["bin_locations", "inputs"]:
        raise Untranslatable("searchsorted signature", fn)
    eps = "(o_zero O)"
    defaults = fn.args.defaults
    if len(args) >= 3 and args[2] == "eps" and defaults:
        d = defaults[-1]
        if not isinstance(d, ast.Constant):
            raise Untranslatable("searchsorted eps default", d)
        eps = lit(d.value, d)
    bump = False
    ret = None
    for st in fn.body:
        if isinstance(st, ast.Expr) and isinstance(st.value, ast.Constant):
            continue
        if isinstance(st, ast.AugAssign):
            t = st.target
            ok = (isinstance(st.op, ast.Add) and isinstance(t, ast.Subscript) and isinstance(t.value, ast.Name)
                  and t.value.id == "bin_locations" and isinstance(st.value, ast.Name) and st.value.id == "eps"
                  and ast.unparse(t.slice) in ("(..., -1)", "..., -1"))
            if not ok:
                raise Untranslatable("searchsorted: unrecognised in-place statement", st)
            bump = True
            continue
        if isinstance(st, ast.Return):
            ret = st.value
            continue
        raise Untranslatable("searchsorted: statement form", st)
    if ret is None:
        raise Untranslatable("searchsorted: no return", fn)
    offset = 0
    e = ret
    while isinstance(e, ast.BinOp) and isinstance(e.op, (ast.Sub, ast.Add)) and isinstance(e.right, ast.Constant) \
            and isinstance(e.right.value, int):
        offset += -e.right.value if isinstance(e.op, ast.Sub) else e.right.value
        e = e.left
    if not (isinstance(e, ast.Call) and isinstance(e.func, ast.Attribute) and e.func.attr == "sum"
            and isinstance(e.func.value, ast.Name) and e.func.value.id == "torch" and len(e.args) == 1
            and len(e.keywords) == 1 and e.keywords[0].arg == "dim" and ast.unparse(e.keywords[0].value) == "-1"):
        raise Untranslatable("searchsorted: expected torch.sum(<cmp>, dim=-1)", e)
    c = e.args[0]
    if not (isinstance(c, ast.Compare) and len(c.ops) == 1 and ast.unparse(c.left) == "inputs[..., None]"):
        raise Untranslatable("searchsorted: comparison form", c)
    right = ast.unparse(c.comparators[0])
    if right == "bin_locations":
        drop_last = False
    elif right == "bin_locations[..., :-1]":
        drop_last = True
    else:
        raise Untranslatable("searchsorted: compared against %s" % right, c)
    from py2coq import tr_cmp
    cmp_ = tr_cmp("v_x", c.ops[0], "v_loc", c)
    return {"eps": eps, "bump": bump, "cmp": cmp_, "drop_last": drop_last, "offset": offset}


# ---------------------------------------------------------------- shared: the bounded splines' domain guard
def domain_guard(fn, prefix):
    """[lower, upper = (bottom, top) if inverse else (left, right)]
       if torch.min(inputs) < lower or torch.max(inputs) > upper: raise InputOutsideDomain()
    -> <prefix>_rejects (mn mx lower upper) and <prefix>_bounds inverse left right bottom top"""
    test = first_raise_guard(fn, "InputOutsideDomain")
    bounds = None
    for st in fn.body:
        if isinstance(st, ast.Assign) and ast.unparse(st.targets[0]) in ("(lower, upper)", "lower, upper"):
            v = st.value
            if isinstance(v, ast.IfExp) and ast.unparse(v.test) == "inverse":
                a, b = ast.unparse(v.body), ast.unparse(v.orelse)
                names = {"(bottom, top)": "(v_bottom, v_top)", "(left, right)": "(v_left, v_right)",
                         "(top, bottom)": "(v_top, v_bottom)", "(right, left)": "(v_right, v_left)"}
                if a in names and b in names:
                    bounds = "if inverse then %s else %s" % (names[a], names[b])
            if bounds is None:
                raise Untranslatable("domain bounds form", st)
    used = {n.id for n in ast.walk(test) if isinstance(n, ast.Name)}
    if bounds is None:
        if not {"left", "right"} <= used:
            raise Untranslatable("domain guard does not compare against left/right or lower/upper", test)
        bounds = "(v_left, v_right)"
        g = guard_def(prefix + "_rejects", test, ["left", "right"], {("min", "inputs"): "mn", ("max", "inputs"): "mx"})
        g = (g[0], g[1].replace("v_left", "v_lower").replace("v_right", "v_upper"))
    else:
        g = guard_def(prefix + "_rejects", test, ["lower", "upper"], {("min", "inputs"): "mn", ("max", "inputs"): "mx"})
    b = (prefix + "_bounds",
         "Definition %s_bounds {T : Type} (inverse : bool) (v_left v_right v_bottom v_top : T) : T * T :=\n  %s.\n"
         % (prefix, bounds))
    return [g, b]


def _if_inverse_blocks(fn):
    """all top-level `if inverse:` statements of fn, in order"""
    return [s for s in fn.body if isinstance(s, ast.If) and isinstance(s.test, ast.Name) and s.test.id == "inverse"]


def _norm_denorm(fn, prefix, defs, consts):
    """the first `if inverse:` normalises the inputs, the last one de-normalises outputs and adds the box log term"""
    ifs = _if_inverse_blocks(fn)
    if len(ifs) < 3:
        raise Untranslatable("%s: expected three `if inverse:` statements (normalise, kernel, de-normalise)" % prefix, fn)
    first, last = ifs[0], ifs[-1]
    box = ["left", "right", "bottom", "top"]
    for br, stmts in (("inv", first.body), ("fwd", first.orelse)):
        if len(stmts) != 1:
            raise Untranslatable("%s: input normalisation form" % prefix, first)
        defs += block_defs("%s_%s_normalise" % (prefix, br), stmts, ["inputs"] + box, ["inputs"], consts=consts)
    for br, stmts in (("inv", last.body), ("fwd", last.orelse)):
        defs += block_defs("%s_%s_denormalise" % (prefix, br), stmts, ["outputs", "logabsdet"] + box,
                           ["outputs", "logabsdet"], consts=consts)
    return ifs[1:-1]


# ---------------------------------------------------------------- linear spline
def g_spline_linear(repo):
    src = Source(repo, "nflows/transforms/splines/linear.py")
    fn = src.func("linear_spline")
    store_census(fn, {"pdf": 1, "cdf": 3, "inputs": 2, "outputs": 7, "logabsdet": 4, "bin_idx": 2, "inv_bin_idx": 2,
                      "__bare_calls__": 0, "__raises__": 1, "__asserts__": 0})
    defs = domain_guard(fn, "lin")
    mid = _norm_denorm(fn, "lin", defs, src.consts)
    if len(mid) != 1:
        raise Untranslatable("linear_spline: expected one kernel `if inverse:`", fn)
    k = mid[0]
    # forward kernel
    defs += block_defs(
        "lin_fwd", k.orelse, ["inputs", "num_bins", "bin_idx", "input_pdfs", "input_cdf"],
        ["bin_pos", "alpha", "outputs", "logabsdet"], consts=src.consts,
        subst={"bin_idx.float()": "v_bin_idx", "pdf.gather(-1, bin_idx[..., None])[..., 0]": "v_input_pdfs",
               "cdf.gather(-1, bin_idx[..., None])[..., 0]": "v_input_cdf"},
        skip_src=["bin_idx = torch.floor(bin_pos).long()", "bin_idx[bin_idx >= num_bins] = num_bins - 1"],
        skip=["input_pdfs"])
    # inverse kernel: per-bin slopes / offsets from the bin's two cdf values and boundaries
    defs += block_defs(
        "lin_inv", k.body, ["inputs", "cdf_left", "cdf_right", "bound_left", "bound_right"],
        ["slopes", "offsets", "outputs", "logabsdet"], consts=src.consts,
        edge={("cdf", "L"): "v_cdf_left", ("cdf", "R"): "v_cdf_right",
              ("bin_boundaries", "L"): "v_bound_left", ("bin_boundaries", "R"): "v_bound_right"},
        subst={"slopes.gather(-1, inv_bin_idx)[..., 0]": "@slopes", "offsets.gather(-1, inv_bin_idx)[..., 0]": "@offsets"},
        skip_src=["inv_bin_idx = torchutils.searchsorted(cdf, inputs)", "inv_bin_idx = inv_bin_idx.unsqueeze(-1)"],
        skip=["bin_boundaries"])
    # structure of the cdf construction: cumsum, last := 1.0, pad 0 in front
    txt = [ast.unparse(s_) for s_ in fn.body]
    need = ["pdf = F.softmax(unnormalized_pdf, dim=-1)", "cdf = torch.cumsum(pdf, dim=-1)", "cdf[..., -1] = 1.0",
            "cdf = F.pad(cdf, pad=(1, 0), mode='constant', value=0.0)"]
    idx = [txt.index(n) if n in txt else -1 for n in need]
    if -1 in idx or idx != sorted(idx):
        raise Untranslatable("linear_spline: cdf construction differs from softmax -> cumsum -> last=1 -> pad(1,0)", fn)
    defs.append(("lin_cdf_construction_ok", "Definition lin_cdf_construction_ok : bool := true.\n"))
    un = src.func("unconstrained_linear_spline")
    defs.append(guard_def("lin_inside_tails", nth_assign(un, "inside_interval_mask", 0).value, ["inputs", "tail_bound"], {}))
    return defs, ""




# ---------------------------------------------------------------- RQ spline
RQ_FREE = ["inputs", "input_cumwidths", "input_bin_widths", "input_cumheights", "input_delta",
           "input_derivatives", "input_derivatives_plus_one", "input_heights"]


def g_spline_rq(repo):
    src = Source(repo, "nflows/transforms/splines/rational_quadratic.py")
    fn = src.func("rational_quadratic_spline")
    store_census(fn, {"widths": 3, "cumwidths": 5, "derivatives": 1, "heights": 3, "cumheights": 5, "delta": 1, "bin_idx": 2,
                      "outputs": 2, "logabsdet": 2, "inputs": 0, "__bare_calls__": 0, "__raises__": 3, "__asserts__": 1})
    st = if_on(fn, "inverse", "theta_one_minus_theta")
    defs = []
    defs += block_defs("rq_inv", st.body, RQ_FREE, ["a", "b", "c", "discriminant", "root", "ret0", "ret1"],
                       consts=src.consts)
    defs += block_defs("rq_fwd", st.orelse, RQ_FREE, ["theta", "ret0", "ret1"], consts=src.consts)
    # knot construction: the elementwise affine maps
    defs.append(single_def("rq_width_affine", nth_assign(fn, "widths", 1).value,
                           ["min_bin_width", "num_bins", "widths"], consts=src.consts))
    defs.append(single_def("rq_height_affine", nth_assign(fn, "heights", 1).value,
                           ["min_bin_height", "num_bins", "heights"], consts=src.consts))
    defs.append(single_def("rq_cumwidth_affine", nth_assign(fn, "cumwidths", 2).value,
                           ["left", "right", "cumwidths"], consts=src.consts))
    defs.append(single_def("rq_cumheight_affine", nth_assign(fn, "cumheights", 2).value,
                           ["bottom", "top", "cumheights"], consts=src.consts))
    defs.append(single_def("rq_delta", nth_assign(fn, "delta", 0).value, ["heights", "widths"]))
    # derivatives = min_derivative + softplus(u, beta)
    defs.append(single_def("rq_derivative", nth_assign(fn, "derivatives", 0).value,
                           ["min_derivative", "beta", "unnormalized_derivatives"], consts=src.consts))
    # beta in the two modes
    ifb = [s for s in fn.body if isinstance(s, ast.If) and isinstance(s.test, ast.Name)
           and s.test.id == "enable_identity_init"]
    if len(ifb) != 1 or len(ifb[0].body) != 1 or len(ifb[0].orelse) != 1:
        raise Untranslatable("rq: enable_identity_init branch form", fn)
    defs.append(single_def("rq_beta_identity_init", ifb[0].body[0].value, ["min_derivative"], consts=src.consts))
    defs.append(single_def("rq_beta_default", ifb[0].orelse[0].value, [], consts=src.consts))
    # tail derivative constant in unconstrained_*
    un = src.func("unconstrained_rational_quadratic_spline")
    tl = [s for s in un.body if isinstance(s, ast.If) and ast.unparse(s.test) in ("tails == 'linear'",)]
    if len(tl) != 1:
        raise Untranslatable("rq: `if tails == 'linear'` not found", un)
    cst = [s for s in tl[0].body if isinstance(s, ast.Assign) and isinstance(s.targets[0], ast.Name)
           and s.targets[0].id == "constant"]
    if len(cst) != 1:
        raise Untranslatable("rq: tail constant", un)
    defs.append(single_def("rq_tail_constant", cst[0].value, ["min_derivative"], consts=src.consts))
    # guards
    defs += domain_guard(fn, "rq")
    inside = nth_assign(un, "inside_interval_mask", 0).value
    defs.append(guard_def("rq_inside_tails", inside, ["inputs", "tail_bound"], {}))
    for nm in ("DEFAULT_MIN_BIN_WIDTH", "DEFAULT_MIN_BIN_HEIGHT", "DEFAULT_MIN_DERIVATIVE"):
        if nm not in src.consts:
            raise Untranslatable("rq: constant %s missing" % nm)
        defs.append(("rq_" + nm, "Definition rq_%s {T : Type} (O : ops T) : T := %s.\n" % (nm, lit(src.consts[nm]))))
    return defs, ""


GROUPS = [
    ("Typechecks", g_typechecks, ["nflows/utils/typechecks.py"]),
    ("Utils", g_utils, ["nflows/utils/torchutils.py"]),
    ("SplineRQ", g_spline_rq, ["nflows/transforms/splines/rational_quadratic.py"]),
]


# ---------------------------------------------------------------- MADE (both copies)
def nat_expr(e, env):
    """integer expressions over nat: names, literals, + - * // %, max/min"""
    if isinstance(e, ast.Constant) and isinstance(e.value, int) and not isinstance(e.value, bool) and e.value >= 0:
        return str(e.value)
    if isinstance(e, ast.Name):
        if e.id in env:
            return env[e.id]
        raise Untranslatable("free name %s in integer expression" % e.id, e)
    if isinstance(e, ast.BinOp):
        ops = {ast.Add: "(%s + %s)", ast.Sub: "(%s - %s)", ast.Mult: "(%s * %s)", ast.FloorDiv: "(%s / %s)",
               ast.Mod: "(%s mod %s)"}
        for k, fmt in ops.items():
            if isinstance(e.op, k):
                return fmt % (nat_expr(e.left, env), nat_expr(e.right, env))
        raise Untranslatable("integer operator", e)
    if isinstance(e, ast.Call) and isinstance(e.func, ast.Name) and e.func.id in ("max", "min") and len(e.args) == 2:
        return "(Nat.%s %s %s)" % (e.func.id, nat_expr(e.args[0], env), nat_expr(e.args[1], env))
    raise Untranslatable("integer expression form", e)


def nat_cmp(op, node):
    # mask = (out_degrees[..., None] OP in_degrees)
    table = {ast.Gt: "Nat.ltb din dout", ast.GtE: "Nat.leb din dout", ast.Lt: "Nat.ltb dout din",
             ast.LtE: "Nat.leb dout din", ast.Eq: "Nat.eqb dout din"}
    for k, v in table.items():
        if isinstance(op, k):
            return v
    raise Untranslatable("mask comparison operator", node)


def made_defs(repo, rel, prefix):
    src = Source(repo, rel)
    defs = []
    # _get_input_degrees: torch.arange(1, in_features + 1)  ->  degree of input j
    fn = src.func("_get_input_degrees")
    ret = [s for s in fn.body if isinstance(s, ast.Return)]
    if len(ret) != 1:
        raise Untranslatable("_get_input_degrees form", fn)
    call = ret[0].value
    if not (isinstance(call, ast.Call) and ast.unparse(call.func) == "torch.arange" and len(call.args) == 2
            and not call.keywords):
        raise Untranslatable("_get_input_degrees: expected torch.arange(lo, hi)", call)
    arg = fn.args.args[0].arg
    lo = nat_expr(call.args[0], {arg: "n"})
    hi = nat_expr(call.args[1], {arg: "n"})
    defs.append((prefix + "input_degree", "Definition %sinput_degree (n j : nat) : nat := %s + j.\n" % (prefix, lo)))
    defs.append((prefix + "input_count", "Definition %sinput_count (n : nat) : nat := %s - %s.\n" % (prefix, hi, lo)))
    m = src.method("MaskedLinear", "_get_mask_and_degrees")
    top = [s for s in m.body if isinstance(s, ast.If)]
    if len(top) != 1 or not (isinstance(top[0].test, ast.Name) and top[0].test.id == "is_output"):
        raise Untranslatable("_get_mask_and_degrees: expected `if is_output:`", m)
    out_branch, hid_branch = top[0].body, top[0].orelse

    def mask_cmp(stmts, what):
        hits = [s for s in stmts if isinstance(s, ast.Assign) and isinstance(s.targets[0], ast.Name)
                and s.targets[0].id == "mask"]
        if len(hits) != 1:
            raise Untranslatable("%s: expected one mask assignment" % what, m)
        v = hits[0].value
        if not (isinstance(v, ast.Call) and isinstance(v.func, ast.Attribute) and v.func.attr == "float"
                and isinstance(v.func.value, ast.Compare) and len(v.func.value.ops) == 1
                and ast.unparse(v.func.value.left) == "out_degrees[..., None]"
                and ast.unparse(v.func.value.comparators[0]) == "in_degrees"):
            raise Untranslatable("%s: mask form" % what, hits[0])
        return nat_cmp(v.func.value.ops[0], hits[0])

    defs.append((prefix + "output_cmp", "Definition %soutput_cmp (dout din : nat) : bool := %s.\n"
                 % (prefix, mask_cmp(out_branch, "output"))))
    defs.append((prefix + "hidden_cmp", "Definition %shidden_cmp (dout din : nat) : bool := %s.\n"
                 % (prefix, mask_cmp(hid_branch, "hidden"))))
    # output degrees: tile(_get_input_degrees(af), out_features // af)
    od = [s for s in out_branch if isinstance(s, ast.Assign) and isinstance(s.targets[0], ast.Name)
          and s.targets[0].id == "out_degrees"]
    if len(od) != 1:
        raise Untranslatable("output: out_degrees assignment", m)
    c = od[0].value
    if not (isinstance(c, ast.Call) and ast.unparse(c.func) == "torchutils.tile" and len(c.args) == 2
            and ast.unparse(c.args[0]) == "_get_input_degrees(autoregressive_features)"):
        raise Untranslatable("output: expected torchutils.tile(_get_input_degrees(autoregressive_features), k)", od[0])
    defs.append((prefix + "output_reps", "Definition %soutput_reps (out_features af : nat) : nat := %s.\n"
                 % (prefix, nat_expr(c.args[1], {"out_features": "out_features", "autoregressive_features": "af"}))))
    # hidden degrees: sequential branch
    rnd = [s for s in hid_branch if isinstance(s, ast.If) and isinstance(s.test, ast.Name) and s.test.id == "random_mask"]
    if len(rnd) != 1:
        raise Untranslatable("hidden: expected `if random_mask:`", m)
    env = {"autoregressive_features": "af", "out_features": "out_features"}
    seq_lets = []
    deg = None
    for s in rnd[0].orelse:
        if not (isinstance(s, ast.Assign) and isinstance(s.targets[0], ast.Name)):
            raise Untranslatable("hidden sequential: statement form", s)
        t = s.targets[0].id
        if t == "out_degrees":
            v = s.value
            # torch.arange(out_features) % a + b   read per unit u
            def unit(e):
                if isinstance(e, ast.Call) and ast.unparse(e) == "torch.arange(out_features)":
                    return "u"
                if isinstance(e, ast.BinOp):
                    ops = {ast.Add: "(%s + %s)", ast.Sub: "(%s - %s)", ast.Mult: "(%s * %s)",
                           ast.FloorDiv: "(%s / %s)", ast.Mod: "(%s mod %s)"}
                    for k, fmt in ops.items():
                        if isinstance(e.op, k):
                            return fmt % (unit(e.left), unit(e.right))
                return nat_expr(e, env)
            deg = unit(v)
        else:
            nm = "l_" + t.strip("_")
            seq_lets.append((nm, nat_expr(s.value, env)))
            env[t] = nm
    if deg is None:
        raise Untranslatable("hidden sequential: out_degrees not assigned", m)
    body = "".join("  let %s := %s in\n" % kv for kv in seq_lets) + "  " + deg
    defs.append((prefix + "seq_degree", "Definition %sseq_degree (af out_features u : nat) : nat :=\n%s.\n" % (prefix, body)))
    # random branch: bounds of randint
    env = {"autoregressive_features": "af", "out_features": "out_features"}
    low = high = None
    for s in rnd[0].body:
        if isinstance(s, ast.Assign) and isinstance(s.targets[0], ast.Name) and s.targets[0].id == "min_in_degree":
            if ast.unparse(s.value) == "torch.min(in_degrees).item()":
                env["min_in_degree"] = "min_in"
            else:
                env["min_in_degree"] = nat_expr(s.value, env)
        elif isinstance(s, ast.Assign) and isinstance(s.targets[0], ast.Name) and s.targets[0].id == "out_degrees":
            c = s.value
            if not (isinstance(c, ast.Call) and ast.unparse(c.func) == "torch.randint"):
                raise Untranslatable("hidden random: expected torch.randint", s)
            kws = {k.arg: k.value for k in c.keywords}
            low = nat_expr(kws["low"], env)
            high = nat_expr(kws["high"], env)
        else:
            raise Untranslatable("hidden random: statement form", s)
    if low is None:
        raise Untranslatable("hidden random: randint bounds", m)
    defs.append((prefix + "random_low", "Definition %srandom_low (af min_in : nat) : nat := %s.\n" % (prefix, low)))
    defs.append((prefix + "random_high", "Definition %srandom_high (af : nat) : nat := %s.\n" % (prefix, high)))
    # MaskedLinear.forward must be F.linear(x, self.weight * self.mask, self.bias)
    fw = src.method("MaskedLinear", "forward")
    body = [s for s in fw.body if not (isinstance(s, ast.Expr) and isinstance(s.value, ast.Constant))]
    ok = (len(body) == 1 and isinstance(body[0], ast.Return)
          and ast.unparse(body[0].value) in ("F.linear(x, self.weight * self.mask, self.bias)",
                                             "F.linear(x, self.mask * self.weight, self.bias)"))
    if not ok:
        raise Untranslatable("MaskedLinear.forward is not F.linear(x, self.weight * self.mask, self.bias)", fw)
    defs.append((prefix + "forward_uses_masked_weight",
                 "Definition %sforward_uses_masked_weight : bool := true.\n" % prefix))
    # every other place of the file that touches a layer's weight or calls F.linear: allowed only in MaskedLinear.forward
    # (where it is multiplied by the mask) and in constructors / initialisers (values, not evaluation)
    rows = []
    for node in src.tree.body:
        scopes = []
        if isinstance(node, ast.FunctionDef):
            scopes.append((node.name, node))
        elif isinstance(node, ast.ClassDef):
            scopes += [(node.name + "." + m_.name, m_) for m_ in node.body if isinstance(m_, ast.FunctionDef)]
        for qn, fn_ in scopes:
            init_like = fn_.name in ("__init__", "_initialize", "reset_parameters", "main")
            for c in ast.walk(fn_):
                use = None
                if isinstance(c, ast.Attribute) and c.attr == "weight":
                    use = "weight"
                elif isinstance(c, ast.Call) and ast.unparse(c.func) in ("F.linear", "torch.nn.functional.linear", "nn.functional.linear"):
                    use = "F.linear"
                elif isinstance(c, ast.Call) and isinstance(c.func, ast.Attribute) and c.func.attr in ("matmul", "mm", "addmm") \
                        and "weight" in ast.unparse(c):
                    use = "matmul"
                if use:
                    rows.append((qn, use, init_like or qn == "MaskedLinear.forward"))
    tbl = "; ".join('("%s", "%s", %s)' % (qn, use, "true" if ok_ else "false") for qn, use, ok_ in rows)
    defs.append((prefix + "weight_uses",
                 "Definition %sweight_uses : list (string * string * bool) := [%s].\n" % (prefix, tbl)))
    # how the constructors hand degrees from layer to layer: every call that receives `in_degrees` (or a ** dictionary) and every
    # assignment to the running `prev_out_degrees` / a block's `self.degrees`, in source order.  The model's network is a CHAIN
    # (each masked layer is built against the degrees of the layer right before it); Model/Made.v states the table of a chain.
    wires = []
    for cname in ("MaskedFeedforwardBlock", "MaskedResidualBlock", "MADE"):
        ctor = src.method(cname, "__init__")

        def visit(stmts):
            for st in stmts:
                if isinstance(st, (ast.For, ast.While, ast.If, ast.With, ast.Try)):
                    visit(st.body)
                    visit(getattr(st, "orelse", []))
                    continue
                tgt = ast.unparse(st.targets[0]) if isinstance(st, ast.Assign) else ""
                for n in ast.walk(st):
                    if isinstance(n, ast.Call):
                        kws = {k.arg: k.value for k in n.keywords}
                        if "in_degrees" in kws or None in kws:
                            what = ast.unparse(kws["in_degrees"]) if "in_degrees" in kws else "**" + ast.unparse(kws[None])
                            wires.append((cname, tgt or ast.unparse(st).split("(")[0], ast.unparse(n.func), what))
                if isinstance(st, ast.Assign) and tgt in ("prev_out_degrees", "self.degrees"):
                    wires.append((cname, tgt, "=", ast.unparse(st.value)))
        visit(ctor.body)
    for w_ in wires:
        if any('"' in f_ for f_ in w_):
            raise Untranslatable("degree wiring: quote in %r" % (w_,), src.tree)
    wt = "; ".join('("%s", "%s", "%s", "%s")' % w_ for w_ in wires)
    defs.append((prefix + "degree_wiring",
                 "Definition %sdegree_wiring : list (string * string * string * string) := [%s].\n" % (prefix, wt)))
    return defs


def g_made_t(repo):
    return made_defs(repo, "nflows/transforms/made.py", "madeT_"), "From Coq Require Import Arith String.\nLocal Open Scope string_scope.\nLocal Open Scope nat_scope.\n\n"


def g_made_n(repo):
    return made_defs(repo, "nflows/nn/nde/made.py", "madeN_"), "From Coq Require Import Arith String.\nLocal Open Scope string_scope.\nLocal Open Scope nat_scope.\n\n"


GROUPS += [
    ("MadeT", g_made_t, ["nflows/transforms/made.py"]),
    ("MadeN", g_made_n, ["nflows/nn/nde/made.py"]),
]


# ---------------------------------------------------------------- Linear cache protocol
def _bool_expr_self(e, env):
    """boolean expression over `self.<attr>` flags: not/and/or"""
    if isinstance(e, ast.Attribute) and isinstance(e.value, ast.Name) and e.value.id == "self" and e.attr in env:
        return env[e.attr]
    if isinstance(e, ast.UnaryOp) and isinstance(e.op, ast.Not):
        return "(negb %s)" % _bool_expr_self(e.operand, env)
    if isinstance(e, ast.BoolOp):
        op = "andb" if isinstance(e.op, ast.And) else "orb"
        parts = [_bool_expr_self(v, env) for v in e.values]
        out = parts[0]
        for p_ in parts[1:]:
            out = "(%s %s %s)" % (op, out, p_)
        return out
    if isinstance(e, ast.Compare) and len(e.ops) == 1 and isinstance(e.ops[0], (ast.Is, ast.IsNot)) \
            and isinstance(e.comparators[0], ast.Constant) and e.comparators[0].value is None:
        s = ast.unparse(e.left)
        if s in env:
            return env[s] if isinstance(e.ops[0], ast.Is) else "(negb %s)" % env[s]
    raise Untranslatable("boolean expression over self flags", e)


def _fill_chain(fn, fields):
    """if/elif chain whose tests are over `self.cache.X is None` and whose bodies assign self.cache.Y
    -> coq term of type (bool * bool): which of the two fields get (re)computed"""
    env = {"self.cache.%s" % f: v for f, v in fields.items()}
    body = [s for s in fn.body if not (isinstance(s, ast.Expr) and isinstance(s.value, ast.Constant))]
    if len(body) != 1 or not isinstance(body[0], ast.If):
        raise Untranslatable("cache check: expected a single if/elif chain", fn)

    def assigned(stmts):
        got = set()
        for s in stmts:
            if not isinstance(s, ast.Assign):
                raise Untranslatable("cache check: statement form", s)
            for t in s.targets:
                elts = t.elts if isinstance(t, ast.Tuple) else [t]
                for el in elts:
                    nm = ast.unparse(el)
                    if nm not in env:
                        raise Untranslatable("cache check: assigns %s" % nm, s)
                    got.add(nm)
            src_ = ast.unparse(s.value)
            if "self.cache" in src_:
                raise Untranslatable("cache check: fills from the cache itself", s)
        names = list(env)
        return "(%s, %s)" % tuple("true" if n in got else "false" for n in names)

    def chain(st):
        test = _bool_expr_self(st.test, env)
        then = assigned(st.body)
        if not st.orelse:
            els = "(false, false)"
        elif len(st.orelse) == 1 and isinstance(st.orelse[0], ast.If):
            els = chain(st.orelse[0])
        else:
            els = assigned(st.orelse)
        return "(if %s then %s else %s)" % (test, then, els)
    return chain(body[0])


def g_linear_cache(repo):
    src = Source(repo, "nflows/transforms/linear.py")
    defs = []
    env = {"training": "training", "using_cache": "usingc"}
    for meth in ("forward", "inverse"):
        m = src.method("Linear", meth)
        body = [s for s in m.body if not (isinstance(s, ast.Expr) and isinstance(s.value, ast.Constant))]
        if len(body) != 1 or not isinstance(body[0], ast.If) or len(body[0].orelse) != 1:
            raise Untranslatable("Linear.%s: expected `if <cache test>: ... else: return self.%s_no_cache(inputs)`"
                                 % (meth, meth), m)
        if ast.unparse(body[0].orelse[0]) != "return self.%s_no_cache(inputs)" % meth:
            raise Untranslatable("Linear.%s: uncached branch" % meth, body[0].orelse[0])
        defs.append(("lin_%s_uses_cache" % meth,
                     "Definition lin_%s_uses_cache (training usingc : bool) : bool :=\n  %s.\n"
                     % (meth, _bool_expr_self(body[0].test, env))))
        first = body[0].body[0]
        want = "self._check_%s_cache()" % meth
        if ast.unparse(first) != want:
            raise Untranslatable("Linear.%s: cached branch must start with %s" % (meth, want), first)
        # which cache fields the cached branch reads
        txt = " ".join(ast.unparse(s) for s in body[0].body[1:])
        reads = [fld for fld in ("weight", "inverse", "logabsdet") if ("self.cache.%s" % fld) in txt]
        expect = ["weight", "logabsdet"] if meth == "forward" else ["inverse", "logabsdet"]
        if reads != expect:
            raise Untranslatable("Linear.%s reads cache fields %s, expected %s" % (meth, reads, expect), m)
        if "self.bias" not in txt:
            raise Untranslatable("Linear.%s: cached branch does not read the live bias" % meth, m)
    defs.append(("lin_forward_fill", "Definition lin_forward_fill (wn ln : bool) : bool * bool :=\n  %s.\n"
                 % _fill_chain(src.method("Linear", "_check_forward_cache"), {"weight": "wn", "logabsdet": "ln"})))
    defs.append(("lin_inverse_fill", "Definition lin_inverse_fill (wn ln : bool) : bool * bool :=\n  %s.\n"
                 % _fill_chain(src.method("Linear", "_check_inverse_cache"), {"inverse": "wn", "logabsdet": "ln"})))
    # train(mode): invalidates iff mode
    tr = src.method("Linear", "train")
    body = [s for s in tr.body if not (isinstance(s, ast.Expr) and isinstance(s.value, ast.Constant))]
    inval = False
    if body and isinstance(body[0], ast.If) and isinstance(body[0].test, ast.Name) and body[0].test.id == "mode" \
            and any(ast.unparse(s) == "self.cache.invalidate()" for s in body[0].body) and not body[0].orelse:
        inval = True
    if not (body and ast.unparse(body[-1]) == "return super().train(mode)"):
        raise Untranslatable("Linear.train: must end with return super().train(mode)", tr)
    defs.append(("lin_train_invalidates", "Definition lin_train_invalidates : bool := %s.\n" % ("true" if inval else "false")))
    # invalidate() clears all three fields
    inv = src.method("LinearCache", "invalidate")
    cleared = sorted(ast.unparse(s.targets[0]) for s in inv.body
                     if isinstance(s, ast.Assign) and isinstance(s.value, ast.Constant) and s.value.value is None)
    ok = cleared == ["self.inverse", "self.logabsdet", "self.weight"]
    defs.append(("lin_invalidate_clears_all", "Definition lin_invalidate_clears_all : bool := %s.\n" % ("true" if ok else "false")))
    # hooks that replace parameter values behind the cache's back
    cls = src.cls("Linear")
    meths = {m.name: m for m in cls.body if isinstance(m, ast.FunctionDef)}

    def calls_invalidate(name, supercall):
        m = meths.get(name)
        if m is None:
            return False
        txt = [ast.unparse(s) for s in m.body]
        return any("self.cache.invalidate()" in t for t in txt) and any(supercall in t for t in txt)
    defs.append(("lin_load_invalidates", "Definition lin_load_invalidates : bool := %s.\n"
                 % ("true" if calls_invalidate("_load_from_state_dict", "super()._load_from_state_dict(") else "false")))
    defs.append(("lin_apply_invalidates", "Definition lin_apply_invalidates : bool := %s.\n"
                 % ("true" if calls_invalidate("_apply", "super()._apply(") else "false")))
    # use_cache only flips the flag
    uc = src.method("Linear", "use_cache")
    assigns = [ast.unparse(s) for s in uc.body if isinstance(s, ast.Assign)]
    if assigns != ["self.using_cache = mode"]:
        raise Untranslatable("Linear.use_cache: expected only `self.using_cache = mode`", uc)
    return defs, ""


GROUPS += [("LinearCache", g_linear_cache, ["nflows/transforms/linear.py"])]


# ---------------------------------------------------------------- Distribution base (argument contract, batching)
def g_dist_base(repo):
    src = Source(repo, "nflows/distributions/base.py")
    defs = []
    lp = src.method("Distribution", "log_prob")
    # if context is not None: ... if inputs.shape[0] != context.shape[0]: raise ValueError
    found = False
    for st in ast.walk(lp):
        if isinstance(st, ast.If) and ast.unparse(st.test) in ("inputs.shape[0] != context.shape[0]",
                                                                "context.shape[0] != inputs.shape[0]"):
            r = st.body[0]
            if isinstance(r, ast.Raise) and isinstance(r.exc, ast.Call) and ast.unparse(r.exc.func) == "ValueError":
                found = True
    defs.append(("dist_logprob_checks_rows", "Definition dist_logprob_checks_rows : bool := %s.\n" % ("true" if found else "false")))
    sm = src.method("Distribution", "sample")
    body = [s for s in sm.body if not (isinstance(s, ast.Expr) and isinstance(s.value, ast.Constant))]

    def typeerror_guard(st, argname):
        return (isinstance(st, ast.If) and ast.unparse(st.test) == "not check.is_positive_int(%s)" % argname
                and len(st.body) == 1 and isinstance(st.body[0], ast.Raise)
                and isinstance(st.body[0].exc, ast.Call) and ast.unparse(st.body[0].exc.func) == "TypeError")
    if not typeerror_guard(body[0], "num_samples"):
        raise Untranslatable("Distribution.sample: first statement must reject non-positive-int num_samples with TypeError", body[0])
    defs.append(("dist_sample_checks_count", "Definition dist_sample_checks_count : bool := true.\n"))
    # the batch_size branch
    br = [s for s in body if isinstance(s, ast.If) and ast.unparse(s.test) == "batch_size is None"]
    if len(br) != 1 or ast.unparse(br[0].body[0]) != "return self._sample(num_samples, context)":
        raise Untranslatable("Distribution.sample: expected `if batch_size is None: return self._sample(num_samples, context)`", sm)
    els = br[0].orelse
    if not typeerror_guard(els[0], "batch_size"):
        raise Untranslatable("Distribution.sample: batch_size must be checked with is_positive_int / TypeError", els[0])
    env = {"num_samples": "n", "batch_size": "bs"}
    nb = nl = None
    catdim = None
    for st in els[1:]:
        if isinstance(st, ast.Assign) and isinstance(st.targets[0], ast.Name):
            t = st.targets[0].id
            if t == "num_batches":
                nb = nat_expr(st.value, env)
            elif t == "num_leftover":
                nl = nat_expr(st.value, env)
            elif t == "samples":
                if ast.unparse(st.value) != "[self._sample(batch_size, context) for _ in range(num_batches)]":
                    raise Untranslatable("Distribution.sample: batch list form", st)
            else:
                raise Untranslatable("Distribution.sample: unexpected assignment", st)
        elif isinstance(st, ast.If):
            if ast.unparse(st.test) != "num_leftover > 0" or \
                    ast.unparse(st.body[0]) != "samples.append(self._sample(num_leftover, context))":
                raise Untranslatable("Distribution.sample: leftover form", st)
        elif isinstance(st, ast.Return):
            c = st.value
            if not (isinstance(c, ast.Call) and ast.unparse(c.func) == "torch.cat" and ast.unparse(c.args[0]) == "samples"):
                raise Untranslatable("Distribution.sample: expected return torch.cat(samples, dim=...)", st)
            dimv = None
            for kw in c.keywords:
                if kw.arg == "dim":
                    dimv = kw.value
            if dimv is None and len(c.args) == 2:
                dimv = c.args[1]
            if dimv is None:
                catdim = "0"
            elif isinstance(dimv, ast.Constant) and isinstance(dimv.value, int):
                catdim = str(dimv.value)
            elif isinstance(dimv, ast.IfExp) and isinstance(dimv.body, ast.Constant) and isinstance(dimv.orelse, ast.Constant):
                test = ast.unparse(dimv.test)
                a, b = dimv.body.value, dimv.orelse.value
                if test == "context is None":
                    catdim = "(if has_context then %d else %d)" % (b, a)
                elif test == "context is not None":
                    catdim = "(if has_context then %d else %d)" % (a, b)
                else:
                    raise Untranslatable("Distribution.sample: cat dim condition", dimv)
            else:
                raise Untranslatable("Distribution.sample: cat dim form", dimv)
        else:
            raise Untranslatable("Distribution.sample: statement form", st)
    if nb is None or nl is None or catdim is None:
        raise Untranslatable("Distribution.sample: batching arithmetic not found", sm)
    defs.append(("dist_num_batches", "Definition dist_num_batches (n bs : nat) : nat := %s.\n" % nb))
    defs.append(("dist_num_leftover", "Definition dist_num_leftover (n bs : nat) : nat := %s.\n" % nl))
    defs.append(("dist_cat_dim", "Definition dist_cat_dim (has_context : bool) : nat := %s.\n" % catdim))
    return defs, "From Coq Require Import Arith.\nLocal Open Scope nat_scope.\n\n"


GROUPS += [("DistBase", g_dist_base, ["nflows/distributions/base.py"])]


# ---------------------------------------------------------------- normalisation layers
def _strip_detach(e):
    """x.detach() -> x (value-wise identity)"""
    class T(ast.NodeTransformer):
        def visit_Call(self, node):
            self.generic_visit(node)
            if isinstance(node.func, ast.Attribute) and node.func.attr == "detach" and not node.args:
                return node.func.value
            return node
    return T().visit(e)


def g_norm(repo):
    src = Source(repo, "nflows/transforms/normalization.py")
    defs = []
    # ---- BatchNorm
    attrs = {"weight": "a_weight", "bias": "a_bias", "eps": "a_eps", "momentum": "a_momentum",
             "running_mean": "a_running_mean", "running_var": "a_running_var",
             "unconstrained_weight": "a_unconstrained_weight"}
    fw = src.method("BatchNorm", "forward")
    expect_skeleton(fw, ["If:inputs.dim() != 2", "If:self.training", "Assign", "Assign", "Assign", "Return"])
    tr_if = [s for s in fw.body if isinstance(s, ast.If) and ast.unparse(s.test) == "self.training"]
    if len(tr_if) != 1:
        raise Untranslatable("BatchNorm.forward: expected `if self.training:`", fw)
    tb, eb = tr_if[0].body, tr_if[0].orelse
    if ast.unparse(tb[0]) != "mean, var = (inputs.mean(0), inputs.var(0))":
        raise Untranslatable("BatchNorm.forward: batch statistics form", tb[0])
    if len(eb) != 1 or ast.unparse(eb[0]) != "mean, var = (self.running_mean, self.running_var)":
        raise Untranslatable("BatchNorm.forward: eval statistics form", tr_if[0])
    upd = {}
    for st in tb[1:]:
        # self.running_X.mul_(A).add_(B)
        ok = isinstance(st, ast.Expr) and isinstance(st.value, ast.Call) and isinstance(st.value.func, ast.Attribute) \
            and st.value.func.attr == "add_" and isinstance(st.value.func.value, ast.Call) \
            and isinstance(st.value.func.value.func, ast.Attribute) and st.value.func.value.func.attr == "mul_"
        if not ok:
            raise Untranslatable("BatchNorm.forward: running statistic update form", st)
        target = ast.unparse(st.value.func.value.func.value)
        if target not in ("self.running_mean", "self.running_var"):
            raise Untranslatable("BatchNorm.forward: in-place update of %s" % target, st)
        stat = "mean" if target.endswith("mean") else "var"
        tr = ExprTr({"mean": "v_stat", "var": "v_stat", "r": "v_r"}, attrs=attrs)
        a = tr.tr(_strip_detach(st.value.func.value.args[0]))
        b = tr.tr(_strip_detach(st.value.args[0]))
        # the added term must use the matching statistic
        names = {n.id for n in ast.walk(st.value.args[0]) if isinstance(n, ast.Name)}
        if names - {stat, "self"}:
            raise Untranslatable("BatchNorm.forward: update of %s uses %s" % (target, names), st)
        upd[stat] = "(o_add O (o_mul O v_r %s) %s)" % (a, b)
    if set(upd) != {"mean", "var"}:
        raise Untranslatable("BatchNorm.forward: both running statistics must be updated in training mode", fw)
    for stat in ("mean", "var"):
        defs.append(("bn_update_" + stat,
                     "Definition bn_update_%s {T : Type} (O : ops T) (a_momentum v_r v_stat : T) : T :=\n  %s.\n" % (stat, upd[stat])))
    binders = "a_weight a_bias a_eps v_inputs v_mean v_var"
    env = {"inputs": "v_inputs", "mean": "v_mean", "var": "v_var"}
    out = nth_assign(fw, "outputs", 0).value
    defs.append(("bn_forward_out", "Definition bn_forward_out {T : Type} (O : ops T) (%s : T) : T :=\n  %s.\n"
                 % (binders, ExprTr(env, attrs=attrs).tr(out))))
    lad = nth_assign(fw, "logabsdet_", 0).value
    defs.append(("bn_forward_lad", "Definition bn_forward_lad {T : Type} (O : ops T) (%s : T) : T :=\n  %s.\n"
                 % (binders, ExprTr(env, attrs=attrs).tr(lad))))
    agg = ast.unparse(nth_assign(fw, "logabsdet", 0).value)
    if agg != "torch.sum(logabsdet_) * inputs.new_ones(inputs.shape[0])":
        raise Untranslatable("BatchNorm.forward: log-det aggregation `%s`" % agg, fw)
    iv = src.method("BatchNorm", "inverse")
    expect_skeleton(iv, ["If:self.training", "If:inputs.dim() != 2", "Assign", "Assign", "Assign", "Return"])
    first = [s for s in iv.body if not (isinstance(s, ast.Expr) and isinstance(s.value, ast.Constant))][0]
    ok = isinstance(first, ast.If) and ast.unparse(first.test) == "self.training" and isinstance(first.body[0], ast.Raise) \
        and ast.unparse(first.body[0].exc.func) == "InverseNotAvailable"
    defs.append(("bn_inverse_unavailable_in_training",
                 "Definition bn_inverse_unavailable_in_training : bool := %s.\n" % ("true" if ok else "false")))
    binders_i = "a_weight a_bias a_eps a_running_mean a_running_var v_inputs"
    out = nth_assign(iv, "outputs", 0).value
    defs.append(("bn_inverse_out", "Definition bn_inverse_out {T : Type} (O : ops T) (%s : T) : T :=\n  %s.\n"
                 % (binders_i, ExprTr({"inputs": "v_inputs"}, attrs=attrs).tr(out))))
    lad = nth_assign(iv, "logabsdet_", 0).value
    defs.append(("bn_inverse_lad", "Definition bn_inverse_lad {T : Type} (O : ops T) (%s : T) : T :=\n  %s.\n"
                 % (binders_i, ExprTr({"inputs": "v_inputs"}, attrs=attrs).tr(lad))))
    wprop = src.method("BatchNorm", "weight")
    defs.append(("bn_weight", "Definition bn_weight {T : Type} (O : ops T) (a_unconstrained_weight a_eps : T) : T :=\n  %s.\n"
                 % ExprTr({}, attrs=attrs).tr(wprop.body[0].value)))
    # ---- ActNorm
    fw = src.method("ActNorm", "forward")
    expect_skeleton(fw, ["If:inputs.dim() not in [2, 4]", "If:self.training and (not self.initialized)", "Assign", "Assign",
                         "If:inputs.dim() == 4", "Return"])
    ini = [s for s in fw.body if isinstance(s, ast.If) and "self._initialize(inputs)" in ast.unparse(s)]
    if len(ini) != 1:
        raise Untranslatable("ActNorm.forward: initialisation call", fw)
    defs.append(("an_initialises", "Definition an_initialises (training initialized : bool) : bool :=\n  %s.\n"
                 % _bool_expr_self(ini[0].test, {"training": "training", "initialized": "initialized"})))
    env = {"scale": "v_scale", "shift": "v_shift", "inputs": "v_inputs"}
    defs.append(("an_forward_out", "Definition an_forward_out {T : Type} (O : ops T) (v_scale v_shift v_inputs : T) : T :=\n  %s.\n"
                 % ExprTr(env).tr(nth_assign(fw, "outputs", 0).value)))
    iv = src.method("ActNorm", "inverse")
    expect_skeleton(iv, ["If:inputs.dim() not in [2, 4]", "Assign", "Assign", "If:inputs.dim() == 4", "Return"])
    defs.append(("an_inverse_out", "Definition an_inverse_out {T : Type} (O : ops T) (v_scale v_shift v_inputs : T) : T :=\n  %s.\n"
                 % ExprTr(env).tr(nth_assign(iv, "outputs", 0).value)))
    sc = src.method("ActNorm", "scale")
    defs.append(("an_scale", "Definition an_scale {T : Type} (O : ops T) (a_log_scale : T) : T :=\n  %s.\n"
                 % ExprTr({}, attrs={"log_scale": "a_log_scale"}).tr(sc.body[0].value)))

    def lad_branches(m, sign):
        brs = [s for s in m.body if isinstance(s, ast.If) and ast.unparse(s.test) == "inputs.dim() == 4"]
        if len(brs) != 1:
            raise Untranslatable("ActNorm: log-det branches", m)
        l4 = [s for s in brs[0].body if isinstance(s, ast.Assign) and ast.unparse(s.targets[0]) == "logabsdet"][0].value
        l2 = [s for s in brs[0].orelse if isinstance(s, ast.Assign) and ast.unparse(s.targets[0]) == "logabsdet"][0].value
        e4 = "%sh * w * torch.sum(self.log_scale) * outputs.new_ones(batch_size)" % sign
        e2 = "%storch.sum(self.log_scale) * outputs.new_ones(batch_size)" % sign
        if ast.unparse(l4) != e4 or ast.unparse(l2) != e2:
            raise Untranslatable("ActNorm: log-det form `%s` / `%s`" % (ast.unparse(l4), ast.unparse(l2)), m)
    lad_branches(fw, "")
    lad_branches(iv, "-")
    defs.append(("an_lad_is_hw_times_sum_log_scale", "Definition an_lad_is_hw_times_sum_log_scale : bool := true.\n"))
    init = src.method("ActNorm", "_initialize")
    expect_skeleton(init, ["If:inputs.dim() == 4", "With"])
    w = [s for s in init.body if isinstance(s, ast.With)]
    if len(w) != 1 or ast.unparse(w[0].items[0].context_expr) != "torch.no_grad()":
        raise Untranslatable("ActNorm._initialize: with torch.no_grad()", init)
    stm = [ast.unparse(s) for s in w[0].body]
    want = ["std = inputs.std(dim=0)", "mu = (inputs / std).mean(dim=0)"]
    if stm[:2] != want:
        raise Untranslatable("ActNorm._initialize: statistics `%s`" % stm[:2], init)
    vals = {}
    for s in w[0].body[2:]:
        if isinstance(s, ast.Assign):
            vals[ast.unparse(s.targets[0])] = s.value
    for need in ("self.log_scale.data", "self.shift.data", "self.initialized.data"):
        if need not in vals:
            raise Untranslatable("ActNorm._initialize: %s not assigned" % need, init)
    if ast.unparse(vals["self.initialized.data"]) != "torch.tensor(True, dtype=torch.bool)":
        raise Untranslatable("ActNorm._initialize: initialized flag", init)
    env = {"std": "v_std", "mu": "v_mu"}
    defs.append(("an_init_log_scale", "Definition an_init_log_scale {T : Type} (O : ops T) (v_std v_mu : T) : T :=\n  %s.\n"
                 % ExprTr(env).tr(vals["self.log_scale.data"])))
    defs.append(("an_init_shift", "Definition an_init_shift {T : Type} (O : ops T) (v_std v_mu : T) : T :=\n  %s.\n"
                 % ExprTr(env).tr(vals["self.shift.data"])))
    return defs, ""


GROUPS += [("Norm", g_norm, ["nflows/transforms/normalization.py"])]


GROUPS += [("SplineLinear", g_spline_linear, ["nflows/transforms/splines/linear.py"])]


# ---------------------------------------------------------------- quadratic spline
QUAD_FREE = ["inputs", "input_bin_locations", "input_bin_widths", "input_left_cdf", "input_left_heights",
             "input_right_heights"]


def g_spline_quadratic(repo):
    src = Source(repo, "nflows/transforms/splines/quadratic.py")
    fn = src.func("quadratic_spline")
    store_census(fn, {"widths": 2, "unnorm_heights_exp": 2, "unnormalized_area": 1, "heights": 2, "bin_left_cdf": 3,
                      "bin_locations": 3, "inputs": 2, "bin_idx": 2, "outputs": 6, "logabsdet": 4,
                      "__bare_calls__": 0, "__raises__": 3, "__asserts__": 0})
    defs = domain_guard(fn, "quad")
    mid = _norm_denorm(fn, "quad", defs, src.consts)
    # mid: [bin search if, kernel if]
    kern = [m for m in mid if any(t.id == "alpha" for b_ in (m.body, m.orelse) for s_ in b_ for t in _targets_of(s_))]
    if len(kern) != 1:
        raise Untranslatable("quadratic_spline: kernel `if inverse:` not found", fn)
    k = kern[0]
    for nm in ("a", "b", "c"):
        defs.append(single_def("quad_coef_" + nm, nth_assign(fn, nm, 0).value, QUAD_FREE))
    kfree = QUAD_FREE + ["a", "b", "c"]
    defs += block_defs("quad_inv", k.body, kfree, ["c_", "alpha", "outputs", "logabsdet"], consts=src.consts)
    defs += block_defs("quad_fwd", k.orelse, kfree, ["alpha", "outputs", "logabsdet"], consts=src.consts)
    defs.append(single_def("quad_width_affine", nth_assign(fn, "widths", 1).value, ["min_bin_width", "num_bins", "widths"],
                           consts=src.consts))
    defs.append(single_def("quad_unnorm_height", nth_assign(fn, "unnorm_heights_exp", 0).value, ["unnormalized_heights"],
                           consts=src.consts))
    defs.append(single_def("quad_height_affine", nth_assign(fn, "heights", 1).value, ["min_bin_height", "heights"],
                           consts=src.consts))
    # trapezoid area term ((h[:-1] + h[1:]) / 2) * w  and the boundary constant
    area = nth_assign(fn, "unnormalized_area", 0).value
    if ast.unparse(area) != "torch.sum((unnorm_heights_exp[..., :-1] + unnorm_heights_exp[..., 1:]) / 2 * widths, dim=-1)[..., None]":
        raise Untranslatable("quadratic_spline: unnormalized_area form", area)
    cdfv = nth_assign(fn, "bin_left_cdf", 0).value
    if ast.unparse(cdfv) != "torch.cumsum((heights[..., :-1] + heights[..., 1:]) / 2 * widths, dim=-1)":
        raise Untranslatable("quadratic_spline: bin_left_cdf form", cdfv)
    defs.append(("quad_trapezoid", "Definition quad_trapezoid {T : Type} (O : ops T) (hl hr w : T) : T :=\n"
                 "  (o_mul O (o_div O (o_add O hl hr) (o_ofZ O 2)) w).\n"))
    heights0 = nth_assign(fn, "heights", 0).value
    if ast.unparse(heights0) != "unnorm_heights_exp / unnormalized_area":
        raise Untranslatable("quadratic_spline: heights normalisation", heights0)
    txt = [ast.unparse(s_) for s_ in fn.body]
    for need in ("bin_left_cdf[..., -1] = 1.0", "bin_left_cdf = F.pad(bin_left_cdf, pad=(1, 0), mode='constant', value=0.0)",
                 "bin_locations = torch.cumsum(widths, dim=-1)", "bin_locations[..., -1] = 1.0",
                 "bin_locations = F.pad(bin_locations, pad=(1, 0), mode='constant', value=0.0)",
                 "widths = F.softmax(unnormalized_widths, dim=-1)"):
        if need not in txt:
            raise Untranslatable("quadratic_spline: structural statement missing: " + need, fn)
    # boundary constant of the K-1 parameterisation
    bif = [s_ for s_ in fn.body if isinstance(s_, ast.If) and ast.unparse(s_.test) == "unnorm_heights_exp.shape[-1] == num_bins - 1"]
    if len(bif) != 1:
        raise Untranslatable("quadratic_spline: boundary-height branch", fn)
    btxt = [ast.unparse(s_) for s_ in bif[0].body]
    want = ["first_widths = 0.5 * widths[..., 0]", "last_widths = 0.5 * widths[..., -1]",
            "numerator = 0.5 * first_widths * unnorm_heights_exp[..., 0] + 0.5 * last_widths * unnorm_heights_exp[..., -1] + "
            "torch.sum((unnorm_heights_exp[..., :-1] + unnorm_heights_exp[..., 1:]) / 2 * widths[..., 1:-1], dim=-1)",
            "constant = numerator / (1 - 0.5 * first_widths - 0.5 * last_widths)", "constant = constant[..., None]",
            "unnorm_heights_exp = torch.cat([constant, unnorm_heights_exp, constant], dim=-1)"]
    if btxt != want:
        raise Untranslatable("quadratic_spline: boundary constant computation changed", bif[0])
    defs.append(("quad_boundary_constant",
                 "Definition quad_boundary_constant {T : Type} (O : ops T) (w_first w_last h_first h_last inner_sum : T) : T :=\n"
                 "  let fw := o_mul O (o_lit O 1 2) w_first in let lw := o_mul O (o_lit O 1 2) w_last in\n"
                 "  let num := o_add O (o_add O (o_mul O (o_mul O (o_lit O 1 2) fw) h_first) (o_mul O (o_mul O (o_lit O 1 2) lw) h_last)) inner_sum in\n"
                 "  o_div O num (o_sub O (o_sub O (o_ofZ O 1) (o_mul O (o_lit O 1 2) fw)) (o_mul O (o_lit O 1 2) lw)).\n"))
    un = src.func("unconstrained_quadratic_spline")
    defs.append(guard_def("quad_inside_tails", nth_assign(un, "inside_interval_mask", 0).value, ["inputs", "tail_bound"], {}))
    for nm in ("DEFAULT_MIN_BIN_WIDTH", "DEFAULT_MIN_BIN_HEIGHT"):
        defs.append(("quad_" + nm, "Definition quad_%s {T : Type} (O : ops T) : T := %s.\n" % (nm, lit(src.consts[nm]))))
    return defs, ""


def _targets_of(st):
    out = []
    if isinstance(st, ast.Assign):
        for t in st.targets:
            if isinstance(t, ast.Name):
                out.append(t)
    elif isinstance(st, ast.AugAssign) and isinstance(st.target, ast.Name):
        out.append(st.target)
    return out


# ---------------------------------------------------------------- cubic spline
def g_spline_cubic(repo):
    src = Source(repo, "nflows/transforms/splines/cubic.py")
    fn = src.func("cubic_spline")
    store_census(fn, {"widths": 2, "cumwidths": 3, "heights": 2, "cumheights": 3, "slopes": 1, "derivatives": 2, "a": 2, "b": 2,
                      "c": 2, "d": 1, "inputs": 2, "bin_idx": 2, "outputs": 7, "logabsdet": 4,
                      "__bare_calls__": 0, "__raises__": 3, "__asserts__": 0})
    defs = domain_guard(fn, "cub")
    mid = _norm_denorm(fn, "cub", defs, src.consts)
    kern = [m for m in mid if any(t.id == "shifted_inputs" for s_ in m.orelse for t in _targets_of(s_))]
    if len(kern) != 1:
        raise Untranslatable("cubic_spline: kernel `if inverse:` not found", fn)
    k = kern[0]
    kfree = ["inputs", "inputs_a", "inputs_b", "inputs_c", "inputs_d", "input_left_cumwidths", "input_right_cumwidths"]
    defs += block_defs("cub_fwd", k.orelse, kfree, ["outputs", "logabsdet"], consts=src.consts)
    inv_free = kfree + ["outputs", "eps", "quadratic_threshold"]
    skip_src = [
        "three_roots_mask = discriminant >= 0", "one_root_mask = discriminant < 0", "outputs = torch.zeros_like(inputs)",
        "root1_mask = (input_left_cumwidths[three_roots_mask] - eps < root_1).float()",
        "root1_mask *= (root_1 < input_right_cumwidths[three_roots_mask] + eps).float()",
        "root2_mask = (input_left_cumwidths[three_roots_mask] - eps < root_2).float()",
        "root2_mask *= (root_2 < input_right_cumwidths[three_roots_mask] + eps).float()",
        "root3_mask = (input_left_cumwidths[three_roots_mask] - eps < root_3).float()",
        "root3_mask *= (root_3 < input_right_cumwidths[three_roots_mask] + eps).float()",
        "roots = torch.stack([root_1, root_2, root_3], dim=-1)",
        "masks = torch.stack([root1_mask, root2_mask, root3_mask], dim=-1)",
        "mask_index = torch.argsort(masks, dim=-1, descending=True)[..., 0][..., None]",
        "outputs[three_roots_mask] = torch.gather(roots, dim=-1, index=mask_index).view(-1)",
        "quadratic_mask = inputs_a.abs() < quadratic_threshold",
    ]
    defs += block_defs("cub_inv", k.body, inv_free,
                       ["discriminant", "depressed_1", "depressed_2", "outputs_at_one_root_mask", "root_1", "root_2",
                        "root_3", "outputs_at_quadratic_mask", "logabsdet"],
                       consts=src.consts, skip_src=skip_src, skip=["outputs"])
    # per-bin coefficients
    edge = {("derivatives", "L"): "v_d_left", ("derivatives", "R"): "v_d_right"}
    defs.append(single_def("cub_coef_a", nth_assign(fn, "a", 0).value, ["slopes", "widths"], edge=edge))
    defs.append(single_def("cub_coef_b", nth_assign(fn, "b", 0).value, ["slopes", "widths"], edge=edge))
    for nm, want in (("c", "derivatives[..., :-1]"), ("d", "cumheights[..., :-1]")):
        if ast.unparse(nth_assign(fn, nm, 0).value) != want:
            raise Untranslatable("cubic_spline: coefficient %s is not %s" % (nm, want), fn)
    defs.append(single_def("cub_slope", nth_assign(fn, "slopes", 0).value, ["heights", "widths"]))
    e2 = {("slopes", "L"): "v_s_left", ("slopes", "R"): "v_s_right", ("widths", "L"): "v_w_left", ("widths", "R"): "v_w_right"}
    defs.append(single_def("cub_min_something_1", nth_assign(fn, "min_something_1", 0).value, [], edge=e2))
    defs.append(single_def("cub_min_something_2", nth_assign(fn, "min_something_2", 0).value, [], edge=e2))
    defs.append(single_def("cub_min_something", nth_assign(fn, "min_something", 0).value, ["min_something_1", "min_something_2"]))
    defs.append(single_def("cub_inner_derivative", nth_assign(fn, "derivatives", 0).value, ["min_something"], edge=e2))
    dl = nth_assign(fn, "derivatives_left", 0).value
    dr = nth_assign(fn, "derivatives_right", 0).value
    tr = ExprTr({"unnorm_derivatives_left": "v_u", "unnorm_derivatives_right": "v_u"},
                subst={"slopes[..., 0][..., None]": "v_slope", "slopes[..., -1][..., None]": "v_slope"})
    if "slopes[..., 0]" not in ast.unparse(dl) or "slopes[..., -1]" not in ast.unparse(dr):
        raise Untranslatable("cubic_spline: end derivatives must use the first / last slope", fn)
    defs.append(("cub_derivative_left", "Definition cub_derivative_left {T : Type} (O : ops T) (v_u v_slope : T) : T :=\n  %s.\n" % tr.tr(dl)))
    defs.append(("cub_derivative_right", "Definition cub_derivative_right {T : Type} (O : ops T) (v_u v_slope : T) : T :=\n  %s.\n" % tr.tr(dr)))
    if ast.unparse(nth_assign(fn, "derivatives", 1).value) != "torch.cat([derivatives_left, derivatives, derivatives_right], dim=-1)":
        raise Untranslatable("cubic_spline: derivative vector assembly", fn)
    defs.append(single_def("cub_width_affine", nth_assign(fn, "widths", 1).value, ["min_bin_width", "num_bins", "widths"], consts=src.consts))
    defs.append(single_def("cub_height_affine", nth_assign(fn, "heights", 1).value, ["min_bin_height", "num_bins", "heights"], consts=src.consts))
    txt = [ast.unparse(s_) for s_ in fn.body]
    for need in ("cumwidths = torch.cumsum(widths, dim=-1)", "cumwidths[..., -1] = 1",
                 "cumwidths = F.pad(cumwidths, pad=(1, 0), mode='constant', value=0.0)",
                 "cumheights = torch.cumsum(heights, dim=-1)", "cumheights[..., -1] = 1",
                 "cumheights = F.pad(cumheights, pad=(1, 0), mode='constant', value=0.0)"):
        if need not in txt:
            raise Untranslatable("cubic_spline: structural statement missing: " + need, fn)
    un = src.func("unconstrained_cubic_spline")
    defs.append(guard_def("cub_inside_tails", nth_assign(un, "inside_interval_mask", 0).value, ["inputs", "tail_bound"], {}))
    for nm in ("DEFAULT_MIN_BIN_WIDTH", "DEFAULT_MIN_BIN_HEIGHT", "DEFAULT_EPS", "DEFAULT_QUADRATIC_THRESHOLD"):
        defs.append(("cub_" + nm, "Definition cub_%s {T : Type} (O : ops T) : T := %s.\n" % (nm, lit(src.consts[nm]))))
    return defs, "From NF Require Import Gen.Utils.\nNotation o_cbrt := utils_cbrt.\n\n"


GROUPS += [("SplineQuadratic", g_spline_quadratic, ["nflows/transforms/splines/quadratic.py"]),
           ("SplineCubic", g_spline_cubic, ["nflows/transforms/splines/cubic.py", "nflows/utils/torchutils.py"])]


# ---------------------------------------------------------------- elementwise nonlinearities
def _method_block(src, cls, meth, prefix, free, attrs, outputs, skip_src=(), skip=(), minmax_var="inputs"):
    """translate a forward/inverse method: leading `if <guard>: raise InputOutsideDomain()` statements become
    <prefix>_rejects, the rest a let-chain"""
    m = src.method(cls, meth)
    body = [s for s in m.body if not (isinstance(s, ast.Expr) and isinstance(s.value, ast.Constant))]
    defs = []
    rest = []
    guards = []
    for st in body:
        if isinstance(st, ast.If) and len(st.body) == 1 and isinstance(st.body[0], ast.Raise):
            exc = st.body[0].exc
            nm = exc.func.id if isinstance(exc, ast.Call) else getattr(exc, "id", None)
            if nm != "InputOutsideDomain" or st.orelse:
                raise Untranslatable("%s.%s: unexpected raise" % (cls, meth), st)
            guards.append(st.test)
        else:
            rest.append(st)
    if len(guards) > 1:
        raise Untranslatable("%s.%s: more than one domain guard" % (cls, meth), m)
    if guards:
        defs.append(guard_def(prefix + "_rejects", guards[0], [],
                              {("min", minmax_var): "mn", ("max", minmax_var): "mx"}, attrs=attrs))
    defs += block_defs(prefix, rest, free, outputs, attrs=attrs, skip_src=skip_src, skip=skip)
    return defs, bool(guards)


def g_nonlin(repo):
    src = Source(repo, "nflows/transforms/nonlinearities.py")
    defs = []
    has_guard = {}
    for cls, pre, attrs in (("Exp", "exp", {}), ("Tanh", "tanh", {}), ("CauchyCDF", "cauchy", {}),
                            ("Sigmoid", "sigm", {"temperature": "a_temperature", "eps": "a_eps"})):
        for meth, br in (("forward", "fwd"), ("inverse", "inv")):
            d, g = _method_block(src, cls, meth, "%s_%s" % (pre, br), ["inputs"], attrs, ["ret0", "ret1"])
            # attrs become extra binders: rewrite the binder list
            if attrs:
                extra = " ".join(sorted(set(attrs.values())))
                d = [(n, t.replace("(v_inputs : T)", "(v_inputs %s : T)" % extra)) for n, t in d]
            defs += d
            has_guard[(cls, meth)] = g
    for (cls, meth), want in {("Exp", "inverse"): True, ("Tanh", "inverse"): True, ("Sigmoid", "inverse"): True,
                               ("CauchyCDF", "inverse"): True, ("Exp", "forward"): False, ("Tanh", "forward"): False,
                               ("Sigmoid", "forward"): False, ("CauchyCDF", "forward"): False}.items():
        defs.append(("guarded_%s_%s" % (cls, meth), "Definition guarded_%s_%s : bool := %s.\n"
                     % (cls, meth, "true" if has_guard[(cls, meth)] else "false")))
    # LogTanh: three pieces selected by masks
    attrs = {"cut_point": "a_cut_point", "inv_cut_point": "a_inv_cut_point", "alpha": "a_alpha", "beta": "a_beta"}
    extra = " ".join(["a_alpha", "a_beta", "a_cut_point", "a_inv_cut_point"])
    for meth, br in (("forward", "fwd"), ("inverse", "inv")):
        m = src.method("LogTanh", meth)
        d, _ = _method_block(
            src, "LogTanh", meth, "logtanh_" + br, ["inputs", "outputs"], attrs,
            ["outputs_at_mask_middle", "outputs_at_mask_right", "outputs_at_mask_left",
             "logabsdet_at_mask_middle", "logabsdet_at_mask_right", "logabsdet_at_mask_left"],
            skip_src=["mask_middle = ~(mask_right | mask_left)", "outputs = torch.zeros_like(inputs)",
                      "logabsdet = torch.zeros_like(inputs)",
                      "logabsdet = torchutils.sum_except_batch(logabsdet, num_batch_dims=1)",
                      "return (outputs, logabsdet)"] +
            [ast.unparse(s_) for s_ in m.body if isinstance(s_, ast.Assign) and ast.unparse(s_.targets[0]) in ("mask_right", "mask_left")],
            skip=["outputs"])
        d = [(n, t.replace("(v_inputs v_outputs : T)", "(v_inputs v_outputs %s : T)" % extra)) for n, t in d]
        defs += d
        for mk in ("mask_right", "mask_left"):
            node = [s_ for s_ in m.body if isinstance(s_, ast.Assign) and ast.unparse(s_.targets[0]) == mk]
            if len(node) != 1:
                raise Untranslatable("LogTanh.%s: %s" % (meth, mk), m)
            g = guard_def("logtanh_%s_%s" % (br, mk), node[0].value, ["inputs"], {}, attrs=attrs)
            defs.append(g)
    # LogTanh constants (constructor)
    init = src.method("LogTanh", "__init__")
    cattrs = {"alpha": "a_alpha"}
    for st in init.body:
        if isinstance(st, ast.Assign) and ast.unparse(st.targets[0]) in ("self.inv_cut_point", "self.alpha", "self.beta"):
            nm = ast.unparse(st.targets[0]).split(".")[1]
            tr = ExprTr({"cut_point": "v_cut_point"}, attrs=cattrs)
            defs.append(("logtanh_const_" + nm,
                         "Definition logtanh_const_%s {T : Type} (O : ops T) (v_cut_point a_alpha : T) : T :=\n  %s.\n" % (nm, tr.tr(st.value))))
    # LeakyReLU log-det: log_negative_slope * mask, mask = (inputs < 0)
    for meth, br in (("forward", "fwd"), ("inverse", "inv")):
        m = src.method("LeakyReLU", meth)
        txt = [ast.unparse(s_) for s_ in m.body]
        slope = "self.negative_slope" if meth == "forward" else "1 / self.negative_slope"
        if txt[0] != "outputs = F.leaky_relu(inputs, negative_slope=%s)" % slope:
            raise Untranslatable("LeakyReLU.%s: output form `%s`" % (meth, txt[0]), m)
        if not txt[1].startswith("mask = (inputs < 0)"):
            raise Untranslatable("LeakyReLU.%s: mask form `%s`" % (meth, txt[1]), m)
        lad = [s_ for s_ in m.body if isinstance(s_, ast.Assign) and ast.unparse(s_.targets[0]) == "logabsdet"][0]
        tr = ExprTr({"mask": "v_mask"}, attrs={"log_negative_slope": "a_log_negative_slope"})
        defs.append(("lrelu_%s_lad" % br, "Definition lrelu_%s_lad {T : Type} (O : ops T) (v_mask a_log_negative_slope : T) : T :=\n  %s.\n"
                     % (br, tr.tr(lad.value))))
    # GatedLinearUnit
    for meth, br in (("forward", "fwd"), ("inverse", "inv")):
        d, _ = _method_block(src, "GatedLinearUnit", meth, "glu_" + br, ["inputs", "context"], {}, ["ret0", "ret1"])
        defs += d
    return defs, ""


GROUPS += [("Nonlin", g_nonlin, ["nflows/transforms/nonlinearities.py"])]


# ---------------------------------------------------------------- structural tables
def g_tables(repo):
    import tables
    text = tables.emit(repo)
    return [("tables", text)], ""


GROUPS += [("Tables", g_tables, ["nflows/**/*.py"])]


# ---------------------------------------------------------------- base distributions and the flow's log_prob
def g_dist(repo):
    src = Source(repo, "nflows/distributions/normal.py")
    defs = []
    # StandardNormal: neg_energy = -0.5 * sum(inputs ** 2); return neg_energy - self._log_z ; _log_z = 0.5 * prod(shape) * log(2 pi)
    m = src.method("StandardNormal", "_log_prob")
    ne = [s for s in m.body if isinstance(s, ast.Assign) and ast.unparse(s.targets[0]) == "neg_energy"]
    if len(ne) != 1:
        raise Untranslatable("StandardNormal._log_prob: neg_energy", m)
    defs.append(single_def("sn_neg_energy_term", ne[0].value, ["inputs"]))
    ret = [s for s in m.body if isinstance(s, ast.Return)][0]
    if ast.unparse(ret.value) != "neg_energy - self._log_z":
        raise Untranslatable("StandardNormal._log_prob: return form", ret)
    init = src.method("StandardNormal", "__init__")
    lz = None
    for st in ast.walk(init):
        if isinstance(st, ast.Call) and ast.unparse(st.func) == "self.register_buffer" and ast.unparse(st.args[0]) == "'_log_z'":
            inner = st.args[1]
            if isinstance(inner, ast.Call) and ast.unparse(inner.func) == "torch.tensor":
                lz = inner.args[0]
    if lz is None:
        raise Untranslatable("StandardNormal.__init__: _log_z buffer", init)
    tr = ExprTr({}, subst={"np.prod(shape)": "v_numel"})
    defs.append(("sn_log_z", "Definition sn_log_z {T : Type} (O : ops T) (v_numel : T) : T :=\n  %s.\n" % tr.tr(lz)))
    # ConditionalDiagonalNormal / DiagonalNormal: per-element terms
    for cls, pre in (("ConditionalDiagonalNormal", "cdn"), ("DiagonalNormal", "dn")):
        m = src.method(cls, "_log_prob")
        ni = [s for s in m.body if isinstance(s, ast.Assign) and ast.unparse(s.targets[0]) == "norm_inputs"]
        if len(ni) != 1:
            raise Untranslatable("%s._log_prob: norm_inputs" % cls, m)
        defs.append(single_def(pre + "_norm_input", ni[0].value, ["inputs", "means", "log_stds"]))
        lp = [s for s in m.body if isinstance(s, ast.Assign) and ast.unparse(s.targets[0]) == "log_prob"]
        if len(lp) != 1:
            raise Untranslatable("%s._log_prob: log_prob assignment" % cls, m)
        defs.append(single_def(pre + "_energy_term", lp[0].value, ["norm_inputs"]))
        augs = [ast.unparse(s) for s in m.body if isinstance(s, ast.AugAssign)]
        if augs != ["log_prob -= torchutils.sum_except_batch(log_stds, num_batch_dims=1)", "log_prob -= self._log_z"]:
            raise Untranslatable("%s._log_prob: correction terms %s" % (cls, augs), m)
    # sampling: means + stds * noise
    sm = src.method("ConditionalDiagonalNormal", "_sample")
    sv = [s for s in sm.body if isinstance(s, ast.Assign) and ast.unparse(s.targets[0]) == "samples"]
    defs.append(single_def("cdn_sample", sv[0].value, ["means", "stds", "noise"]))
    # Bernoulli
    dsrc = Source(repo, "nflows/distributions/discrete.py")
    m = dsrc.method("ConditionalIndependentBernoulli", "_log_prob")
    lp = [s for s in m.body if isinstance(s, ast.Assign) and ast.unparse(s.targets[0]) == "log_prob"]
    defs.append(single_def("bern_log_prob_term", lp[0].value, ["inputs", "logits"]))
    mm = dsrc.method("ConditionalIndependentBernoulli", "_mean")
    if ast.unparse(mm.body[-1]) != "return torch.sigmoid(logits)":
        raise Untranslatable("ConditionalIndependentBernoulli._mean", mm)
    # Flow._log_prob: base log-density at the transformed point plus the transform's log-abs-det, same embedded context
    fsrc = Source(repo, "nflows/flows/base.py")
    m = fsrc.method("Flow", "_log_prob")
    txt = [ast.unparse(s) for s in m.body]
    want0 = "embedded_context = self._embedding_net(context)"
    want1 = "noise, logabsdet = self._transform(inputs, context=embedded_context)"
    if txt[0] != want0 or txt[1] != want1 or txt[-1] != "return log_prob + logabsdet":
        raise Untranslatable("Flow._log_prob: structure changed: %s" % txt, m)
    if "log_prob = self._distribution.log_prob(noise, context=embedded_context)" not in ast.unparse(m):
        raise Untranslatable("Flow._log_prob: base density call", m)
    defs.append(("flow_log_prob", "Definition flow_log_prob {T : Type} (O : ops T) (v_base_log_prob v_logabsdet : T) : T :=\n"
                 "  (o_add O v_base_log_prob v_logabsdet).\n"))
    # every call into the base distribution or the transform, in all three methods, is handed the EMBEDDED context
    ok_ctx = True
    ncalls = 0
    for meth in ("_log_prob", "_sample", "sample_and_log_prob"):
        mm_ = fsrc.method("Flow", meth)
        body = [s_ for s_ in mm_.body if not (isinstance(s_, ast.Expr) and isinstance(s_.value, ast.Constant))]
        if ast.unparse(body[0]) != "embedded_context = self._embedding_net(context)":
            ok_ctx = False
        def scan(node, no_context_allowed):
            nonlocal ok_ctx, ncalls
            if isinstance(node, ast.If) and ast.unparse(node.test) == "self._context_used_in_base":
                for b in node.body:
                    scan(b, False)
                for b in node.orelse:        # the base distribution takes no context at all
                    scan(b, True)
                return
            if isinstance(node, ast.Call) and ast.unparse(node.func).startswith(("self._distribution.", "self._transform")):
                ncalls += 1
                kw = {k.arg: ast.unparse(k.value) for k in node.keywords}
                given = kw.get("context")
                if given is None and ast.unparse(node.func).startswith("self._transform") and len(node.args) > 1:
                    given = ast.unparse(node.args[1])
                if given is None:
                    if not (no_context_allowed and ast.unparse(node.func).startswith("self._distribution.")):
                        ok_ctx = False
                elif given != "embedded_context":
                    ok_ctx = False
            for ch in ast.iter_child_nodes(node):
                scan(ch, no_context_allowed)
        for st_ in body:
            scan(st_, False)
    if ncalls < 5:
        raise Untranslatable("Flow: expected calls into the distribution and the transform were not found", fsrc.cls("Flow"))
    defs.append(("flow_every_call_gets_embedded_context",
                 "Definition flow_every_call_gets_embedded_context : bool := %s.\n" % ("true" if ok_ctx else "false")))
    m = fsrc.method("Flow", "sample_and_log_prob")
    if ast.unparse(m.body[-1]) != "return (samples, log_prob - logabsdet)":
        raise Untranslatable("Flow.sample_and_log_prob: return form", m)
    defs.append(("flow_sample_log_prob", "Definition flow_sample_log_prob {T : Type} (O : ops T) (v_base_log_prob v_inverse_logabsdet : T) : T :=\n"
                 "  (o_sub O v_base_log_prob v_inverse_logabsdet).\n"))
    return defs, ""


GROUPS += [("Dist", g_dist, ["nflows/distributions/normal.py", "nflows/distributions/discrete.py", "nflows/flows/base.py"])]


# ---------------------------------------------------------------- wrappers (CompositeTransform / InverseTransform)
class WrapTr:
    """A tiny imperative language -> Gallina let-chains, enough for the wrapper classes of nflows/transforms/base.py.
    Values: data (X), log-dets (L), transforms (records with fwd / inv), lists of functions X -> X * L.
    Statements: x = e | a, b = f(x, context) | t += e | for f in funcs: ... | return e.  Everything else: Untranslatable."""

    def __init__(self, self_fields):
        self.self_fields = self_fields          # python attribute -> (gallina name, 'tr' | 'trlist')

    def expr(self, e, env):
        if isinstance(e, ast.Name):
            if e.id not in env:
                raise Untranslatable("unbound name %s" % e.id, e)
            return env[e.id]
        if isinstance(e, ast.Tuple):
            return "(" + ", ".join(self.expr(x, env) for x in e.elts) + ")"
        if isinstance(e, ast.Attribute) and isinstance(e.value, ast.Name) and e.value.id == "self" and e.attr in self.self_fields:
            g, kind = self.self_fields[e.attr]
            # a module (list) used as a function (list of functions) means its forward
            return "(map fwd %s)" % g if kind == "trlist" else "(fwd %s)" % g
        if isinstance(e, ast.Call):
            f = e.func
            if isinstance(f, ast.Attribute) and f.attr == "new_zeros" and len(e.args) == 1:
                return "lzero"
            args = [a for a in e.args if not (isinstance(a, ast.Name) and a.id == "context")]
            if len(args) != len(e.args) - 1 or e.keywords:
                raise Untranslatable("calls must pass (data, context)", e)
            fn = self.callee(f, env)
            if isinstance(f, ast.Attribute) and isinstance(f.value, ast.Name) and f.value.id == "self" and f.attr == "_cascade":
                return "(%s %s)" % (fn, " ".join(self.expr(a, env) for a in args))
            if len(args) != 1:
                raise Untranslatable("transform calls take one data argument", e)
            return "(%s %s)" % (fn, self.expr(args[0], env))
        if isinstance(e, ast.GeneratorExp) or isinstance(e, ast.ListComp):
            if len(e.generators) != 1 or e.generators[0].ifs:
                raise Untranslatable("generator form", e)
            gen = e.generators[0]
            if not isinstance(gen.target, ast.Name):
                raise Untranslatable("generator target", e)
            it = self.iterable(gen.iter, env, raw=True)
            v = gen.target.id
            elt = e.elt
            if isinstance(elt, ast.Attribute) and isinstance(elt.value, ast.Name) and elt.value.id == v and elt.attr in ("inverse", "forward"):
                return "(map %s %s)" % ("inv" if elt.attr == "inverse" else "fwd", it)
            if isinstance(elt, ast.Name) and elt.id == v:
                return "(map fwd %s)" % it
            raise Untranslatable("generator element", e)
        if isinstance(e, ast.Subscript):
            return "(map fwd %s)" % self.iterable(e, env, raw=True)
        raise Untranslatable("expression form", e)

    def callee(self, f, env):
        if isinstance(f, ast.Name):
            if f.id not in env:
                raise Untranslatable("unbound function %s" % f.id, f)
            return env[f.id]
        if isinstance(f, ast.Attribute) and isinstance(f.value, ast.Name) and f.value.id == "self" and f.attr == "_cascade":
            return "cascade_gen"
        if isinstance(f, ast.Attribute) and isinstance(f.value, ast.Name) and f.value.id == "self" and f.attr in self.self_fields:
            g, kind = self.self_fields[f.attr]
            if kind != "tr":
                raise Untranslatable("calling a list", f)
            return "fwd %s" % g
        if isinstance(f, ast.Attribute) and f.attr in ("inverse", "forward") and isinstance(f.value, ast.Attribute) \
                and isinstance(f.value.value, ast.Name) and f.value.value.id == "self" and f.value.attr in self.self_fields:
            g, kind = self.self_fields[f.value.attr]
            if kind != "tr":
                raise Untranslatable("method of a list", f)
            return "%s %s" % ("inv" if f.attr == "inverse" else "fwd", g)
        raise Untranslatable("callee form", f)

    def iterable(self, e, env, raw=False):
        """a list of transforms (raw) -- self.<list>, optionally reversed by [::-1]"""
        if isinstance(e, ast.Attribute) and isinstance(e.value, ast.Name) and e.value.id == "self" and e.attr in self.self_fields \
                and self.self_fields[e.attr][1] == "trlist":
            return self.self_fields[e.attr][0]
        if isinstance(e, ast.Subscript) and isinstance(e.slice, ast.Slice):
            s = e.slice
            if s.lower is None and s.upper is None and s.step is not None and ast.unparse(s.step) == "-1":
                return "(rev %s)" % self.iterable(e.value, env, raw=True)
        raise Untranslatable("iterable form", e)

    def block(self, stmts, env):
        """-> gallina expression for the statements (must end in return)"""
        if not stmts:
            raise Untranslatable("function falls off its end")
        st, rest = stmts[0], stmts[1:]
        if isinstance(st, ast.Expr) and isinstance(st.value, ast.Constant):
            return self.block(rest, env)
        if isinstance(st, ast.Return):
            if rest:
                raise Untranslatable("code after return", st)
            return self.expr(st.value, env)
        if isinstance(st, ast.Assign) and len(st.targets) == 1:
            t = st.targets[0]
            if isinstance(t, ast.Name):
                if ast.unparse(st.value) == "inputs.shape[0]":      # a size, only used to allocate zeros
                    return self.block(rest, dict(env, **{t.id: "tt"}))
                v = self.expr(st.value, env)
                return "let %s := %s in\n  %s" % (t.id, v, self.block(rest, dict(env, **{t.id: t.id})))
            if isinstance(t, ast.Tuple) and all(isinstance(x, ast.Name) for x in t.elts):
                v = self.expr(st.value, env)
                names = [x.id for x in t.elts]
                env2 = dict(env, **{n: n for n in names})
                return "let '(%s) := %s in\n  %s" % (", ".join(names), v, self.block(rest, env2))
        if isinstance(st, ast.AugAssign) and isinstance(st.target, ast.Name) and isinstance(st.op, ast.Add):
            n = st.target.id
            if n not in env:
                raise Untranslatable("augmented assignment to unbound name", st)
            return "let %s := ladd %s %s in\n  %s" % (n, env[n], self.expr(st.value, env), self.block(rest, dict(env, **{n: n})))
        if isinstance(st, ast.For) and isinstance(st.target, ast.Name) and not st.orelse:
            carried = []
            for b in st.body:
                for tnode in ([b.target] if isinstance(b, ast.AugAssign) else b.targets if isinstance(b, ast.Assign) else []):
                    for nm in ([tnode] if isinstance(tnode, ast.Name) else tnode.elts if isinstance(tnode, ast.Tuple) else []):
                        if isinstance(nm, ast.Name) and nm.id in env and nm.id not in carried:
                            carried.append(nm.id)
            if not carried:
                raise Untranslatable("loop without carried state", st)
            it = self.expr(st.iter, env)
            tup = "(" + ", ".join(carried) + ")"
            body_env = dict(env, **{c: c for c in carried})
            body_env[st.target.id] = st.target.id
            ret = ast.Return(value=ast.Tuple(elts=[ast.Name(id=c, ctx=ast.Load()) for c in carried], ctx=ast.Load()))
            body = self.block(list(st.body) + [ret], body_env)
            init = "(" + ", ".join(env[c] for c in carried) + ")"
            return ("let '%s := fold_left (fun st_ %s => let '%s := st_ in\n  %s) %s %s in\n  %s"
                    % (tup, st.target.id, tup, body, it, init, self.block(rest, dict(env, **{c: c for c in carried}))))
        raise Untranslatable("statement form", st)


def _init_fields(fn, allowed):
    """__init__ must be: [docstring,] super().__init__(), then only `self.<attr> = <parameter>` or
    `self.<attr> = nn.ModuleList(<parameter>)`; returns {attr: parameter}"""
    params = [a.arg for a in fn.args.args[1:]]
    out = {}
    for st in fn.body:
        if isinstance(st, ast.Expr) and isinstance(st.value, ast.Constant):
            continue
        if isinstance(st, ast.Expr) and ast.unparse(st.value) == "super().__init__()":
            continue
        if isinstance(st, ast.Assign) and len(st.targets) == 1 and isinstance(st.targets[0], ast.Attribute) \
                and isinstance(st.targets[0].value, ast.Name) and st.targets[0].value.id == "self":
            v = st.value
            if isinstance(v, ast.Call) and ast.unparse(v.func) == "nn.ModuleList" and len(v.args) == 1:
                v = v.args[0]
            if isinstance(v, ast.Name) and v.id in params and st.targets[0].attr in allowed:
                out[st.targets[0].attr] = v.id
                continue
        raise Untranslatable("%s.__init__: only `self.<field> = <argument>` is understood" % fn.name, st)
    return out


def g_wrappers(repo):
    src = Source(repo, "nflows/transforms/base.py")
    defs = []
    # ---- CompositeTransform
    f = _init_fields(src.method("CompositeTransform", "__init__"), {"_transforms"})
    if f != {"_transforms": "transforms"}:
        raise Untranslatable("CompositeTransform.__init__ must store its argument in _transforms")
    defs.append(("composite_init", "Definition composite_init (transforms : list tr) : list tr := transforms.\n"))
    casc = src.method("CompositeTransform", "_cascade")
    if [a.arg for a in casc.args.args] != ["inputs", "funcs", "context"]:
        raise Untranslatable("_cascade signature", casc)
    w = WrapTr({"_transforms": ("self_transforms", "trlist")})
    body = w.block(casc.body, {"inputs": "inputs", "funcs": "funcs"})
    defs.append(("cascade_gen", "Definition cascade_gen (inputs : X) (funcs : list (X -> X * L)) : X * L :=\n  %s.\n" % body))
    for meth in ("forward", "inverse"):
        m = src.method("CompositeTransform", meth)
        if [a.arg for a in m.args.args] != ["self", "inputs", "context"]:
            raise Untranslatable("CompositeTransform.%s signature" % meth, m)
        body = w.block(m.body, {"inputs": "inputs"})
        defs.append(("composite_" + meth, "Definition composite_%s (self_transforms : list tr) (inputs : X) : X * L :=\n  %s.\n" % (meth, body)))
    # ---- InverseTransform
    f = _init_fields(src.method("InverseTransform", "__init__"), {"_transform"})
    if f != {"_transform": "transform"}:
        raise Untranslatable("InverseTransform.__init__ must store its argument in _transform")
    defs.append(("inverse_init", "Definition inverse_init (transform : tr) : tr := transform.\n"))
    wi = WrapTr({"_transform": ("self_transform", "tr")})
    for meth in ("forward", "inverse"):
        m = src.method("InverseTransform", meth)
        if [a.arg for a in m.args.args] != ["self", "inputs", "context"]:
            raise Untranslatable("InverseTransform.%s signature" % meth, m)
        body = wi.block(m.body, {"inputs": "inputs"})
        defs.append(("inverse_" + meth, "Definition inverse_%s (self_transform : tr) (inputs : X) : X * L :=\n  %s.\n" % (meth, body)))
    header = ("From NF Require Import Model.Compose.\nLocal Close Scope Z_scope.\n"
              "Section Wrappers.\nContext {X L : Type}.\nVariables (ladd : L -> L -> L) (lzero : L).\nNotation tr := (tr X L).\n\n")
    defs.append(("_end", "End Wrappers.\n"))
    return defs, header


GROUPS += [("Wrappers", g_wrappers, ["nflows/transforms/base.py"])]


# ---------------------------------------------------------------- the context reaches every part
def context_table(src, classes, callee_rx, skip_rx=None):
    """Every call, inside a method of `classes` that takes a `context` parameter, whose callee text matches callee_rx (the
    sub-transforms, their inverses, conditioner networks, internal cascades): does it hand on `context` - positionally or as
    context=context?  -> rows (class.method, call text, bool)."""
    import re
    rows = []
    for node in src.tree.body:
        if not (isinstance(node, ast.ClassDef) and node.name in classes):
            continue
        for m_ in node.body:
            if not isinstance(m_, ast.FunctionDef) or "context" not in [a.arg for a in m_.args.args]:
                continue
            for c in ast.walk(m_):
                if not isinstance(c, ast.Call):
                    continue
                callee = ast.unparse(c.func)
                if not c.args or not re.search(callee_rx, callee) or (skip_rx and re.search(skip_rx, callee)):
                    continue
                passes = any(isinstance(a, ast.Name) and a.id == "context" for a in c.args) or \
                    any(k.arg == "context" and isinstance(k.value, ast.Name) and k.value.id == "context" for k in c.keywords)
                txt = ast.unparse(c)
                if '"' in txt:
                    raise Untranslatable("context table: quote in call text", c)
                rows.append(("%s.%s" % (node.name, m_.name), txt if len(txt) < 90 else txt[:87] + "...", passes))
    return rows


def g_context(repo):
    defs = []
    spec = [("wrappers", "nflows/transforms/base.py", {"CompositeTransform", "MultiscaleCompositeTransform", "InverseTransform"},
             r"(transform|func|_cascade)", r"(\.append$|\.format$|^len$|_transforms$|^zip$|^reversed$|^list$)"),
            ("coupling", "nflows/transforms/coupling.py", {"CouplingTransform", "UMNNCouplingTransform"},
             r"(transform_net|unconditional_transform)", None),
            ("autoregressive", "nflows/transforms/autoregressive.py", {"AutoregressiveTransform"},
             r"(autoregressive_net)", None)]
    for name, path, classes, rx, skip in spec:
        src = Source(repo, path)
        rows = context_table(src, classes, rx, skip)
        if not rows:
            raise Untranslatable("%s: no sub-transform / conditioner calls found" % path, src.tree)
        tbl = "; ".join('("%s", "%s", %s)' % (a, b, "true" if c else "false") for a, b, c in rows)
        defs.append((name + "_context_forwarding",
                     "Definition %s_context_forwarding : list (string * string * bool) := [%s].\n" % (name, tbl)))
    # who decides whether the identity features get a transform of their own: in every coupling constructor the assignment of
    # `unconditional_transform` sits under a test, and the other branch assigns None
    src = Source(repo, "nflows/transforms/coupling.py")
    gates = []
    for node in src.tree.body:
        if not isinstance(node, ast.ClassDef):
            continue
        for m_ in node.body:
            if not (isinstance(m_, ast.FunctionDef) and m_.name == "__init__"):
                continue

            def assigns(stmts):
                return [st for st in stmts if isinstance(st, ast.Assign) and ast.unparse(st.targets[0]) in ("unconditional_transform", "self.unconditional_transform")]
            for st in ast.walk(m_):
                if isinstance(st, ast.If) and assigns(st.body):
                    other = assigns(st.orelse)
                    gates.append((node.name, ast.unparse(st.test), ast.unparse(other[0].value) if other else "(nothing)"))
            top = [st for st in assigns(m_.body) if not (isinstance(st.value, ast.Name) or ast.unparse(st.value).startswith("unconditional_transform("))]
            for st in top:
                gates.append((node.name, "(always)", ast.unparse(st.value)[:60]))
    if not gates:
        raise Untranslatable("coupling.py: no constructor decides about unconditional_transform", src.tree)
    gt = "; ".join('("%s", "%s", "%s")' % tuple(x.replace('"', "'") for x in g_) for g_ in gates)
    defs.append(("coupling_unconditional_gates",
                 "Definition coupling_unconditional_gates : list (string * string * string) := [%s].\n" % gt))
    return defs, "From Coq Require Import String List.\nImport ListNotations.\nLocal Open Scope string_scope.\n\n"


GROUPS += [("Context", g_context, ["nflows/transforms/base.py", "nflows/transforms/coupling.py", "nflows/transforms/autoregressive.py"])]


# ---------------------------------------------------------------- unconstrained_* wrappers (linear tails), per element
def _strip_mask(e, mask):
    """X[mask] / X[mask, :] -> X"""
    if isinstance(e, ast.Subscript):
        sl = e.slice
        if isinstance(sl, ast.Name) and sl.id == mask:
            return e.value, True
        if isinstance(sl, ast.Tuple) and len(sl.elts) == 2 and isinstance(sl.elts[0], ast.Name) and sl.elts[0].id == mask \
                and isinstance(sl.elts[1], ast.Slice) and sl.elts[1].lower is None and sl.elts[1].upper is None and sl.elts[1].step is None:
            return e.value, True
    return e, False


def tail_wrapper(src, un_name, inner_name, prefix):
    """Translate unconstrained_<family>_spline statement by statement into a per-element function:
       inside the interval -> the inner spline on the element (every keyword argument translated; arguments not passed take
       the inner function's declared default), outside -> what the tails branch writes.  Any statement outside the
       recognised forms (e.g. a batch-wide shortcut) is untranslatable."""
    un, inner = src.func(un_name), src.func(inner_name)
    BOOLS = {"inverse", "enable_identity_init"}

    def sig(fn):
        args = fn.args.args
        nd = len(args) - len(fn.args.defaults)
        return [(a.arg, None if i < nd else fn.args.defaults[i - nd]) for i, a in enumerate(args)]
    usig, isig = sig(un), sig(inner)
    tensors_in = [n for n, d in isig if d is None]
    if tensors_in[0] != "inputs":
        raise Untranslatable("%s: first argument must be inputs" % inner_name, inner)
    tensors_un = [n for n, d in usig if d is None]
    scal_un = [n for n, d in usig if d is not None and n != "tails"]
    env_scal = {n: "v_" + n for n in scal_un if n not in BOOLS}
    tensor_expr = {n: "p_" + n for n in tensors_un[1:]}
    tensor_expr["inputs"] = "x"
    mask_name = outside_name = None
    outside_vals = {}
    inner_kwargs = None
    seen_return = False
    for st in un.body:
        if isinstance(st, ast.Expr) and isinstance(st.value, ast.Constant):
            continue
        if seen_return:
            raise Untranslatable("%s: code after return" % un_name, st)
        if isinstance(st, ast.Assign) and len(st.targets) == 1 and isinstance(st.targets[0], ast.Name):
            t, v = st.targets[0].id, st.value
            if mask_name is None and isinstance(v, ast.BinOp) and isinstance(v.op, ast.BitAnd):
                mask_name, mask_expr = t, v
                continue
            if mask_name and isinstance(v, ast.UnaryOp) and isinstance(v.op, ast.Invert) and isinstance(v.operand, ast.Name) \
                    and v.operand.id == mask_name:
                outside_name = t
                continue
            if t in ("outputs", "logabsdet") and ast.unparse(v) == "torch.zeros_like(inputs)":
                continue
            if isinstance(v, ast.Subscript) and isinstance(v.value, ast.Attribute) and v.value.attr == "shape":
                continue     # a size
            raise Untranslatable("%s: assignment form" % un_name, st)
        if isinstance(st, ast.If) and ast.unparse(st.test) == "tails == 'linear'":
            if not (len(st.orelse) == 1 and isinstance(st.orelse[0], ast.Raise)):
                raise Untranslatable("%s: other tails must raise" % un_name, st)
            for b in st.body:
                if isinstance(b, ast.Assert):
                    continue
                if isinstance(b, ast.Assign) and len(b.targets) == 1:
                    bt = b.targets[0]
                    if isinstance(bt, ast.Subscript) and isinstance(bt.value, ast.Name) and bt.value.id in ("outputs", "logabsdet") \
                            and isinstance(bt.slice, ast.Name) and bt.slice.id == outside_name:
                        rhs, masked = _strip_mask(b.value, outside_name)
                        if masked and isinstance(rhs, ast.Name) and rhs.id == "inputs":
                            outside_vals[bt.value.id] = "x"
                        elif isinstance(b.value, ast.Constant) and isinstance(b.value.value, (int, float)):
                            outside_vals[bt.value.id] = lit(b.value.value)
                        else:
                            raise Untranslatable("%s: tails value" % un_name, b)
                        continue
                    # rational-quadratic: the derivative vector gets one constant at each end
                    if isinstance(bt, ast.Name) and bt.id in tensor_expr and isinstance(b.value, ast.Call) \
                            and ast.unparse(b.value.func) == "F.pad" and ast.unparse(b.value.args[0]) == bt.id \
                            and [ast.unparse(k.value) for k in b.value.keywords] == ["(1, 1)"]:
                        tensor_expr[bt.id] = "(pad_ends PAD_%s %s)" % (bt.id, tensor_expr[bt.id])
                        continue
                    if isinstance(bt, ast.Name) and bt.id == "constant":
                        const_term = ExprTr(dict(env_scal), consts=src.consts).tr(b.value)
                        continue
                    if isinstance(bt, ast.Subscript) and isinstance(bt.value, ast.Name) and bt.value.id in tensor_expr \
                            and ast.unparse(bt.slice) in ("(..., 0)", "(..., -1)") and ast.unparse(b.value) == "constant":
                        which = "first" if ast.unparse(bt.slice) == "(..., 0)" else "last"
                        outside_vals.setdefault("_pad_" + bt.value.id, set()).add(which)
                        continue
                raise Untranslatable("%s: statement in the tails branch" % un_name, b)
            continue
        if isinstance(st, ast.If) and ast.unparse(st.test) == "torch.any(%s)" % mask_name and not st.orelse and len(st.body) == 1:
            a = st.body[0]
            if not (isinstance(a, ast.Assign) and len(a.targets) == 1 and isinstance(a.targets[0], ast.Tuple)
                    and [ast.unparse(x) for x in a.targets[0].elts] == ["outputs[%s]" % mask_name, "logabsdet[%s]" % mask_name]
                    and isinstance(a.value, ast.Call) and ast.unparse(a.value.func) == inner_name and not a.value.args):
                raise Untranslatable("%s: the inside branch must assign the inner spline's results under the mask" % un_name, a)
            inner_kwargs = {k.arg: k.value for k in a.value.keywords}
            continue
        if isinstance(st, ast.Return):
            if ast.unparse(st.value) != "(outputs, logabsdet)":
                raise Untranslatable("%s: return form" % un_name, st)
            seen_return = True
            continue
        raise Untranslatable("%s: statement form (only masked element-wise statements are understood)" % un_name, st)
    if inner_kwargs is None or not seen_return or set(outside_vals) - {k for k in outside_vals if k.startswith("_pad_")} != {"outputs", "logabsdet"}:
        raise Untranslatable("%s: incomplete wrapper" % un_name, un)
    # arguments of the inner call, in the order of its signature
    args = []
    etr = ExprTr(dict(env_scal), consts=src.consts)
    for n, d in isig:
        if n in inner_kwargs:
            v, masked = _strip_mask(inner_kwargs[n], mask_name)
            if d is None:
                if not (masked and isinstance(v, ast.Name) and v.id in tensor_expr):
                    raise Untranslatable("%s: tensor argument %s must be taken under the mask" % (un_name, n), inner_kwargs[n])
                args.append(tensor_expr[v.id])
            elif n in BOOLS:
                if not (isinstance(v, ast.Name) and v.id in BOOLS):
                    raise Untranslatable("%s: flag argument %s" % (un_name, n), v)
                args.append("b_" + v.id)
            else:
                args.append(etr.tr(v))
        else:
            if d is None:
                raise Untranslatable("%s: tensor argument %s not passed" % (un_name, n), un)
            if n in BOOLS:
                args.append("true" if ast.unparse(d) == "True" else "false")
            else:
                args.append(ExprTr({}, consts=src.consts).tr(d))
    unknown = set(inner_kwargs) - {n for n, _ in isig}
    if unknown:
        raise Untranslatable("%s: unknown keyword %s" % (un_name, sorted(unknown)), un)
    body_args = " ".join(args)
    for tname in [k[5:] for k in outside_vals if k.startswith("_pad_")]:
        if outside_vals["_pad_" + tname] != {"first", "last"}:
            raise Untranslatable("%s: both ends of %s must receive the constant" % (un_name, tname), un)
        body_args = body_args.replace("PAD_" + tname, const_term)
    if "PAD_" in body_args:
        raise Untranslatable("%s: padded vector without constants" % un_name, un)
    inside = GuardTr(dict(env_scal, inputs="x"), minmax={}, consts=src.consts).trb(mask_expr)
    tens_b = " ".join("p_" + n for n in tensors_un[1:])
    scal_b = " ".join("v_" + n for n in scal_un if n not in BOOLS)
    bool_b = " ".join("b_" + n for n in scal_un if n in BOOLS)
    inner_ty = " -> ".join(["T"] + ["list T"] * (len(tensors_in) - 1) + [("bool" if n in BOOLS else "T") for n, d in isig if d is not None] + ["T * T"])
    text = ("Definition %s_tails_elem {T : Type} (O : ops T) (inner : %s) (x : T) (%s : list T)%s%s : T * T :=\n"
            "  if %s then inner %s else (%s, %s).\n"
            % (prefix, inner_ty, tens_b, " (%s : T)" % scal_b if scal_b else "", " (%s : bool)" % bool_b if bool_b else "",
               inside, body_args, outside_vals["outputs"], outside_vals["logabsdet"]))
    return (prefix + "_tails_elem", text)


def g_tail_wrappers(repo):
    defs = [("pad_ends", "Definition pad_ends {T : Type} (c : T) (l : list T) : list T := c :: l ++ [c].\n")]
    for rel, un, inner, prefix in (("nflows/transforms/splines/linear.py", "unconstrained_linear_spline", "linear_spline", "lin"),
                                   ("nflows/transforms/splines/quadratic.py", "unconstrained_quadratic_spline", "quadratic_spline", "quad"),
                                   ("nflows/transforms/splines/cubic.py", "unconstrained_cubic_spline", "cubic_spline", "cub"),
                                   ("nflows/transforms/splines/rational_quadratic.py", "unconstrained_rational_quadratic_spline",
                                    "rational_quadratic_spline", "rq")):
        defs.append(tail_wrapper(Source(repo, rel), un, inner, prefix))
    return defs, ""


GROUPS += [("TailWrappers", g_tail_wrappers, ["nflows/transforms/splines/linear.py", "nflows/transforms/splines/quadratic.py",
                                               "nflows/transforms/splines/cubic.py", "nflows/transforms/splines/rational_quadratic.py"])]


# ---------------------------------------------------------------- linear family: matrix expression trees
class MatTr:
    """weight / weight_inverse / forward_no_cache / inverse_no_cache / logabsdet of LULinear, QRLinear, SVDLinear, NaiveLinear
    -> terms of Model/MatExpr.v (mexpr, sexpr).  Statement forms: assignments, tuple assignments from a sub-transform call,
    augmented += / *= / /= with self.bias / self.diagonal, return."""

    def __init__(self, cls):
        self.cls = cls

    def m(self, e, env):
        u = ast.unparse(e)
        if isinstance(e, ast.Name):
            if e.id not in env:
                raise Untranslatable("%s: unbound matrix %s" % (self.cls, e.id), e)
            return env[e.id]
        if u == "self._weight":
            return "EW"
        if isinstance(e, ast.Call):
            f = ast.unparse(e.func)
            kw = {k.arg: k.value for k in e.keywords}
            if f == "torch.eye":
                return "EEye"
            if f == "torch.diag" and len(e.args) == 1:
                a = ast.unparse(e.args[0])
                if a == "self.diagonal":
                    return "(EDiag false)"
                if a == "torch.reciprocal(self.diagonal)":
                    return "(EDiag true)"
                raise Untranslatable("%s: torch.diag argument" % self.cls, e)
            if f == "F.linear" and len(e.args) in (2, 3) and not kw:
                if len(e.args) == 3 and ast.unparse(e.args[2]) != "self.bias":
                    raise Untranslatable("%s: F.linear bias" % self.cls, e)
                return "(ELinear %s %s %s)" % (self.m(e.args[0], env), self.m(e.args[1], env), "true" if len(e.args) == 3 else "false")
            if f == "torch.linalg.solve_triangular" and len(e.args) == 2:
                def flag(name, default):
                    if name not in kw:
                        return default
                    v = kw[name]
                    if isinstance(v, ast.Constant) and isinstance(v.value, bool):
                        return "true" if v.value else "false"
                    raise Untranslatable("%s: solve_triangular flag %s" % (self.cls, name), e)
                if set(kw) - {"upper", "unitriangular"} or "upper" not in kw:
                    raise Untranslatable("%s: solve_triangular keywords" % self.cls, e)
                return "(ESolve %s %s %s %s)" % (flag("upper", None), flag("unitriangular", "false"), self.m(e.args[0], env), self.m(e.args[1], env))
            if f == "torch.inverse" and len(e.args) == 1:
                return "(EInv %s)" % self.m(e.args[0], env)
            if f == "torch.lu_solve" and len(e.args) == 3 and ast.unparse(e.args[1]) == "lu" and ast.unparse(e.args[2]) == "lu_pivots":
                if env.get("lu") != "LU(EW)":
                    raise Untranslatable("%s: lu must be torch.lu(self._weight)" % self.cls, e)
                b = self.m(e.args[0], env)
                return "(EInv EW)" if b == "EEye" else "(ELuSolve EW %s)" % b
            if isinstance(e.func, ast.Attribute) and e.func.attr == "t" and not e.args:
                return "(ETr %s)" % self.m(e.func.value, env)
            raise Untranslatable("%s: matrix call %s" % (self.cls, f), e)
        if isinstance(e, ast.BinOp):
            if isinstance(e.op, ast.MatMult):
                return "(EMul %s %s)" % (self.m(e.left, env), self.m(e.right, env))
            if isinstance(e.op, (ast.Add, ast.Sub)) and ast.unparse(e.right) == "self.bias":
                return "(EBias %s %s)" % ("true" if isinstance(e.op, ast.Sub) else "false", self.m(e.left, env))
        raise Untranslatable("%s: matrix expression %s" % (self.cls, u[:60]), e)

    def s(self, e, env):
        u = ast.unparse(e)
        if isinstance(e, ast.Name) and e.id in env:
            return env[e.id]
        if u == "self.logabsdet()":
            return "SLogAbsDet"
        if u in ("torch.sum(torch.log(self.upper_diag))", "torch.sum(self.log_upper_diag)", "torch.sum(self.log_diagonal)"):
            return "SSumLogDiag"
        if u == "torchutils.logabsdet(self._weight)":
            return "SSlogdetW"
        if u == "torch.sum(torch.log(torch.abs(torch.diag(lu))))":
            if env.get("lu") != "LU(EW)":
                raise Untranslatable("%s: lu must be torch.lu(self._weight)" % self.cls, e)
            return "SSumLogAbsDiagLU"
        if isinstance(e, ast.UnaryOp) and isinstance(e.op, ast.USub):
            return "(SNeg %s)" % self.s(e.operand, env)
        if isinstance(e, ast.BinOp) and isinstance(e.op, ast.Mult):
            # scalar * ones(batch): the per-row value is the scalar
            for a, b in ((e.left, e.right), (e.right, e.left)):
                ub = ast.unparse(b)
                if ub.endswith(".new_ones(outputs.shape[0])") or ub.endswith(".new_ones(batch_size)") or ub.endswith(".new_ones(inputs.shape[0])"):
                    return self.s(a, env)
        raise Untranslatable("%s: scalar expression %s" % (self.cls, u[:60]), e)

    def method(self, fn):
        """-> (kind, term[s]) for a method body"""
        env = {"inputs": "EIn"}
        senv = {}
        for st in fn.body:
            if isinstance(st, ast.Expr) and isinstance(st.value, ast.Constant):
                continue
            if isinstance(st, ast.Assign) and len(st.targets) == 1:
                t, v = st.targets[0], st.value
                uv = ast.unparse(v)
                if isinstance(t, ast.Tuple):
                    names = [ast.unparse(x) for x in t.elts]
                    if uv == "self._create_lower_upper()" and names == ["lower", "upper"]:
                        env["lower"], env["upper"] = "ELower", "EUpper"
                        continue
                    if uv == "torch.lu(self._weight)" and names == ["lu", "lu_pivots"]:
                        env["lu"] = "LU(EW)"
                        senv["lu"] = "LU(EW)"
                        continue
                    if len(names) == 2 and names[1] == "_" and isinstance(v, ast.Call):
                        f = ast.unparse(v.func)
                        mt = {"self.orthogonal": (1, False), "self.orthogonal.inverse": (1, True),
                              "self.orthogonal_1": (1, False), "self.orthogonal_1.inverse": (1, True),
                              "self.orthogonal_2": (2, False), "self.orthogonal_2.inverse": (2, True)}
                        if f in mt and len(v.args) == 1 and not v.keywords:
                            k, inv = mt[f]
                            env[names[0]] = "(EOrth %d %s %s)" % (k, "true" if inv else "false", self.m(v.args[0], env))
                            continue
                    raise Untranslatable("%s.%s: tuple assignment" % (self.cls, fn.name), st)
                if isinstance(t, ast.Name):
                    if uv == "self._create_upper()":
                        env[t.id] = "EUpper"
                        continue
                    if uv == "inputs.shape[0]":
                        continue
                    if t.id.startswith("logabsdet"):
                        senv[t.id] = self.s(v, senv)
                        continue
                    env[t.id] = self.m(v, env)
                    continue
            if isinstance(st, ast.AugAssign) and isinstance(st.target, ast.Name) and st.target.id in env:
                rv = ast.unparse(st.value)
                if rv == "self.bias" and isinstance(st.op, (ast.Add, ast.Sub)):
                    env[st.target.id] = "(EBias %s %s)" % ("true" if isinstance(st.op, ast.Sub) else "false", env[st.target.id])
                    continue
                if rv == "self.diagonal" and isinstance(st.op, (ast.Mult, ast.Div)):
                    env[st.target.id] = "(EScale %s %s)" % ("true" if isinstance(st.op, ast.Div) else "false", env[st.target.id])
                    continue
            if isinstance(st, ast.Return):
                v = st.value
                if isinstance(v, ast.Tuple) and len(v.elts) == 2:
                    a, b = v.elts
                    return ("pair", self.m(a, env), self.s(b, senv))
                try:
                    return ("matrix", self.m(v, env))
                except Untranslatable:
                    return ("scalar", self.s(v, senv))
            raise Untranslatable("%s.%s: statement form" % (self.cls, fn.name), st)
        raise Untranslatable("%s.%s: no return" % (self.cls, fn.name), fn)


def g_linear_family(repo):
    defs = []
    plan = [("nflows/transforms/lu.py", "LULinear", "lu"), ("nflows/transforms/qr.py", "QRLinear", "qr"),
            ("nflows/transforms/svd.py", "SVDLinear", "svd"), ("nflows/transforms/linear.py", "NaiveLinear", "naive")]
    for rel, cls, pre in plan:
        src = Source(repo, rel)
        tr = MatTr(cls)
        for meth in ("weight", "weight_inverse", "logabsdet", "forward_no_cache", "inverse_no_cache"):
            r = tr.method(src.method(cls, meth))
            if r[0] == "matrix":
                defs.append(("%s_%s" % (pre, meth), "Definition %s_%s : mexpr := %s.\n" % (pre, meth, r[1])))
            elif r[0] == "scalar":
                defs.append(("%s_%s" % (pre, meth), "Definition %s_%s : sexpr := %s.\n" % (pre, meth, r[1])))
            else:
                defs.append(("%s_%s" % (pre, meth), "Definition %s_%s : mexpr * sexpr := (%s, %s).\n" % (pre, meth, r[1], r[2])))
        # optional combined accessor (the cache fills from it)
        for meth in ("weight_and_logabsdet", "weight_inverse_and_logabsdet"):
            try:
                fn = src.method(cls, meth)
            except Untranslatable:
                continue
            r = tr.method(fn)
            if r[0] != "pair":
                raise Untranslatable("%s.%s must return (matrix, logabsdet)" % (cls, meth), fn)
            defs.append(("%s_%s" % (pre, meth), "Definition %s_%s : mexpr * sexpr := (%s, %s).\n" % (pre, meth, r[1], r[2])))
    # the base class' combined accessors (used when a subclass does not override them)
    src = Source(repo, "nflows/transforms/linear.py")
    for meth, want in (("weight_and_logabsdet", "return (self.weight(), self.logabsdet())"),
                       ("weight_inverse_and_logabsdet", "return (self.weight_inverse(), self.logabsdet())")):
        fn = src.method("Linear", meth)
        body = [s_ for s_ in fn.body if not (isinstance(s_, ast.Expr) and isinstance(s_.value, ast.Constant))]
        if len(body) != 1 or ast.unparse(body[0]) != want:
            raise Untranslatable("Linear.%s must be `%s`" % (meth, want), fn)
    defs.append(("base_combined_accessors_delegate", "Definition base_combined_accessors_delegate : bool := true.\n"))
    return defs, "From NF Require Import Model.MatExpr.\n\n"


GROUPS += [("LinearFamily", g_linear_family, ["nflows/transforms/lu.py", "nflows/transforms/qr.py", "nflows/transforms/svd.py",
                                               "nflows/transforms/linear.py"])]


# ---------------------------------------------------------------- sampling paths as row-layout programs
class RowTr:
    """statements over row batches: merge_leading_dims(v, num_dims=2) -> concat; repeat_rows(v, num_reps=n) -> rep_rows n;
    split_leading_dim(v, shape=[-1, n] | [k, n]) -> chunks; self._transform.inverse(a, context=b) -> zip_with inv;
    elementwise arithmetic between equally laid out batches -> rows_zip; `if <ctx> is not None:` bodies are followed (the
    with-context path); the `if self._context_used_in_base` test takes its first branch"""

    def __init__(self, what):
        self.what = what
        self.lets = []

    def bind(self, name, term):
        self.lets.append((name, term))

    def expr(self, e, env):
        u = ast.unparse(e)
        if isinstance(e, ast.Name):
            if e.id not in env:
                raise Untranslatable("%s: unbound %s" % (self.what, e.id), e)
            return env[e.id]
        if isinstance(e, ast.Call):
            f = ast.unparse(e.func)
            kw = {k.arg: k.value for k in e.keywords}
            if f == "torchutils.merge_leading_dims" and len(e.args) == 1 and ast.unparse(kw.get("num_dims")) == "2":
                return "(concat %s)" % self.expr(e.args[0], env)
            if f == "torchutils.repeat_rows":
                n = kw.get("num_reps", e.args[1] if len(e.args) > 1 else None)
                if n is None or ast.unparse(n) != "num_samples":
                    raise Untranslatable("%s: repeat_rows count" % self.what, e)
                return "(rep_rows n %s)" % self.expr(e.args[0], env)
            if f == "torchutils.split_leading_dim":
                shp = kw.get("shape", e.args[1] if len(e.args) > 1 else None)
                us = ast.unparse(shp)
                v = self.expr(e.args[0], env)
                if us == "[-1, num_samples]":
                    return "(chunks n (length %s / n) %s)" % (v, v)
                if us == "[context_size, num_samples]":
                    return "(chunks n k %s)" % v
                raise Untranslatable("%s: split shape %s" % (self.what, us), e)
            if f == "torch.exp" and len(e.args) == 1:
                return "(rows_map (o_exp O) %s)" % self.expr(e.args[0], env)
            raise Untranslatable("%s: call %s" % (self.what, f), e)
        if isinstance(e, ast.BinOp) and isinstance(e.op, (ast.Add, ast.Mult, ast.Sub)):
            op = {ast.Add: "o_add", ast.Mult: "o_mul", ast.Sub: "o_sub"}[type(e.op)]
            return "(rows_zip (%s O) %s %s)" % (op, self.expr(e.left, env), self.expr(e.right, env))
        raise Untranslatable("%s: expression %s" % (self.what, u[:50]), e)


def flow_sample_method(fn, with_log_prob):
    """-> gallina body for the with-context path"""
    tr = RowTr("Flow." + fn.name)
    env = {}
    out = []
    body = [s for s in fn.body if not (isinstance(s, ast.Expr) and isinstance(s.value, ast.Constant))]

    def stmts(sts):
        for st in sts:
            u = ast.unparse(st)
            if isinstance(st, ast.If):
                t = ast.unparse(st.test)
                if t == "self._context_used_in_base":
                    stmts(st.body)
                    continue
                if t == "embedded_context is not None":
                    stmts(st.body)
                    if st.orelse:
                        raise Untranslatable("Flow.%s: else branch of the context test" % fn.name, st)
                    continue
                raise Untranslatable("Flow.%s: branch %s" % (fn.name, t), st)
            if isinstance(st, ast.Assign) and len(st.targets) == 1:
                t, v = st.targets[0], st.value
                uv = ast.unparse(v)
                if ast.unparse(t) == "embedded_context" and uv == "self._embedding_net(context)":
                    env["embedded_context"] = "embedded_context"
                    continue
                if isinstance(t, ast.Name) and uv == "self._distribution.sample(num_samples, context=embedded_context)":
                    env[t.id] = "noise"
                    continue
                if isinstance(t, ast.Tuple) and uv == "self._distribution.sample_and_log_prob(num_samples, context=embedded_context)":
                    names = [ast.unparse(x) for x in t.elts]
                    env[names[0]] = "noise"
                    env[names[1]] = "base_log_prob"
                    continue
                if isinstance(t, ast.Tuple) and isinstance(v, ast.Call) and ast.unparse(v.func) == "self._transform.inverse":
                    kw = {k.arg: ast.unparse(k.value) for k in v.keywords}
                    if len(v.args) != 1 or set(kw) != {"context"}:
                        raise Untranslatable("Flow.%s: inverse call" % fn.name, st)
                    names = [ast.unparse(x) for x in t.elts]
                    a, c = tr.expr(v.args[0], env), env.get(kw["context"])
                    if c is None:
                        raise Untranslatable("Flow.%s: context of the inverse call" % fn.name, st)
                    out.append(("samples_", "zip_with inv %s %s" % (a, c)))
                    env[names[0]] = "samples_%d" % len(out)
                    out[-1] = (env[names[0]], out[-1][1])
                    if names[1] != "_":
                        out.append(("lad_", "zip_with invlad %s %s" % (a, c)))
                        env[names[1]] = "lad_%d" % len(out)
                        out[-1] = (env[names[1]], out[-1][1])
                    continue
                if isinstance(t, ast.Name):
                    term = tr.expr(v, env)
                    nm = "%s_%d" % (t.id, len(out) + 1)
                    out.append((nm, term))
                    env[t.id] = nm
                    continue
            if isinstance(st, ast.Return):
                rv = st.value
                if with_log_prob:
                    if not (isinstance(rv, ast.Tuple) and len(rv.elts) == 2 and ast.unparse(rv.elts[1]) == "log_prob - logabsdet"):
                        raise Untranslatable("Flow.%s: return form" % fn.name, st)
                    return "(%s, (%s, %s))" % (tr.expr(rv.elts[0], env), env["log_prob"], env["logabsdet"])
                return tr.expr(rv, env)
            raise Untranslatable("Flow.%s: statement %s" % (fn.name, u[:60]), st)
        return None
    res = stmts(body)
    if res is None:
        raise Untranslatable("Flow.%s: no return" % fn.name, fn)
    return "".join("  let %s := %s in\n" % kv for kv in out) + "  " + res


def cdn_sample_method(fn):
    tr = RowTr("ConditionalDiagonalNormal._sample")
    env = {}
    out = []
    noise_rows = None
    for st in fn.body:
        if isinstance(st, ast.Expr) and isinstance(st.value, ast.Constant):
            continue
        u = ast.unparse(st)
        if isinstance(st, ast.Assign) and len(st.targets) == 1:
            t, v = st.targets[0], st.value
            uv = ast.unparse(v)
            if isinstance(t, ast.Tuple) and uv == "self._compute_params(context)":
                names = [ast.unparse(x) for x in t.elts]
                if names != ["means", "log_stds"]:
                    raise Untranslatable("CDN._sample: parameter names", st)
                env["means"], env["log_stds"] = "means", "log_stds"
                continue
            if isinstance(t, ast.Name) and uv == "context.shape[0]":
                env[t.id] = "k"
                continue
            if isinstance(t, ast.Name) and isinstance(v, ast.Call) and ast.unparse(v.func) == "torch.randn":
                lead = ast.unparse(v.args[0])
                if lead not in ("context_size * num_samples", "num_samples * context_size") or ast.unparse(v.args[1]) != "*self._shape":
                    raise Untranslatable("CDN._sample: noise shape (%s, ...)" % lead, st)
                noise_rows = "k * n"
                env[t.id] = "noise"
                continue
            if isinstance(t, ast.Name):
                term = tr.expr(v, env)
                nm = "%s_%d" % (t.id, len(out) + 1)
                out.append((nm, term))
                env[t.id] = nm
                continue
        if isinstance(st, ast.Return):
            res = tr.expr(st.value, env)
            if noise_rows is None:
                raise Untranslatable("CDN._sample: no noise drawn", fn)
            return "".join("  let %s := %s in\n" % kv for kv in out) + "  " + res
        raise Untranslatable("CDN._sample: statement %s" % u[:60], st)
    raise Untranslatable("CDN._sample: no return", fn)




def g_flow_rows(repo):
    fsrc = Source(repo, "nflows/flows/base.py")
    nsrc = Source(repo, "nflows/distributions/normal.py")
    defs = []
    b1 = flow_sample_method(fsrc.method("Flow", "_sample"), False)
    defs.append(("flow_sample_gen", "Definition flow_sample_gen {ZT CT XT : Type} (inv : ZT -> CT -> XT) (n : nat) (noise : list (list ZT)) "
                 "(embedded_context : list CT) : list (list XT) :=\n%s.\n" % b1))
    b2 = flow_sample_method(fsrc.method("Flow", "sample_and_log_prob"), True)
    defs.append(("flow_sample_and_log_prob_gen",
                 "Definition flow_sample_and_log_prob_gen {ZT CT XT LT BT : Type} (inv : ZT -> CT -> XT) (invlad : ZT -> CT -> LT) (n : nat) "
                 "(noise : list (list ZT)) (base_log_prob : BT) (embedded_context : list CT) : list (list XT) * (BT * list (list LT)) :=\n%s.\n" % b2))
    b3 = cdn_sample_method(nsrc.method("ConditionalDiagonalNormal", "_sample"))
    defs.append(("cdn_sample_gen", "Definition cdn_sample_gen {T : Type} (O : ops T) (means log_stds noise : list (list T)) (k n : nat) "
                 ": list (list (list T)) :=\n%s.\n" % b3))
    return defs, "From NF Require Import Model.Utils Model.FlowSample Model.RowLayout.\nLocal Close Scope Z_scope.\n\n"


GROUPS += [("FlowRows", g_flow_rows, ["nflows/flows/base.py", "nflows/distributions/normal.py"])]
