#!/bin/bash
# Run each seeded change under /verif/seeded/<id>/patch.diff through that property's quick check.  The change is applied to a
# scratch worktree of /repo (removed afterwards); /repo itself is never touched and the check is pointed at the worktree with
# NFLOWS_REPO.  Usage: tools/run_seeded.sh [ids...]
cd "$(dirname "$0")/.." || exit 2
ids=("$@"); [ ${#ids[@]} -eq 0 ] && ids=($(ls seeded | grep '^C'))
wt=$(mktemp -d /tmp/seedwt.XXXXXX); rmdir "$wt"
git -C /repo worktree add --detach -f "$wt" HEAD >/dev/null 2>&1 || { echo "cannot create worktree"; exit 2; }
trap 'git -C /repo worktree remove --force "$wt" >/dev/null 2>&1; git -C /repo worktree prune' EXIT
mkdir -p seeded/_results
for id in "${ids[@]}"; do
  pid=${id%%-*}
  git -C "$wt" checkout -q -- . ; git -C "$wt" clean -fdq
  git -C "$wt" apply "$PWD/seeded/$id/patch.diff" || { echo "$id: patch does not apply"; continue; }
  NFLOWS_REPO="$wt" ./check "$pid" quick > "seeded/_results/$id.out" 2>&1; rc=$?
  nviol=$(grep -c '^VIOLATION' "seeded/_results/$id.out")
  nowit=$(grep -c 'no-failing-input-found' "seeded/_results/$id.out")
  obl=$(grep -o 'obligations [0-9]*/[0-9]*' "seeded/_results/$id.out" | tail -1)
  echo "$id: exit=$rc violations=$nviol (without failing input: $nowit) $obl"
done
