#!/bin/bash
# Apply each seeded change under /verif/seeded/<id>/patch.diff to /repo, run that property's quick check, undo the change.
# Usage: tools/run_seeded.sh [ids...]   (never run concurrently with other checks: it edits /repo's working tree)
cd "$(dirname "$0")/.." || exit 2
ids=("$@"); [ ${#ids[@]} -eq 0 ] && ids=($(ls seeded | grep '^C'))
if [ -n "$(git -C /repo status --porcelain --untracked-files=no)" ]; then echo "/repo has local changes; refusing"; exit 2; fi
mkdir -p seeded/_results
for id in "${ids[@]}"; do
  pid=${id%%-*}
  git -C /repo apply "$PWD/seeded/$id/patch.diff" || { echo "$id: patch does not apply"; continue; }
  ./check "$pid" quick > "seeded/_results/$id.out" 2>&1; rc=$?
  git -C /repo checkout -- .
  nviol=$(grep -c '^VIOLATION' "seeded/_results/$id.out")
  nowit=$(grep -c 'no-failing-input-found' "seeded/_results/$id.out")
  obl=$(grep -o 'obligations [0-9]*/[0-9]*' "seeded/_results/$id.out" | tail -1)
  echo "$id: exit=$rc violations=$nviol (without failing input: $nowit) $obl"
done
git -C /repo status --porcelain --untracked-files=no
