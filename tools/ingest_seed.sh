#!/bin/bash
# tools/ingest_seed.sh <name> <worktree>: re-verify a seeded change produced in a scratch worktree (demo with / without the
# patch, whole test suite with the patch) and store it under seeded/<name>/ ; prints one line per step.
name=$1; wt=$2
cd "$wt" || exit 2
export OMP_NUM_THREADS=2 MKL_NUM_THREADS=2
git checkout -q -- nflows && git apply seed_out/patch.diff || { echo "$name: patch does not apply to a clean tree"; exit 1; }
PYTHONPATH=$wt /venv/bin/python seed_out/demo.py > /dev/null 2>&1; w=$?
git apply -R seed_out/patch.diff; PYTHONPATH=$wt /venv/bin/python seed_out/demo.py > /dev/null 2>&1; wo=$?
git apply seed_out/patch.diff
t=$(timeout 3000 /venv/bin/python -m pytest -q -p no:cacheprovider tests 2>&1 | tail -1)
echo "$name: demo with=$w without=$wo; tests: $t"
if [ "$w" = 1 ] && [ "$wo" = 0 ]; then
  mkdir -p /verif/seeded/$name && cp seed_out/patch.diff seed_out/demo.py seed_out/meta.json /verif/seeded/$name/
fi
