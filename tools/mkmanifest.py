#!/usr/bin/env python3
"""Regenerate MANIFEST.json from the table below (kept in one place so it is always schema-valid)."""
import json, os
HERE = os.path.dirname(os.path.dirname(os.path.abspath(__file__)))
ALL = ["C%02d" % i for i in range(1, 21)]

CLAIMED = {
 "C20": dict(
   text="Machine-checked Coq theorems over an executable Gallina model of every helper in nflows/utils (tile, "
        "repeat_rows, merge/split_leading_dims, sum_except_batch, searchsorted, cbrt, get_temperature, the three "
        "mask constructors, the five type predicates), for all shapes, sizes and argument values. The type "
        "predicates, cbrt, the temperature formula and the comparison/offset/in-place shape of searchsorted are "
        "regenerated from the source by the translator on every run; the rest of the model is tied to the code by an "
        "exhaustive small-shape correspondence run of the extracted model against the real functions, and a direct "
        "search on the implementation (argument mutation, bin of every edge for float32/float64 and large "
        "magnitudes) supplies replayable failing inputs.",
   note="Trusted: Coq kernel; stdlib axioms of the Reals library for the three real-number statements (the list/"
        "mask/predicate theorems are closed under the global context); translator; extraction + OCaml float "
        "dictionary; harness. logabsdet relies on torch.slogdet's contract (tested, not modelled). Float rounding "
        "of cbrt/get_temperature is compared with tolerance, not proved.",
   technique="Coq proof over Gallina model + AST translator + extracted-model correspondence",
   design="DESIGN.md section 4, C20"),
}

CLAIMED["C06"] = dict(
   text="Axiom-free Coq theorem: for every MADE the constructor can build (any feature count, hidden width, number of "
        "blocks, feed-forward or residual blocks, sequential or ANY random degree draw, context term, output "
        "multiplier, batch norm / dropout / activation as arbitrary per-unit maps) and for ALL weight and bias values "
        "over any carrier with a*0=0*a=0, output block i is independent of inputs i, i+1, ... - one induction over "
        "the layer list, for both copies of the implementation. The mask comparison operators, the degree formulas "
        "and the 'weight*mask on every call' shape of MaskedLinear.forward are regenerated from both source files on "
        "every run, so the theorem is re-proved against the current code; the mask/degree buffers of every layer of "
        "real networks are compared exactly with the extracted model, and a bit-exact perturbation experiment on the "
        "real forward pass (train and eval, batch-norm, dropout) supplies failing inputs. Consequences (triangular "
        "Jacobian, exact D-pass inverse, MoG factorisation) are exercised on the implementation.",
   note="Trusted: Coq kernel (no axioms: all four theorems are closed under the global context); translator for "
        "Gen/MadeT.v and Gen/MadeN.v; extraction; harness. The layer semantics (how blocks compose the masked "
        "layers) is hand-modelled and tied to the code by the perturbation experiment, not by translation.",
   technique="Coq proof (structural induction, axiom-free) + AST translator + extracted-model correspondence",
   design="DESIGN.md section 4, C06")

CLAIMED["C10"] = dict(
   text="Axiom-free Coq proof over a state-machine model of Linear's cache protocol (training flag, using_cache flag, "
        "three optional cached entries each remembering the parameter version, dtype and graph liveness it was built "
        "from): an invariant (cache empty while training; every cached entry built from the current parameters in "
        "the current dtype) is preserved by every operation, and by induction over the history every forward/inverse "
        "observes exactly what recomputation from the current parameters observes - for ALL finite histories over "
        "{train, eval, use_cache, forward, inverse, optimiser step in training mode, load_state_dict, dtype change} "
        "and backward passes wherever the cache is not consulted. The full statement including repeated "
        "back-propagation through the cached matrix is proved FALSE (C10_double_backward_refuted) and recorded as a "
        "known finding. Branch conditions, the lazy-fill logic and the invalidation hooks are regenerated from "
        "linear.py on every run; the model is run in lock-step with the five real classes (outcome, cache flags, "
        "which parameter version each output was built from).",
   note="Trusted: Coq kernel (no axioms); translator (Gen/LinearCache.v); extraction; the harness's identification "
        "of 'which version an output was built from' by recomputation with an uncached twin. Autograd graph lifetime "
        "is abstracted to one flag per entry.",
   technique="Coq proof (invariant + induction over histories, axiom-free) + AST translator + lock-step correspondence",
   design="DESIGN.md section 4, C10")

CLAIMED["C08"] = dict(
   text="Axiom-free Coq theorems about an executable model of CompositeTransform._cascade, InverseTransform and "
        "MultiscaleCompositeTransform (add_transform bookkeeping, forward chunk/flatten/cat, inverse slice/view/cat) "
        "as combinators on (forward, inverse) pairs over ANY data type and any commutative monoid of log-dets: the "
        "composite applies the parts in order and sums their log-dets, its inverse runs the inverses in reverse order, "
        "the inverse wrapper swaps directions, invertibility-with-cancelling-log-dets is preserved by every nesting; "
        "for the multiscale wrapper, for every number of stages, split dimension, shape and odd/even size, inverse "
        "undoes forward, output size equals input size, and split/cat along a dimension are mutually inverse. The "
        "model is tied to the code by running the extracted combinators against the real wrappers on hundreds of "
        "nested programs over exact leaves (x->2x+k with log-det 2^k, reversal) and on all small shapes/split "
        "dims/stage counts, with exact equality; add_transform's shapes and error classes are compared as well.",
   note="Trusted: Coq kernel (no axioms); extraction; harness. No translated fragment: the tie is the exact "
        "correspondence run. Library leaf transforms are covered by C01/C02; here leaves are abstract.",
   technique="Coq proof (induction over part lists / stages, axiom-free) + extracted-model correspondence",
   design="DESIGN.md section 4, C08")

CLAIMED["C07"] = dict(
   text="Axiom-free Coq theorems over an executable model of CouplingTransform.forward/inverse (index buffers from the "
        "mask, gather, conditioner call, elementwise kernel, scatter), polymorphic in the type of a feature slice so "
        "that 'bit-for-bit' is literal equality and 2-D and image inputs are the same statement: for EVERY mask the "
        "two index lists are sorted, duplicate-free, disjoint and cover the features; identity features are returned "
        "unchanged in both directions; each transformed feature is the kernel of its own input with parameters "
        "computed from the identity features and the context only; hence output i depends on input i and identity "
        "inputs only (triangular Jacobian up to the mask permutation); inverse undoes forward for any invertible "
        "kernel. The model is tied to the code by exact correspondence: index buffers for all masks, outputs / "
        "inverse / recorded conditioner inputs of the additive and affine couplings with an integer-valued recording "
        "network (2-D and 4-D, with context), and the parameter layout handed to the piecewise kernels; a bit-exact "
        "perturbation experiment on all seven coupling classes with residual networks is the failing-input search.",
   note="Trusted: Coq kernel (no axioms); translator (Gen/Context.v tables); extraction; harness (recording conditioner). The elementwise kernels "
        "themselves belong to C01/C02/C09; the unconditional-transform path is modelled but theorems are stated for "
        "unconditional_transform=None (the property's own exception).",
   technique="Coq proof (lists/index maps, axiom-free) + AST translator (call / gate tables) + extracted-model exact correspondence",
   design="DESIGN.md section 4, C07")

CLAIMED["C18"] = dict(
   text="Axiom-free Coq theorems over a shape-level executable model of Distribution.log_prob / sample (with the "
        "batching loop) / sample_and_log_prob and of Flow's merge-invert-split pipeline, using the same "
        "merge/split/repeat_rows model as C20: log_prob returns one value per row and rejects a context with a "
        "different row count with ValueError; sample gives [n; event] / [rows; n; event]; batching by ANY batch size "
        "(dividing n or not) yields exactly the unbatched shape, with and without context; non-positive and "
        "non-integer counts are TypeErrors; sample_and_log_prob returns matching shapes; a flow's _sample has the "
        "base distribution's shape. The count checks, the // and % batching arithmetic and the concatenation "
        "dimension are regenerated from distributions/base.py on every run; shapes and exception classes of every "
        "distribution and flow class are compared exactly with the extracted model over n x batch_size x context rows.",
   note="Trusted: Coq kernel (no axioms); translator (Gen/DistBase.v, Gen/Typechecks.v); extraction; harness. "
        "'Batching does not change the distribution' is covered only as far as shapes (independent draws from the "
        "same _sample; RNG not modelled). bool counts (True == 1) are accepted by the library and excluded from the "
        "comparison.",
   technique="Coq proof (shape arithmetic, axiom-free) + AST translator + extracted-model exact correspondence",
   design="DESIGN.md section 4, C18")

CLAIMED["C14"] = dict(
   text="Coq theorems over a per-feature state-machine model of ActNorm and BatchNorm whose every formula and branch "
        "condition is regenerated from normalization.py on each run: over every history of {train, eval, forward, "
        "inverse, save+load into a fresh instance} ActNorm's flag is set only by a training-mode forward pass, its "
        "parameters are those of the FIRST such pass and never change afterwards (axiom-free, any carrier, induction "
        "over the history), and that batch comes out with zero mean and unit variance (real arithmetic); BatchNorm's "
        "running statistics are written by training-mode forward passes only and by the momentum rule, training uses "
        "batch statistics and evaluation the running ones, the inverse is refused in training mode and undoes the "
        "forward pass in evaluation mode. The extracted model is run in lock-step with the real layers (2-D and 4-D "
        "batches, reload into fresh instances): flags, parameters, running statistics, outputs, outcomes.",
   note="Trusted: Coq kernel; Reals axioms for the three numerical statements (life-cycle theorems are closed under "
        "the global context); translator (Gen/Norm.v); extraction + float dictionary; harness. The 4-D log-det "
        "aggregation h*w*sum(log_scale) is matched syntactically by the translator and checked numerically.",
   technique="Coq proof (state machine + real algebra) + AST translator + lock-step correspondence",
   design="DESIGN.md section 4, C14")

CLAIMED["C09"] = dict(
   text="Coq theorems (real arithmetic, Coquelicot) about the bin formulas REGENERATED from the four spline sources on "
        "every run: for the rational-quadratic bin - for every left knot, width, height and positive end derivatives - "
        "the output formula is differentiable with the stated positive derivative, strictly increasing on the bin "
        "(mean-value theorem), maps the bin's ends to the output bin's ends (continuity across knots, pinned box end "
        "points), stays in the output bin, is C1 at knots and is onto (explicit pre-image); the same for the linear "
        "and quadratic bins; with linear tails all four families are the identity with zero log-det outside the bound "
        "and the spline interval is closed; the domain guards reject exactly the complement of the direction's "
        "closed interval. PARTIAL: the assembly of bins into the whole spline via softmax/cumsum knots and the bin "
        "search, and monotonicity of the cubic bin, are not proved; they are covered by the bit-level correspondence "
        "of the extracted whole-spline models of all four families with the implementation (both directions, boxes, "
        "tails, 5 parameter kinds, inputs on knots and their float neighbours) and by the monotonicity / end-point / "
        "continuity / range / tails search on the implementation.",
   note="Trusted: Coq kernel; Reals/Coquelicot axioms (classic, functional extensionality, the two Dedekind-reals "
        "axioms); translator (Gen/Spline*.v); extraction + float dictionary; harness. Floating-point rounding is "
        "outside the theorems. Known finding: cubic inverse NaN at the upper end point for one-hot parameters.",
   technique="Coq proof (Coquelicot derivatives, MVT, algebra) + AST translator + extracted-model correspondence",
   design="DESIGN.md section 4, C09")

CLAIMED["C17"] = dict(
   text="Coq theorems over models whose guards and masks are regenerated from the source on every run: the exp / tanh / "
        "sigmoid(logit) / Cauchy inverses return the library's domain error exactly outside their domain (open for exp "
        "and tanh, closed [0,1] otherwise) and a value inside, forward passes and LogTanh accept every real; the sigmoid "
        "inverse is finite at 0 and 1 thanks to its clamp; the four bounded splines reject exactly the complement of "
        "the closed interval of the direction they run in (the interval itself being [left,right] forward and "
        "[bottom,top] inverse); a value exactly on a tail bound is routed to the spline; and - axiom-free, for ANY "
        "carrier of numbers and comparisons, hence for float32 and float64 and knots of ANY magnitude - every "
        "accepted input receives a bin index in range (the repaired bin search only counts comparisons), which over "
        "the reals is the bin containing the input. The extracted models are compared with the implementation "
        "(values and exception classes); the search places inputs on, one ulp inside and one ulp outside every "
        "boundary in both dtypes, for boxes / tail bounds up to 1e6, at different positions and batch sizes.",
   note="Trusted: Coq kernel; Reals axioms for the real-number statements (the any-carrier index theorem is closed "
        "under the global context); translator; extraction; harness. Finiteness of the float results on in-domain "
        "inputs is established by the search only (rounding is not modelled).",
   technique="Coq proof (guards over R, counting argument over any carrier) + AST translator + extracted-model correspondence",
   design="DESIGN.md section 4, C17")

CLAIMED["C01"] = dict(
   text="Coq theorems (Coquelicot derivatives; mathcomp determinants over R) about the formulas regenerated from the "
        "source on every run: for the rational-quadratic, linear and quadratic spline bins, exp, tanh, sigmoid (any "
        "temperature), Cauchy CDF, leaky ReLU (off its kink), the gated linear unit, the affine coupling/"
        "autoregressive kernel and the ActNorm / BatchNorm element, the returned log-abs-det is the logarithm of the "
        "(positive) derivative of the returned output - at every point of the domain including bin end points and for "
        "every box, the box scale term ln((top-bottom)/(right-left)) being exactly what the de-normalisation step "
        "adds; a triangular Jacobian (diagonal for elementwise maps, lower triangular for masked autoregressive "
        "transforms by C06, triangular up to the mask permutation for couplings by C07) has log|det| equal to the "
        "sum of the per-element log-dets, permutation conjugation leaves it unchanged, and for compositions "
        "log-dets add. PARTIAL: the cubic bin's derivative identity, the 1x1-convolution block structure, the LU/QR/"
        "SVD determinants (see C11) and UMNN's quadrature are not proved. Tie: extracted spline and nonlinearity "
        "models vs the implementation; search: autograd Jacobian per batch item vs returned log-abs-det for every "
        "catalogue transform (all classes, 2-D and 4-D, context, tails, cache) and for the public spline functions "
        "on knots / end points / five boxes.",
   note="Trusted: Coq kernel; Reals/Coquelicot axioms plus ClassicalEpsilon.constructive_indefinite_description (R as a "
        "mathcomp choice type); translator; extraction; harness; autograd for the search. UMNN's returned 'jac' is "
        "the integrand (derivative of the exact integral), its quadrature error is runtime behaviour.",
   technique="Coq proof (Coquelicot auto_derive/field, mathcomp det_trig/det_mulmx) + AST translator + correspondence",
   design="DESIGN.md section 4, C01")

CLAIMED["C02"] = dict(
   text="Coq theorems in exact real arithmetic about the formulas regenerated from the source: for the rational-quadratic "
        "bin the code's discriminant assertion never fires, the returned root lies in the bin, forward(inverse(y)) = y, "
        "inverse(forward(x)) = x and the inverse's log-abs-det is minus the forward's at the pre-image; the quadratic "
        "bin's (repaired) root lies in [0,1] and is the pre-image for every pair of heights, equal ones included; "
        "exp, ActNorm, gate and affine elements invert exactly; a masked autoregressive inverse is exact after D "
        "passes and its last pass evaluates the log-det at the true pre-image (axiom-free, from C06's property); "
        "coupling (C07), composite / inverse wrapper / multiscale (C08) and BatchNorm-eval (C14) inverses are proved "
        "in those files. PARTIAL: the cubic inverse, the tanh / sigmoid / Cauchy / LogTanh inverse identities, the "
        "linear family (C11), UMNN bisection, and everything about floating point (accuracy scaled by conditioning, "
        "finiteness) are covered only by the correspondence and by the round-trip search (both orders, log-det "
        "negation, finiteness, all catalogue transforms, splines on knots/end points with exactly-zero and one-hot "
        "parameters).",
   note="Trusted: Coq kernel; Reals/Coquelicot axioms; translator; extraction; harness. Known finding: cubic inverse "
        "non-finite at the upper end point for one-hot parameters.",
   technique="Coq proof (real algebra of the stable roots, induction over passes) + AST translator + correspondence",
   design="DESIGN.md section 4, C02")

CLAIMED["C11"] = dict(
   text="Coq theorems over mathcomp matrices on R, for every size n: for unit lower-triangular L and upper-triangular U "
        "with positive diagonal, det(L U) > 0 and log|det(L U)| is the sum of the logs of U's diagonal (= logabsdet()), "
        "forward is x -> (L U) x + b, solving with L then U inverts W and undoes the forward pass; a Householder "
        "reflection I - c v v^T with c |v|^2 = 2 is symmetric and an involution; ANY sequence of reflections (any "
        "count, any non-zero vectors) is orthogonal with log|det| = 0; for W = Q R and W = U D V^T the log|det| is "
        "the sum of the logs of the triangular / diagonal factor's diagonal and R^-1 Q^T inverts Q R. The construction "
        "of these matrices from the parameter vectors (tril/triu index order, softplus+eps / exp diagonals, "
        "reflection application) is an executable list-of-rows model extracted to OCaml and compared with weight(), "
        "weight_inverse(), logabsdet(), matrix(), forward and inverse of the real classes for sizes 1..6 and "
        "Householder counts 1..14; the search checks W W^-1 = I, forward = W x + b, slogdet(W) = logabsdet(), "
        "Q^T Q = I, finiteness and that every constructor-accepted size / count / init mode yields a usable transform.",
   note="Trusted: Coq kernel; Reals axioms + ClassicalEpsilon.constructive_indefinite_description; extraction; harness; "
        "torch.slogdet / lu_solve / solve_triangular contracts for NaiveLinear. The shape of the constructed matrices "
        "is established by correspondence, not by proof.",
   technique="Coq proof (mathcomp det_mulmx / det_trig, matrix algebra) + extracted-model correspondence",
   design="DESIGN.md section 4, C11")

CLAIMED["C13"] = dict(
   text="A table of EVERY in-place operation in the library (augmented assignment, item assignment, method ending in _, "
        ".data assignment, out=), regenerated from all .py files on each run together with the origin of the written "
        "tensor (fresh local / call result / private-helper value / non-tensor / attribute / registered state / public "
        "argument / unknown) computed by the translator's alias analysis; Coq proves by computation over that table that no "
        "row writes a public function's argument or a tensor of unknown origin, that attributes and registered state "
        "are written only in constructors and at the two documented sites (BatchNorm running statistics under "
        "`if self.training`, ActNorm's initialisation), and that in evaluation mode no row writes registered state; "
        "a storage semantics with version counters shows what this buys (pure calls change nothing, an argument is "
        "untouched unless written, repeated calls see the same state). The dynamic check runs every catalogue transform, "
        "distribution and flow in both modes and directions on contiguous / strided / transposed / grad-leaf inputs and "
        "compares argument data and _version, context, state_dict and repeated outputs bit-for-bit.",
   note="Trusted: Coq kernel (no axioms); the translator's alias rules (which expressions are views / fresh / call "
        "results) - a classification, validated dynamically, not a proved-sound analysis of Python; harness.",
   technique="Coq proof by computation over an AST-generated table + storage-semantics lemmas + dynamic side-effect check",
   design="DESIGN.md section 4, C13")
CLAIMED["C15"] = dict(
   text="A table of every attribute assignment / register_buffer in every class's __init__, regenerated on each run with "
        "its kind and whether its right-hand side draws from a random source; Coq proves by computation that everything "
        "constructor-random is a parameter, a persistent buffer or a sub-module (RandomPermutation's draw is registered "
        "by its parent), proves that if no unregistered attribute depends on the seed then loading the state dict into a "
        "model built under any other seed gives the same function whatever happened before saving, and that the "
        "registration requirement is necessary. The search loads state dicts strictly into fresh instances built under a "
        "different seed for every catalogue transform and for flows / distributions with random permutations, masks, "
        "degrees and spline parameters, after three histories (fresh, SGD steps, data-dependent initialisation), and "
        "compares forward / inverse / log_prob bit-for-bit.",
   note="Trusted: Coq kernel (no axioms); the translator's notion of a random source (direct calls to torch.rand*, "
        "randperm, randint, multinomial, init.*_ ; randomness hidden behind helper methods, e.g. MADE's random degrees, "
        "is only covered by the search); torch load_state_dict contract; harness.",
   technique="Coq proof by computation over an AST-generated table + abstract reload theorem + bit-exact reload search",
   design="DESIGN.md section 4, C15")

CLAIMED["C16"] = dict(
   text="PARTIAL by nature (autograd's engine is trusted). Proved in Coq: a table of every detach / no_grad / .data / "
        ".item() in the library, regenerated on each run, contains no construct on an evaluation path (only constructors, "
        "sampling code, the two documented statistics updates, a numpy helper); in-place writes never hit tensors an "
        "earlier differentiable op needs (shared with C13); the generated formulas are differentiable in the input AND in "
        "the parameters with the stated finite derivatives (affine kernel, ActNorm log-scale/shift, learned sigmoid "
        "temperature, rational-quadratic bin in x and in both knot derivatives on the whole bin). The search "
        "back-propagates a random functional of outputs and log-dets (resp. log_prob of three flows) to inputs, context "
        "and every parameter for every catalogue transform in both modes and compares with central finite differences.",
   note="Trusted: Coq kernel; Reals/Coquelicot axioms; translator tables; torch.autograd; UMNN's custom Function "
        "(third-party, relaxed tolerance). That the returned gradients equal the true derivatives is tested, not proved.",
   technique="Coq proof (Coquelicot ex_derive/is_derive, table by computation) + finite-difference gradient check",
   design="DESIGN.md section 4, C16")
CLAIMED["C19"] = dict(
   text="PARTIAL, stated plainly. Proved in Coq: results carry the dtype of the inputs (promotion-lattice theorem over "
        "dimensioned tensors, zero-dim tensors and Python scalars; plus a table, regenerated on each run, of every cast to "
        "float32 / factory call without dtype / torch.Tensor constructor outside constructors, all of which must lie in a "
        "reviewed list of (file, function) pairs whose values never reach a returned float of another dtype); the bin "
        "search returns an in-range index in ANY carrier, float32 included; the rational-quadratic denominators, "
        "derivative numerators and discriminants keep their sign on the whole bin over the reals. NOT proved: a "
        "float32-vs-float64 forward error bound for the transcendental code (no verified libm / Gappa here); that part "
        "is covered only by the differential search: every catalogue transform in float32 against its float64 deep "
        "copy, both directions, dtype / finiteness / agreement scaled by conditioning, and the spline functions on "
        "knots in float32.",
   note="Trusted: Coq kernel (the dtype and index theorems are axiom-free; the margins use the Reals axioms); "
        "translator tables; harness. The agreement claim itself rests on testing.",
   technique="Coq proof (promotion lattice, counting argument, real margins, table by computation; Flocq rounding-error bounds over a binary32 operation dictionary) + bit-for-bit exact-rational correspondence + float32/float64 differential search",
   design="DESIGN.md section 4, C19")

CLAIMED["C12"] = dict(
   text="Axiom-free Coq theorems: a batch function that is the map of a row function equals evaluating the rows one at a "
        "time, commutes with every re-indexing of the batch (permutation, selection, duplication) and gives each row the "
        "same result whatever rows surround it; the two places in the library where rows could mix are such maps: the "
        "1x1 convolution's flatten-all-pixels / per-row linear map / cut-back pipeline equals the per-item map (via the "
        "chunks/concat lemmas of C20), and the boolean-mask gather / scatter of the unconstrained splines is an "
        "elementwise map. Together with the index-map theorems of C07 (coupling), C08 (composition, multiscale) and C20 "
        "(merge / split / repeat_rows) every transform is built from row-preserving pieces. The extracted pipeline is "
        "compared with the real OneByOneConvolution; the search evaluates every catalogue transform (2-D and images with "
        "h != w), six distributions and a flow on a batch, on each row alone, on a permuted batch and among extra rows.",
   note="Trusted: Coq kernel (no axioms); extraction; harness. Comparison is bit-exact except for matrix products, where "
        "BLAS blocking may change the last bits between batch sizes (a few ulps accepted, counted in the evidence). "
        "Batch-global by design: domain checks (torch.min/max over the batch) and BatchNorm in training mode.",
   technique="Coq proof (map / chunks / concat lemmas, axiom-free) + extracted-pipeline correspondence + row-vs-batch search",
   design="DESIGN.md section 4, C12")

CLAIMED["C05"] = dict(
   text="Coq theorems about the formulas regenerated from nflows/distributions: the Bernoulli log-mass sums to exactly one over "
        "{0,1}^D for every D and every logits vector (induction on D, the per-coordinate identity sigmoid(l) + sigmoid(-l) = 1) "
        "and its mean() is the expectation; the standard-normal log-density factorises over coordinates into "
        "-x^2/2 - ln(2 pi)/2 for every event size, and the (conditional) diagonal normal is the affine push-forward "
        "mean + exp(log_std) * z of the standard normal with exactly the log_std sum as correction; the one-dimensional factor "
        "exp(-x^2/2)/sqrt(2 pi) has mass in [1 - 1e-9, 1] on [-8, 8] (Interval certificate). PARTIAL: the improper integral "
        "over the whole line (hence 'integrates to one' for the normals, the mixture and the KDE), sampling laws and "
        "MADEMoG are decided by quadrature / exact summation / fixed-seed moment search on the implementation only.",
   note="Trusted: Coq kernel; Reals axioms; Interval's primitive-float specification axioms (PrimFloat/Uint63, named in the "
        "evidence); translator; harness. Known finding: LotkaVolterraOscillating's normaliser. Fixed: DiagonalNormal.",
   technique="Coq proof (Reals, Coquelicot, Interval) over regenerated formulas + quadrature/enumeration search",
   design="DESIGN.md section 4, C05")

CLAIMED["C04"] = dict(
   text="Coq theorems over the list model of Flow._sample / sample_and_log_prob (merge of the per-row noise blocks, "
        "repeat_rows of the context, row-wise inverse, split): for every number of context rows k, draws n and every "
        "transform, sample [i][j] is the inverse of noise [i][j] under context row i (never another row's), for all k, n "
        "(induction; axiom-free); the returned log-probability equals base log-density of the noise minus the inverse's "
        "log-abs-det, which is log_prob of the returned sample when inverse and forward are mutually inverse with negated "
        "log-dets (C02's statement as hypothesis); in one dimension, the push-forward of a base density through an "
        "increasing differentiable bijection has the CDF whose derivative is exp(log_prob) (Coquelicot). PARTIAL: "
        "'distributed according to' for random sampling itself (torch's generator) and multivariate push-forward are "
        "not modelled: searched with recorded noise, a context-revealing flow and a fixed-seed KS comparison.",
   note="Trusted: Coq kernel; Reals axioms for the density statements (the pairing theorems are closed); extraction; "
        "harness. The noise drawn by the base distribution is recorded and replayed through the extracted model.",
   technique="Coq proof (list induction; Coquelicot for the 1-D push-forward) + recorded-noise correspondence + search",
   design="DESIGN.md section 4, C04")

CLAIMED["C03"] = dict(
   text="PARTIAL. Proved in Coq: log_prob as regenerated from Flow._log_prob is the base log-density at the transformed "
        "point plus the log-abs-det; the one-dimensional substitution rule on any interval (the integral of "
        "g'(x) phi(g(x)) over [a,b] is the base mass of [g a, g b], Coquelicot is_RInt_comp), so the flow's mass is the "
        "base's mass of the image; rational-quadratic bins map their interval ONTO the target interval with pinned end "
        "points and exp's inverse covers the positive reals. Not provable with the installed libraries and not claimed as "
        "theorems: the multivariate change of variables, improper integrals, onto-ness of arbitrary conditioner networks. "
        "Those are decided on the implementation by Gauss-Legendre quadrature (1-D and 2-D, four step sizes and two "
        "domains per case, a case decides only when they agree) over ~100 programs (every onto-R atom, random "
        "compositions, four bases, context rows, MaskedAutoregressiveFlow, SimpleRealNVP).",
   note="Trusted: Coq kernel; Reals/Coquelicot axioms; translator; harness quadrature (unresolved cases are counted and "
        "decide nothing). The theorem part alone does not establish the property for a given flow; the label is partial.",
   technique="Coq proof (Coquelicot substitution rule bin by bin with Chasles, bin surjectivity, iterated integrals for factorised flows) over regenerated formulas + quadrature search",
   design="DESIGN.md section 4, C03")

# additions made after the seeded-change rounds (DESIGN.md section 13)
EXTRA = {
 "C01": "ADDED: the whole rational-quadratic spline (knots from any unnormalised parameters, bin search, bin formula) is "
        "differentiable at every interior point of its box, knots included (derivative gluing), and the returned log-abs-det "
        "is the logarithm of that derivative (C01_rq_whole_spline_logabsdet_is_log_derivative); LogTanh's logarithmic tails (generated "
        "constants) meet the tanh piece at the cut point and their log-abs-det is the logarithm of the positive slope alpha/|x| "
        "(C01_logtanh_tails); the cubic bin's log-abs-det is the logarithm of the derivative of its output (C01_cubic_bin).",
 "C02": "ADDED: C02_rq_whole_spline_round_trips - for the whole rational-quadratic spline the inverse branch undoes the forward "
        "branch and vice versa on the whole box with negated log-abs-dets, for every accepted configuration and all parameters; "
        "C02_tanh_sigmoid_cauchy_inverses - both round trips and the log-abs-det negation of tanh, the sigmoid with any temperature "
        "(inside its clamp) and the Cauchy CDF, from the generated formulas. Every catalogue entry is also exercised as a second "
        "instance that received the first one's state dict.",
 "C03": "ADDED: C03_rq_whole_spline_onto - the whole rational-quadratic spline attains every value of its target interval; "
        "C03_rq_whole_spline_change_of_variables - for every accepted configuration, ALL parameters and every continuous base "
        "density phi, the integral of phi(F x) exp(logabsdet x) over [left, right] equals the integral of phi over [bottom, top] "
        "(bin by bin, glued with Chasles); C03_rq_spline_flow_carries_the_base_mass - for the flow (rational-quadratic spline "
        "with linear tails over a standard normal) exp(log_prob), built from the generated log_prob / energy / normaliser "
        "formulas, integrates over [-A, A] to exactly the standard normal mass of [-A, A] for every A beyond the tail bound.",
 "C17": "Tail bounds that are not representable in float32 (0.1, 0.7, 1.1, 3.3) are part of the search. "
        "ADDED: C17_rq_whole_spline_accepts_its_box - every input of the closed box is accepted in both directions (no domain "
        "error, no out-of-range bin), for every accepted configuration and all parameters (over the reals).",
 "C04": "The search also uses ConditionalDiagonalNormal bases whose draws reveal their context row, alone and under flows, with "
        "and without batch_size and a non-identity embedding net. ADDED: Flow._sample, Flow.sample_and_log_prob and "
        "ConditionalDiagonalNormal._sample are regenerated statement by statement as row-layout programs and proved to be the "
        "pairing model (C04_generated_*), and every call into the base distribution / transform is shown to receive the embedded context.",
 "C05": "mean() is also checked as the mode of the density (gradient of log_prob vanishes there) for flat and structured "
        "context layouts and multi-dimensional events.",
 "C08": "The bodies of CompositeTransform.__init__/_cascade/forward/inverse and InverseTransform.__init__/forward/inverse are "
        "regenerated from transforms/base.py on every run and proved equal to the model's combinators (the inverse wrapper "
        "stores exactly its argument); stacks of up to four inverse wrappers are always among the programs.",
 "C09": "ADDED: for the rational-quadratic family the assembly IS now proved (C09_rq_whole_spline_is_an_increasing_bijection): for "
        "every accepted configuration and ALL unnormalised parameters the knot vectors built by softmax / affine / cumulative sums / "
        "scaling / pinning are strictly increasing from one end of the box to the other, every input of the box falls into a bin "
        "with positive width, height and end derivatives, and the whole spline is a strictly increasing bijection of [left, right] "
        "onto [bottom, top] with pinned end points whose inverse branch is its two-sided inverse with negated log-abs-det; the "
        "default configuration meets the hypotheses for any box and up to 1000 bins; with linear tails it is a strictly increasing "
        "bijection of the whole real line (C09_rq_unconstrained_is_an_increasing_bijection_of_the_line). The piecewise-linear spline's "
        "forward direction is proved likewise for any unnormalised pdf (floor-based bin, C09_linear_whole_spline_is_increasing_onto). "
        "The cubic bin is strictly increasing whenever its end derivatives lie in (0, 3 slope), which the generated boundary and "
        "Steffen-limited inner derivative formulas guarantee (C09_cubic_bin, C09_cubic_derivatives_are_admissible). Still by "
        "correspondence / search only: the linear inverse, the assembly of the quadratic and cubic families, the cubic inverse.",
 "C11": "The search also covers weight_and_logabsdet(), weight_inverse_and_logabsdet() and cached passes in both orders. ADDED: the "
        "bodies of weight / weight_inverse / logabsdet / forward_no_cache / inverse_no_cache (and the cache-filling combined accessor) "
        "of LULinear, QRLinear, SVDLinear and NaiveLinear are regenerated on every run as matrix expression trees and the same "
        "statements are proved about THEM (C11_generated_*): weight_inverse inverts weight, the passes are X W^T + b and its "
        "inverse, every returned log-abs-det is +/- log|det W| - for every size.",
 "C06": "ADDED: a table of every use of a layer's weight / F.linear in both files, regenerated on every run, shows that no "
        "evaluation path bypasses MaskedLinear.forward; the networks are also rebuilt in reverse order in a fresh process.",
 "C12": "The four unconstrained_*_spline wrappers are regenerated statement by statement into per-element functions and "
        "proved to hand every configured value to the inner spline whatever the rest of the batch holds; the search adds "
        "mixed-scale batches and spline configurations with non-default minimum bin sizes / derivative.",
 "C13": "The table generator computes alias summaries (torchutils helpers, class methods, identity lambdas), gives private "
        "methods' parameters the origins of their call sites and records in-place methods used inside expressions; the dynamic "
        "check also draws one sample per context row, batched and not (where repeat_rows / split return views).",
 "C16": "Gradients are also checked through the inverse direction of every invertible catalogue entry. Known finding: the UMNN "
        "inverse (bisection) has no usable gradient.",
 "C18": "Row pairing under batching is searched with context-revealing distributions (row i holds draws for context row i).",
 "C19": "The search also runs the linear family at widths 3-48 with diagonal parameters in one-sided boxes, cache on and off, "
        "both orders.",
}
OVERRIDE = {
 "C08": dict(note="Trusted: Coq kernel (no axioms); translator (Gen/Wrappers.v); extraction; harness. The multiscale wrapper is "
                  "tied by the exact correspondence run only. Library leaf transforms are covered by C01/C02; here leaves are abstract.",
             technique="Coq proof (induction over part lists / stages, axiom-free) + AST translator + extracted-model correspondence"),
 "C12": dict(technique="Coq proof (map / chunks / concat lemmas, axiom-free) + AST translator (tail wrappers) + extracted-pipeline "
                       "correspondence + row-vs-batch search"),
}
EXTRA4 = {
 "C01": "The search includes normalisation / affine / LU / sigmoid entries whose parameters are far from initialisation.",
 "C02": "A multiscale transform whose three parts are all conditional is in the catalogue, and a generated table of every "
        "sub-transform / conditioner call shows that each hands on the context (C02_the_context_reaches_every_part).",
 "C04": "Contexts of dtype int64, bool, float16, bfloat16 and float64 are used: the noise must stay floating-point standard normal.",
 "C05": "The MADE mixture is also integrated in three dimensions for residual, feed-forward and random-mask architectures.",
 "C06": "ADDED: the constructors of both copies are shown to hand degrees from layer to layer as a chain "
        "(C06_constructors_wire_degrees_in_a_chain, table regenerated on every run); every network is examined again after its "
        "state dict was loaded into a second instance.",
 "C07": "ADDED: generated tables show that the conditioner and the unconditional transform are called with (identity split, "
        "context) in both directions and that an unconditional transform is built only under `if apply_unconditional_transform` "
        "(C07_conditioner_sees_identity_split_and_context, C07_unconditional_transform_only_when_requested); the search passes "
        "img_shape without requesting an unconditional transform.",
 "C08": "A generated table shows that every part is called with the wrapper's context (C08_wrappers_hand_the_context_to_every_part).",
 "C12": "Every spline entry is evaluated again with all parameters zero (exactly linear interior segments next to curved edge "
        "segments in one batch).",
 "C13": "float32 and float64 inputs; the first training-mode call of a fresh normalisation layer, including images whose "
        "permute+reshape is a view.",
 "C14": "Batch sizes vary per step down to a single image; the translator also pins the statement skeleton of the five "
        "modelled methods (an extra guard or early return is not modelled).",
 "C16": "Training mode with dropout and batch norm inside the conditioner networks is searched with the dropout mask pinned by "
        "re-seeding; `inplace=` keyword arguments are rows of the in-place table.",
 "C18": "Flows whose transform changes the event shape (squeeze, multiscale) are sampled with and without a context.",
 "C19": "The float32 log-abs-det of the four spline functions is compared with float64 inside the bins for peaked parameters; "
        "the translator counts the writes to each spline intermediate (store census).",
 "C20": "logabsdet is evaluated on matrices whose determinant leaves the floating-point range (scales 1e-120..1e80, 3 x "
        "orthogonal(128) in float32).",
}
EXTRA6 = {
 "C09": "ADDED: the linear spline's inverse branch is the two-sided inverse of its forward branch (C09_linear_whole_spline_is_a_bijection); "
        "the WHOLE piecewise-quadratic spline (bounded form) is a strictly increasing bijection of its box with the stable-root "
        "inverse branch as two-sided inverse, for every accepted configuration and all parameters "
        "(C09_quadratic_whole_spline_is_an_increasing_bijection); the WHOLE cubic spline's forward direction is accepted, pinned and "
        "strictly increasing across bins (C09_cubic_whole_spline_forward_is_increasing_onto_its_range). Not claimed: the cubic inverse "
        "(known finding) and the unconstrained / K-1-heights forms as theorems.",
 "C02": "ADDED: C02_linear_whole_spline_round_trips and C02_quadratic_whole_spline_round_trips - both round trips on the whole box "
        "with negated log-abs-dets for the whole linear and quadratic splines, all parameters.",
 "C20": "ADDED: the translator checks that logabsdet returns torch.slogdet's log-magnitude unchanged (C20_logabsdet_is_the_log_magnitude_of_slogdet).",
}
EXTRA7 = {
 "C04": "Flows over a MADE mixture base (3 and 4 unequal components) are compared with their integrated density by a KS statistic (50000 draws).",
 "C05": "One draw per context row must leave the context, mean() and the returned log-probability intact.",
 "C06": "The mixture log-density is recomputed from the network outputs per feature, also for inputs with an extra leading batch dimension.",
 "C07": "Masks of 7-11 features with irregularly spaced sides are part of the exact correspondence and of the perturbation experiment.",
 "C08": "The parts are also handed over as tuple / generator / iterator / map / reversed objects.",
 "C09": "ADDED: the unconstrained linear and quadratic splines are strictly increasing bijections of the real line and the unconstrained "
        "cubic forward map is strictly increasing on the line (C09_*_unconstrained_*); the tails wrappers are also run on column-major batches.",
 "C12": "A float32 pass with one outlier row (size 1e6 on all / odd / even features) checks the other rows against single-row evaluation.",
 "C15": "The state dict is also loaded as a plain dict without _metadata; LU layers with 5 features / 4 channels are included.",
 "C16": "Parameters collected before the first training call must still be the model's parameters afterwards and receive gradients.",
 "C18": "A ConditionalDiagonalNormal without encoder (parameters are views of the caller's context) is sampled in batches.",
 "C19": "The unconstrained spline functions are run in float32 at tail bounds 5-50.",
 "C20": "A list passed as the shape argument of split_leading_dim must be unchanged and reusable.",
}
EXTRA8 = {
 "C01": "ADDED: C01_quadratic_whole_spline_logabsdet_is_log_derivative - the whole piecewise-quadratic spline (both height forms) is "
        "differentiable at every interior point of its box, knots included, with derivative exp(log-abs-det). The catalogue includes "
        "constructor arguments away from their defaults.",
 "C03": "Flows over bases with log-std from -9 to 3 are integrated over +-14 standard deviations.",
 "C04": "Class-conditional use with a 1-D tensor of labels as context is part of the pairing search.",
 "C08": "CompositeCDFTransform is compared with the explicit composition after the squashing transform's parameter moved.",
 "C09": "float32 inputs exactly on the rounded tail bound are part of the tails search.",
 "C11": "Diagonal parameters far out (log-diagonals 18.5 / -17, unconstrained diagonals 30 / -25) are part of the accessor search.",
 "C12": "Normalisation layers that never saw a training batch are evaluated row by row on a separate never-used instance.",
 "C14": "Histories with evaluation before the initialising step are always included and every output is compared with the affine map "
        "of the layer's current parameters.",
 "C15": "Couplings whose masks are drawn at construction are saved and restored under another seed.",
 "C18": "Integer, bool and half-precision contexts must give floating-point draws of the documented shape.",
 "C19": "Bin counts nothing else uses are evaluated in a fixed order of precisions, with dtype checks in both directions.",
 "C20": "The integer predicates are evaluated on integers up to 2^200.",
}
EXTRA5 = {
 "C01": "Every catalogue transform is also checked after it was evaluated and then given another checkpoint through load_state_dict.",
 "C03": "The one-dimensional flows are integrated once more as restored models (evaluated, then loaded with a perturbed state dict); "
        "a deficit is filed under the recorded Logit-clamp finding only if it disappears when the clamp is moved to 1e-15.",
 "C04": "A used flow is compared with a never-called twin holding the same parameters (same noise) after load_state_dict and after "
        "the same context tensor was overwritten in place.",
 "C05": "Batched sampling with contexts whose densities sit far apart is compared row by row with the rows' own means.",
 "C06": "Single-row batches in training mode are part of the perturbation experiment.",
 "C07": "Conditioners with dropout and batch norm are used in evaluation mode.",
 "C08": "The programs run once more in float64 with log-dets that float32 cannot hold, with a dtype check.",
 "C09": "Inverse inputs 2e-7 .. 2e-6 of the interval below and above every knot are part of the grid.",
 "C10": "Classes constructed with non-default eps are run through the histories.",
 "C11": "64 / 128 features and entries of 1e-12 / 1e10 in both precisions: every accessor finite and equal to a float64 reference.",
 "C12": "Sub-batches that are views of the big batch (contiguous, then strided, same first address) are evaluated one after the other.",
 "C13": "float32 batches through float64 models and back: state values and dtypes unchanged, repeated calls identical.",
 "C14": "A newly constructed ActNorm must be uninitialised whatever other instances did; loading leaves the saved instance alone.",
 "C15": "The state dict is also loaded into an instance that had been evaluated; a history perturbs every persistent floating-point "
        "entry; saved and restored model are compared on their next training-mode call including the state afterwards.",
 "C18": "Sequences of sample calls on one object with contexts of changing row counts and with one context overwritten in place.",
 "C20": "cbrt is evaluated over 1e-300 .. 1e300 in both signs.",
}
for _pid, _t in EXTRA.items():
    CLAIMED[_pid]["text"] += " " + _t
for _pid, _t in EXTRA5.items():
    CLAIMED[_pid]["text"] += " " + _t
for _pid, _t in EXTRA6.items():
    CLAIMED[_pid]["text"] += " " + _t
for _pid, _t in EXTRA7.items():
    CLAIMED[_pid]["text"] += " " + _t
for _pid, _t in EXTRA8.items():
    CLAIMED[_pid]["text"] += " " + _t
EXTRA9 = {
 "C02": "The catalogue includes a UMNN coupling on images with two transformed channels.",
 "C03": "ADDED: C03_linear_whole_spline_change_of_variables - the same for the whole piecewise-linear spline, whose log-abs-det jumps at "
        "every knot, for any unnormalised pdf; C03_linear_cdf_flow_over_the_unit_uniform_is_normalised - exp(log_prob) of "
        "Flow(PiecewiseLinearCDF, uniform on [0,1]) integrates to exactly one for every parameter vector.",
 "C04": "An eval() mixture model with dropout must stay in evaluation mode through sampling, and sample_and_log_prob must return what "
        "log_prob says about the samples afterwards.",
 "C07": "A coupling layer loaded from the state dict of a layer with another mask of the same split sizes must still partition the features.",
 "C08": "Every program also runs with conditional leaves (shift and log-det move with the row's context) in both directions against "
        "plain composition.",
 "C09": "The four Piecewise*CDF modules (single-precision parameters) are called with double-precision inputs: exactly the identity outside "
        "the tail bound.",
 "C11": "Histories that switch caching off and on around a parameter move are part of the accessor search.",
 "C12": "Batches whose neighbouring rows carry equal contexts are part of the distribution search.",
 "C13": "Scalar-event and one-feature conditional normals are part of the side-effect census.",
 "C15": "Conditional normals with an encoder module and a multi-dimensional event are saved and restored, alone and as a flow's base.",
 "C17": "ADDED: C17_linear_quadratic_cubic_whole_splines_accept_their_box. The four Piecewise*CDF modules must reject double-precision "
        "inputs 1e-9 / 1e-50 outside their box.",
 "C18": "257 and 600 input rows with a matching context, and sample_and_log_prob / batched sampling whose rows x n passes 256.",
 "C19": "Layers computing batch statistics are evaluated on features centred at 3-100 with spread 0.05-1 (tolerance 20 eps32 |x| / s).",
 "C20": "The predicates are evaluated on objects that are not ints but compare equal to ints; sum_except_batch must refuse them with its "
        "documented TypeError.",
}
EXTRA10 = {
 "C01": "ADDED: C01_cubic_whole_spline_logabsdet_is_log_derivative (the whole cubic spline's forward map is differentiable at every interior "
        "point of its box, knots included, with derivative exp(log-abs-det)) and C01_linear_whole_spline_logabsdet_is_log_derivative_off_knots "
        "(the whole linear spline inside every bin). The catalogue includes LeakyReLU with a slope above one.",
 "C02": "A deep copy of a used transform that received another checkpoint is called alternately with the original and compared with a "
        "never-used instance.",
 "C03": "ADDED: C03_quadratic_whole_spline_change_of_variables and C03_quadratic_cdf_flow_over_the_unit_uniform_is_normalised - the same two "
        "statements for the whole piecewise-quadratic spline (both height forms), with an Example that the library defaults and five bins "
        "meet the hypotheses for any parameters; C03_cubic_whole_spline_change_of_variables - the same for the cubic spline's forward direction; "
        "C03_linear_ / C03_quadratic_ / C03_cubic_spline_flow_carries_the_base_mass - the unconstrained splines of the other three families "
        "over a standard normal carry exactly the base mass of every [-A, A] beyond the tail bound, for all parameters; "
        "C03_two_feature_rq_spline_flow_carries_the_product_mass and C03_two_feature_linear_and_cubic_spline_flow_carries_the_product_mass - "
        "two features, one spline each with its own parameters, over StandardNormal([2]): the iterated integral of exp(log_prob) over the "
        "square is the product of the base masses. Flows whose linear layers keep their matrices are sampled first and integrated afterwards.",
 "C04": "The fresh-twin comparison includes flows with random permutations, with and without context.",
 "C05": "The kernel density evaluator is integrated for 40-500 float32 samples centred far from the origin.",
 "C06": "12 and 20 features in float64: one pass per feature reproduces the input to 1e-12.",
 "C07": "Layers built before and after another layer of the same mask pattern was loaded still split as their own masks say.",
 "C08": "train() / eval() on a wrapper reaches every part, and the wrapper then equals its parts chained by hand in that mode.",
 "C09": "Cubic splines with a (nearly) parabolic bin exercise the inverse's low-degree branch.",
 "C10": "The histories accumulate into every returned tensor in place.",
 "C14": "Normalisation layers frozen inside a training flow keep mode and state through the flow's sampling calls.",
 "C17": "Sigmoid.inverse / Logit on the closed unit interval for clamps down to 1e-12.",
 "C18": "Batches of zero rows return zero values / zero rows of draws (repaired defect 3369d93).",
 "C19": "Householder factors with short reflection vectors agree across precisions.",
 "C20": "Every tensor-returning utility hands out a fresh tensor.",
}
EXTRA11 = {
 "C01": "Outputs and log-abs-det with gradients tracked must equal those under no_grad and with frozen parameters.",
 "C02": "Sigmoid / Logit with temperatures away from one on image and vector items are in the catalogue.",
 "C03": "CauchyCDF / CauchyCDFInverse constructed with a scale are among the atoms; a surplus is attributed to the recorded Logit clamp by "
        "the same causal test as a deficit.",
 "C04": "Flows whose QR / SVD / LU / naive layers keep their matrices and whose parameters moved are sampled and scored.",
 "C05": "The MADE mixture with a large floor on its standard deviations: draws against the mean / standard deviation of exp(log_prob).",
 "C06": "The float32 networks are checked once more under torch.autocast(cpu, bfloat16).",
 "C07": "Identity features holding -0.0 and the smallest subnormal come back bit for bit.",
 "C08": "The caller's list of parts is changed after construction.",
 "C09": "float64 inputs next to tail bounds that are not float32 numbers.",
 "C10": "64 to 128 features with determinants outside the floating-point range, either direction filling the cache.",
 "C11": "Parameters moved through .data are part of the histories.",
 "C13": "The training flags of every sub-module are part of the state compared around each call.",
 "C14": "ActNorm with one feature / one channel runs the same histories.",
 "C15": "NaiveLinear with its default orthogonal initialisation, 2 to 8 features.",
 "C16": "Every flow is checked once more as a deep copy whose parameters then moved, against the original holding the copy's state dict.",
 "C17": "Boxes whose output interval ends at exactly zero.",
 "C18": "The argument contract must not depend on which values were rejected or accepted before.",
 "C19": "float32 data clipped to tail bounds that float32 has to round. ADDED: single precision as a third instance of the operation "
        "dictionary (Fops32: every arithmetic result rounded to the nearest binary32 number, Flocq) and C19_actnorm_forward_float32_error, "
        "C19_actnorm_inverse_float32_error, C19_conditional_normal_sampler_float32_error, C19_spline_denormalisation_float32_error and "
        "C19_batchnorm_forward_float32_error (six rounded operations incl. sqrt and division, by a relative-error calculus) - the regenerated formulas evaluated in "
        "float32 differ from their exact values by at most u(2+u) times the size of the terms (u = 2^-24) when nothing is subnormal; the "
        "dictionary is tied to the code by a bit-for-bit comparison of exact-rational evaluation with the float32 ActNorm and BatchNorm modules and the conditional normal's sampler.",
 "C20": "sum_except_batch on bool and integer tensors returns the exact row sums.",
}
for _pid, _t in EXTRA11.items():
    CLAIMED[_pid]["text"] += " " + _t
for _pid, _t in EXTRA10.items():
    CLAIMED[_pid]["text"] += " " + _t
for _pid, _t in EXTRA9.items():
    CLAIMED[_pid]["text"] += " " + _t
for _pid, _t in EXTRA4.items():
    CLAIMED[_pid]["text"] += " " + _t
for _pid, _d in OVERRIDE.items():
    CLAIMED[_pid].update(_d)

def main():
    checks = []
    for pid in ALL:
        if pid not in CLAIMED:
            continue
        c = CLAIMED[pid]
        checks.append({
            "property_id": pid,
            "quick_cmd": "./check %s quick" % pid,
            "thorough_cmd": "./check %s thorough" % pid,
            "evidence_file": "evidence/%s.json" % pid,
            "replay_cmd_template": "./check %s --replay {path}" % pid,
            "engine": "coq-model",
            "level_claimed": {"category": "proof", "text": c["text"], "design_ref": c["design"]},
            "level_note": c["note"],
            "technique": c["technique"],
        })
    na = [{"property_id": pid, "reason": "check not built yet in this round (planned: DESIGN.md section 4); not claimed"}
          for pid in ALL if pid not in CLAIMED]
    man = {
        "version": 1,
        "setup_cmd": "./setup.sh",
        "hooks": {"guard": "NFLOWS_VERIF", "enable": "no source hooks: checks drive the unmodified library "
                  "(PYTHONPATH=/repo); NFLOWS_VERIF=1 is exported by ./check but read by nothing in /repo",
                  "baseline_off_cmd": "cd /repo && /venv/bin/python -m pytest -ra -q -p no:cacheprovider --timeout=900 "
                                      "--continue-on-collection-errors",
                  "source_commits": [], "add_only": True},
        "engines": [{"name": "coq-model", "path": "coq/", "serves_properties": sorted(CLAIMED),
                     "kind_free_text": "Coq 8.16 development (Base/Model/Gen/Proofs/Properties), regenerated Gen/ by "
                                       "tools/py2coq.py, extracted OCaml drivers in driver/, Python harness in harness/"}],
        "checks": checks,
        "not_applicable": na,
        "notes": "Every check: translator -> make Properties/<id>.vo (+ Print Assumptions gate) -> correspondence of the "
                 "extracted model against /repo -> direct search on the implementation. known_findings.json lists "
                 "recorded and fixed defects.",
    }
    with open(os.path.join(HERE, "MANIFEST.json"), "w") as fh:
        json.dump(man, fh, indent=1)
    print("claimed:", sorted(CLAIMED))

if __name__ == "__main__":
    main()
