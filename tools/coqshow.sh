#!/bin/sh
# coqshow.sh <file.v> <line>: compile a copy of file truncated after <line>, with "Show." appended, and print goals
f="$1"; n="$2"
d=$(dirname "$f"); b=$(basename "$f" .v)
head -n "$n" "$f" > "$d/Dbg_$b.v"
echo "Show. " >> "$d/Dbg_$b.v"
cd /verif/coq && coqc -Q . NF -w -all "$d/Dbg_$b.v" 2>&1 | tail -${3:-60}
rm -f "$d/Dbg_$b.v" "$d/Dbg_$b.vo" "$d/Dbg_$b.glob" "$d/.Dbg_$b.aux" "$d/Dbg_$b.vok" "$d/Dbg_$b.vos"
