#!/usr/bin/env python3
"""py2coq: fail-closed translator from fragments of /repo/nflows to Coq (Gen/*.v).

Three kinds of fragment are handled (DESIGN.md 1.2 (T)):
  1. scalar formula blocks  -> Definition f {T} (O : ops T) (vars : T) : T
  2. guards / predicates    -> boolean definitions over ops or over pyval
  3. structural tables      -> list literals (tables.py)

Anything outside the whitelisted syntax raises Untranslatable; the group that
contains it is then *not* emitted (its .v file is replaced by a file that fails
to compile with the error message), so every theorem depending on it becomes a
broken obligation instead of silently keeping a stale model.

Usage: py2coq.py --repo /repo --out /verif/coq/Gen   (prints a JSON status)
"""
import ast
import argparse
import hashlib
import json
import os
import sys
from fractions import Fraction

sys.path.insert(0, os.path.dirname(os.path.abspath(__file__)))


class Untranslatable(Exception):
    def __init__(self, msg, node=None):
        if node is not None and hasattr(node, "lineno"):
            msg = "%s (line %d: %s)" % (msg, node.lineno, _short(node))
        super().__init__(msg)


def _short(node):
    try:
        s = ast.unparse(node)
    except Exception:  # pragma: no cover
        s = ast.dump(node)
    return s if len(s) < 90 else s[:87] + "..."


# --------------------------------------------------------------------------
# scalar expressions over ops
# --------------------------------------------------------------------------

UNARY_CALLS = {
    "log": "o_ln O", "exp": "o_exp O", "sqrt": "o_sqrt O", "abs": "o_abs O",
    "tanh": "o_tanh O", "atan": "o_atan O", "tan": "o_tan O", "cos": "o_cos O",
    "sin": "o_sin O", "sigmoid": "o_sigmoid O", "log1p": "o_log1p O",
    "sign": "o_sign O", "softplus": "o_softplus O",
}
MODULES = {"torch", "np", "numpy", "math", "F"}


def lit(value, node=None):
    if isinstance(value, bool):
        raise Untranslatable("boolean literal in arithmetic", node)
    if isinstance(value, int):
        return "(o_ofZ O (%d))" % value
    if isinstance(value, float):
        fr = Fraction(repr(value))
        if fr.denominator == 1:
            return "(o_ofZ O (%d))" % fr.numerator
        return "(o_lit O (%d) (%d))" % (fr.numerator, fr.denominator)
    raise Untranslatable("unsupported literal %r" % (value,), node)


class ExprTr:
    """Translate a Python expression AST to a Coq term over [O : ops T].

    env: dict python-name -> coq variable name (free variables and lets)
    attrs: dict 'self.x' attribute name -> coq variable name
    consts: dict module-level NAME -> python value (DEFAULT_* constants)
    edge: how `X[..., :-1]` / `X[..., 1:]` are read: dict (name,'L'|'R') -> coq var
    """

    def __init__(self, env, attrs=None, consts=None, edge=None, mask_ok=True, subst=None):
        self.subst = subst or {}
        self.env = env
        self.attrs = attrs or {}
        self.consts = consts or {}
        self.edge = edge or {}
        self.mask_ok = mask_ok

    def name(self, n, node):
        if n in self.env:
            return self.env[n]
        if n in self.consts:
            return lit(self.consts[n], node)
        raise Untranslatable("free name '%s' not declared for this block" % n, node)

    def tr(self, e):
        if self.subst:
            key = ast.unparse(e)
            if key in self.subst:
                v = self.subst[key]
                if v.startswith("@"):          # current binding of a block variable
                    return self.name(v[1:], e)
                return v
        if isinstance(e, ast.Constant):
            return lit(e.value, e)
        if isinstance(e, ast.Name):
            return self.name(e.id, e)
        if isinstance(e, ast.Attribute):
            # self.attr ; np.pi ; math.pi
            if isinstance(e.value, ast.Name) and e.value.id == "self":
                if e.attr in self.attrs:
                    return self.attrs[e.attr]
                raise Untranslatable("self.%s not declared" % e.attr, e)
            if isinstance(e.value, ast.Name) and e.value.id in ("np", "math", "numpy") and e.attr == "pi":
                return "(o_pi O)"
            raise Untranslatable("attribute", e)
        if isinstance(e, ast.UnaryOp):
            if isinstance(e.op, ast.USub):
                return "(o_neg O %s)" % self.tr(e.operand)
            if isinstance(e.op, ast.UAdd):
                return self.tr(e.operand)
            raise Untranslatable("unary operator", e)
        if isinstance(e, ast.BinOp):
            if isinstance(e.op, ast.Pow):
                return self.power(self.tr(e.left), e.right, e)
            ops = {ast.Add: "o_add", ast.Sub: "o_sub", ast.Mult: "o_mul", ast.Div: "o_div"}
            for k, v in ops.items():
                if isinstance(e.op, k):
                    return "(%s O %s %s)" % (v, self.tr(e.left), self.tr(e.right))
            raise Untranslatable("binary operator", e)
        if isinstance(e, ast.Subscript):
            return self.subscript(e)
        if isinstance(e, ast.Call):
            return self.call(e)
        raise Untranslatable("expression form %s" % type(e).__name__, e)

    def power(self, base, expo, node):
        if isinstance(expo, ast.Constant) and expo.value == 2:
            return "(o_sq O %s)" % base
        if isinstance(expo, ast.Constant) and expo.value == 3:
            return "(o_cube O %s)" % base
        raise Untranslatable("power with exponent other than 2 or 3", node)

    def subscript(self, e):
        sl = e.slice
        # X[..., None] and X[some_mask] are shape-only for a per-element reading
        if isinstance(sl, ast.Tuple) and len(sl.elts) == 2 and isinstance(sl.elts[0], ast.Constant) \
                and sl.elts[0].value is Ellipsis:
            second = sl.elts[1]
            if isinstance(second, ast.Constant) and second.value is None:
                return self.tr(e.value)
            if isinstance(second, ast.Slice) and isinstance(e.value, ast.Name):
                nm = e.value.id
                lo, hi = second.lower, second.upper
                if lo is None and isinstance(hi, ast.UnaryOp) and isinstance(hi.op, ast.USub) \
                        and isinstance(hi.operand, ast.Constant) and hi.operand.value == 1 and second.step is None:
                    key = (nm, "L")
                elif hi is None and isinstance(lo, ast.Constant) and lo.value == 1 and second.step is None:
                    key = (nm, "R")
                else:
                    raise Untranslatable("slice other than [..., :-1] / [..., 1:]", e)
                if key in self.edge:
                    return self.edge[key]
                raise Untranslatable("edge slice %s[%s] not declared" % key, e)
        if self.mask_ok and isinstance(sl, ast.Name) and "mask" in sl.id:
            return self.tr(e.value)
        raise Untranslatable("subscript", e)

    def call(self, e):
        f = e.func
        if e.keywords and not (isinstance(f, ast.Attribute) and f.attr in ("softplus", "clamp", "sum_except_batch")):
            raise Untranslatable("keyword arguments", e)
        if isinstance(f, ast.Attribute):
            # module.function(args)
            if isinstance(f.value, ast.Name) and f.value.id in MODULES:
                fn = f.attr
                if fn == "softplus":
                    beta = None
                    for kw in e.keywords:
                        if kw.arg == "beta":
                            beta = kw.value
                        else:
                            raise Untranslatable("softplus keyword %s" % kw.arg, e)
                    if len(e.args) != 1:
                        raise Untranslatable("softplus arity", e)
                    if beta is None:
                        return "(o_softplus O %s)" % self.tr(e.args[0])
                    return "(o_softplus_beta O %s %s)" % (self.tr(beta), self.tr(e.args[0]))
                if fn == "clamp":
                    args = list(e.args)
                    kws = {kw.arg: kw.value for kw in e.keywords}
                    if len(args) == 3 and not kws:
                        return "(o_clamp O %s %s %s)" % tuple(self.tr(a) for a in args)
                    if len(args) == 1 and set(kws) == {"min", "max"}:
                        return "(o_clamp O %s %s %s)" % (self.tr(args[0]), self.tr(kws["min"]), self.tr(kws["max"]))
                    raise Untranslatable("clamp form", e)
                if fn == "atan2" and len(e.args) == 2:
                    return "(o_atan2 O %s %s)" % (self.tr(e.args[0]), self.tr(e.args[1]))
                if fn == "pow" and len(e.args) == 2:
                    return self.power(self.tr(e.args[0]), e.args[1], e)
                if fn in ("min", "max") and len(e.args) == 2 and f.value.id == "torch":
                    return "(o_%s O %s %s)" % (fn, self.tr(e.args[0]), self.tr(e.args[1]))
                if fn == "leaky_relu":
                    raise Untranslatable("leaky_relu is modelled by hand", e)
                if fn in UNARY_CALLS and len(e.args) == 1:
                    return "(%s %s)" % (UNARY_CALLS[fn], self.tr(e.args[0]))
                if fn == "as_tensor" and len(e.args) == 1:
                    return self.tr(e.args[0])
                raise Untranslatable("call to %s.%s" % (f.value.id, fn), e)
            # torchutils.cbrt(x)
            if isinstance(f.value, ast.Name) and f.value.id == "torchutils" and f.attr == "cbrt" and len(e.args) == 1:
                return "(o_cbrt O %s)" % self.tr(e.args[0])
            # torchutils.sum_except_batch(e[, num_batch_dims=1]): per-element reading (the sum over the
            # non-batch dimensions is modelled by the hand-written aggregation)
            if isinstance(f.value, ast.Name) and f.value.id == "torchutils" and f.attr == "sum_except_batch" \
                    and len(e.args) == 1 and all(kw.arg == "num_batch_dims" and isinstance(kw.value, ast.Constant)
                                                 and kw.value.value == 1 for kw in e.keywords):
                return self.tr(e.args[0])
            # method calls on expressions: x.pow(k), x.abs(), x.log(), x.exp(), x.float()
            recv = self.tr(f.value)
            if f.attr == "pow" and len(e.args) == 1:
                return self.power(recv, e.args[0], e)
            if f.attr in ("abs", "log", "exp", "sqrt", "tanh", "sigmoid") and not e.args:
                return "(%s %s)" % (UNARY_CALLS[f.attr], recv)
            if f.attr == "reshape" and len(e.args) == 1 and ast.unparse(e.args[0]) == "-1":
                return recv   # shape only
            if f.attr == "expand_as" and len(e.args) == 1:
                return recv   # broadcast only: per-element value unchanged
            raise Untranslatable("method .%s()" % f.attr, e)
        raise Untranslatable("call", e)


# --------------------------------------------------------------------------
# boolean guards over ops
# --------------------------------------------------------------------------

def tr_cmp(x, op, y, node):
    table = {ast.Lt: "(o_ltb O %s %s)", ast.LtE: "(o_leb O %s %s)",
             ast.Gt: "(o_ltb O %s %s)", ast.GtE: "(o_leb O %s %s)"}
    for k, fmt in table.items():
        if isinstance(op, k):
            if k in (ast.Gt, ast.GtE):
                return fmt % (y, x)
            return fmt % (x, y)
    raise Untranslatable("comparison operator", node)


class GuardTr(ExprTr):
    """Boolean expressions: comparisons of scalar expressions, or/and/not, &,|,~.
    torch.min(inputs)/torch.max(inputs) are read as the variables `mn`/`mx`."""

    def __init__(self, env, minmax=None, **kw):
        super().__init__(env, **kw)
        self.minmax = minmax or {}

    def tr(self, e):
        if isinstance(e, ast.Call) and isinstance(e.func, ast.Attribute) and isinstance(e.func.value, ast.Name) \
                and e.func.value.id == "torch" and e.func.attr in ("min", "max") and len(e.args) == 1 \
                and isinstance(e.args[0], ast.Name) and (e.func.attr, e.args[0].id) in self.minmax:
            return self.minmax[(e.func.attr, e.args[0].id)]
        return super().tr(e)

    def trb(self, e):
        if isinstance(e, ast.BoolOp):
            op = "orb" if isinstance(e.op, ast.Or) else "andb"
            parts = [self.trb(v) for v in e.values]
            out = parts[0]
            for p in parts[1:]:
                out = "(%s %s %s)" % (op, out, p)
            return out
        if isinstance(e, ast.BinOp) and isinstance(e.op, (ast.BitAnd, ast.BitOr)):
            op = "andb" if isinstance(e.op, ast.BitAnd) else "orb"
            return "(%s %s %s)" % (op, self.trb(e.left), self.trb(e.right))
        if isinstance(e, ast.UnaryOp) and isinstance(e.op, (ast.Not, ast.Invert)):
            return "(negb %s)" % self.trb(e.operand)
        if isinstance(e, ast.Compare) and len(e.ops) == 1:
            return tr_cmp(self.tr(e.left), e.ops[0], self.tr(e.comparators[0]), e)
        raise Untranslatable("boolean form", e)


# --------------------------------------------------------------------------
# locating code
# --------------------------------------------------------------------------

class Source:
    def __init__(self, repo, rel):
        self.rel = rel
        self.path = os.path.join(repo, rel)
        with open(self.path) as fh:
            self.text = fh.read()
        self.tree = ast.parse(self.text)
        self.consts = {}
        for st in self.tree.body:
            if isinstance(st, ast.Assign) and len(st.targets) == 1 and isinstance(st.targets[0], ast.Name):
                try:
                    v = ast.literal_eval(st.value)
                except Exception:
                    continue
                if isinstance(v, (int, float)) and not isinstance(v, bool):
                    self.consts[st.targets[0].id] = v

    def func(self, name):
        for st in self.tree.body:
            if isinstance(st, ast.FunctionDef) and st.name == name:
                return st
        raise Untranslatable("function %s not found in %s" % (name, self.rel))

    def method(self, cls, name):
        for st in self.tree.body:
            if isinstance(st, ast.ClassDef) and st.name == cls:
                for m in st.body:
                    if isinstance(m, ast.FunctionDef) and m.name == name:
                        return m
        raise Untranslatable("method %s.%s not found in %s" % (cls, name, self.rel))

    def cls(self, name):
        for st in self.tree.body:
            if isinstance(st, ast.ClassDef) and st.name == name:
                return st
        raise Untranslatable("class %s not found in %s" % (name, self.rel))


def if_on(fn, testname, containing):
    """The top-level `if <testname>:` statement of fn whose body or orelse
    assigns the name `containing`."""
    found = []
    for st in fn.body:
        if isinstance(st, ast.If) and isinstance(st.test, ast.Name) and st.test.id == testname:
            names = {t.id for b in (st.body, st.orelse) for s in b for t in _targets(s)}
            if containing in names:
                found.append(st)
    if len(found) != 1:
        raise Untranslatable("expected exactly one `if %s:` assigning %s in %s, found %d"
                             % (testname, containing, fn.name, len(found)))
    return found[0]


def _targets(st):
    out = []
    if isinstance(st, ast.Assign):
        for t in st.targets:
            if isinstance(t, ast.Name):
                out.append(t)
    elif isinstance(st, ast.AugAssign) and isinstance(st.target, ast.Name):
        out.append(st.target)
    return out


def nth_assign(fn, target, occurrence):
    """The occurrence-th (0-based) top-level `target = expr` of fn."""
    hits = [st for st in fn.body if isinstance(st, ast.Assign) and len(st.targets) == 1
            and isinstance(st.targets[0], ast.Name) and st.targets[0].id == target]
    if occurrence >= len(hits):
        raise Untranslatable("assignment #%d to %s not found in %s" % (occurrence, target, fn.name))
    return hits[occurrence]


def expect_skeleton(fn, want):
    """The top-level statements of fn (doc string aside) as `Kind` / `If:<test>`: the model of fn follows this control skeleton
    (guards first, then the straight-line body); a statement more or fewer - an early return, an extra guard - is not modelled."""
    got = []
    for st in fn.body:
        if isinstance(st, ast.Expr) and isinstance(st.value, ast.Constant):
            continue
        got.append(type(st).__name__ + (":" + ast.unparse(st.test) if isinstance(st, ast.If) else ""))
    if got != want:
        raise Untranslatable("%s: statement skeleton %s differs from the modelled %s" % (fn.name, got, want), fn)


def store_census(fn, expect):
    """How often each of the names in `expect` is written anywhere in fn (plain, tuple, subscript and augmented assignments).  The
    model takes a fixed number of definitions of these intermediates; one more or one fewer means the data flow changed."""
    import collections
    c = collections.Counter()
    for n in ast.walk(fn):
        tg = n.targets if isinstance(n, ast.Assign) else [n.target] if isinstance(n, (ast.AugAssign, ast.AnnAssign)) else []
        for t_ in tg:
            for e_ in (t_.elts if isinstance(t_, (ast.Tuple, ast.List)) else [t_]):
                b = e_
                while isinstance(b, (ast.Subscript, ast.Attribute, ast.Starred)):
                    b = b.value
                if isinstance(b, ast.Name):
                    c[b.id] += 1
        if isinstance(n, ast.Call) and isinstance(n.func, ast.Attribute) and n.func.attr.endswith("_") and not n.func.attr.startswith("_"):
            b = n.func.value                      # in-place tensor methods (x.add_(..), x.masked_scatter_(..)) write too
            while isinstance(b, (ast.Subscript, ast.Attribute)):
                b = b.value
            if isinstance(b, ast.Name):
                c[b.id] += 1
    # statement-level calls (helper invocations whose result is dropped: validation hooks, in-place helpers), raises and asserts
    c["__bare_calls__"] = sum(1 for n in ast.walk(fn) if isinstance(n, ast.Expr) and isinstance(n.value, ast.Call))
    c["__raises__"] = sum(1 for n in ast.walk(fn) if isinstance(n, ast.Raise))
    c["__asserts__"] = sum(1 for n in ast.walk(fn) if isinstance(n, ast.Assert))
    bad = {k: (v, c.get(k, 0)) for k, v in expect.items() if c.get(k, 0) != v}
    if bad:
        raise Untranslatable("%s: the number of writes to %s differs from what the model assumes (expected, found): %s"
                             % (fn.name, sorted(bad), bad), fn)


# --------------------------------------------------------------------------
# statement blocks -> let chains
# --------------------------------------------------------------------------

def block_defs(prefix, stmts, free, outputs, consts=None, attrs=None, edge=None, skip=(), ret_names=None,
               stop_at=None, subst=None, skip_src=()):
    """Translate a straight-line block.  free: ordered python names that become
    arguments.  outputs: names (or ret0/ret1 for the return tuple) for which a
    Definition is emitted.  Statements assigning a name in `skip` are ignored
    (they must not be needed by any output).  Returns list of (coqname, text)."""
    env = {n: "v_" + n for n in free}
    lets = []          # (coqvar, term)
    version = {}
    outs = {}

    def fresh(n):
        version[n] = version.get(n, 0) + 1
        return "l_%s_%d" % (n, version[n])

    def mk():
        return ExprTr(dict(env), attrs=attrs, consts=consts, edge=edge, subst=subst)

    seen_skips = set()
    for st in stmts:
        src_txt = ast.unparse(st)
        if src_txt in skip_src:
            seen_skips.add(src_txt)
            continue
        if isinstance(st, ast.Expr) and isinstance(st.value, ast.Constant):
            continue  # docstring / comment string
        if isinstance(st, ast.Assert):
            continue
        if isinstance(st, ast.Assign):
            if len(st.targets) != 1:
                raise Untranslatable("multiple assignment targets", st)
            t = st.targets[0]
            if isinstance(t, ast.Name):
                if t.id in skip:
                    if t.id in free:
                        env[t.id] = "v_" + t.id     # structural assignment: the value is an argument
                    else:
                        env.pop(t.id, None)
                    continue
                term = mk().tr(st.value)
                v = fresh(t.id)
                lets.append((v, term))
                env[t.id] = v
                continue
            if isinstance(t, ast.Subscript) and isinstance(t.value, ast.Name) and isinstance(t.slice, ast.Name) \
                    and "mask" in t.slice.id:
                # outputs[mask] = expr : per-element reading, recorded as <name>_at_<mask>
                key = "%s_at_%s" % (t.value.id, t.slice.id)
                if key in skip:
                    continue
                term = mk().tr(st.value)
                v = fresh(key)
                lets.append((v, term))
                env[key] = v
                continue
            raise Untranslatable("assignment target", st)
        if isinstance(st, ast.AugAssign) and isinstance(st.target, ast.Name):
            if st.target.id in skip:
                env.pop(st.target.id, None)
                continue
            ops = {ast.Add: "o_add", ast.Sub: "o_sub", ast.Mult: "o_mul", ast.Div: "o_div"}
            for k, o in ops.items():
                if isinstance(st.op, k):
                    tr = mk()
                    term = "(%s O %s %s)" % (o, tr.name(st.target.id, st), tr.tr(st.value))
                    break
            else:
                raise Untranslatable("augmented assignment operator", st)
            v = fresh(st.target.id)
            lets.append((v, term))
            env[st.target.id] = v
            continue
        if isinstance(st, ast.Return):
            vals = st.value.elts if isinstance(st.value, ast.Tuple) else [st.value]
            for i, val in enumerate(vals):
                nm = "ret%d" % i
                if nm in outputs:
                    term = mk().tr(val)
                    v = fresh(nm)
                    lets.append((v, term))
                    env[nm] = v
            continue
        raise Untranslatable("statement form %s" % type(st).__name__, st)

    missing = [x for x in skip_src if x not in seen_skips]
    if missing:
        raise Untranslatable("block %s: expected structural statement(s) not found: %s" % (prefix, missing))
    defs = []
    args = " ".join("v_" + n for n in free)
    for out in outputs:
        if out not in env:
            raise Untranslatable("output %s is not assigned in block %s" % (out, prefix))
        body = env[out]
        # emit only the lets this output transitively needs, in order
        need = _needed(lets, body)
        chain = "".join("  let %s := %s in\n" % (v, t) for (v, t) in lets if v in need)
        name = "%s_%s" % (prefix, out)
        text = "Definition %s {T : Type} (O : ops T) (%s : T) : T :=\n%s  %s.\n" % (name, args, chain, body)
        defs.append((name, text))
    return defs


def _needed(lets, root):
    import re
    need = set()
    todo = [root]
    table = dict(lets)
    while todo:
        t = todo.pop()
        for m in re.findall(r"l_[A-Za-z0-9_]+", t):
            if m in table and m not in need:
                need.add(m)
                todo.append(table[m])
    return need


def single_def(name, expr_node, free, consts=None, attrs=None, edge=None):
    tr = ExprTr({n: "v_" + n for n in free}, attrs=attrs, consts=consts, edge=edge)
    term = tr.tr(expr_node)
    binders = " ".join("v_" + n for n in free)
    if attrs:
        binders = (binders + " " + " ".join(sorted(set(attrs.values())))).strip()
    if edge:
        binders = (binders + " " + " ".join(dict.fromkeys(edge.values()))).strip()
    head = "(%s : T) " % binders if binders else ""
    return (name, "Definition %s {T : Type} (O : ops T) %s: T :=\n  %s.\n" % (name, head, term))


def guard_def(name, test_node, free, minmax, consts=None, attrs=None):
    env = {n: "v_" + n for n in free}
    g = GuardTr(env, minmax=minmax, consts=consts, attrs=attrs)
    term = g.trb(test_node)
    binders = " ".join(list(dict.fromkeys(list(minmax.values()) + ["v_" + n for n in free]
                                          + sorted(set((attrs or {}).values())))))
    return (name, "Definition %s {T : Type} (O : ops T) (%s : T) : bool :=\n  %s.\n" % (name, binders, term))


HEADER = """(* GENERATED by tools/py2coq.py from %s -- do not edit.
   Regenerated from /repo's working tree on every check run. *)
From Coq Require Import ZArith List Bool.
From NF Require Import Base.Ops.
Import ListNotations.
Local Open Scope Z_scope.

"""


def first_raise_guard(fn, exc):
    """test of the first top-level `if <test>: raise exc()` in fn."""
    for st in fn.body:
        if isinstance(st, ast.If) and len(st.body) == 1 and isinstance(st.body[0], ast.Raise):
            r = st.body[0].exc
            nm = r.func.id if isinstance(r, ast.Call) and isinstance(r.func, ast.Name) else (
                r.id if isinstance(r, ast.Name) else None)
            if nm == exc:
                return st.test
    raise Untranslatable("no `if ...: raise %s` at top level of %s" % (exc, fn.name))


def write_if_changed(path, text):
    try:
        with open(path) as fh:
            if fh.read() == text:
                return False
    except FileNotFoundError:
        pass
    with open(path, "w") as fh:
        fh.write(text)
    return True


def main():
    ap = argparse.ArgumentParser()
    ap.add_argument("--repo", default="/repo")
    ap.add_argument("--out", default=os.path.join(os.path.dirname(os.path.abspath(__file__)), "..", "coq", "Gen"))
    args = ap.parse_args()
    import groups  # the per-file specifications
    status = {}
    os.makedirs(args.out, exist_ok=True)
    for gname, gfun, srcs in groups.GROUPS:
        entry = {"ok": True, "errors": [], "defs": [], "sources": srcs}
        try:
            defs, extra_header = gfun(args.repo)
            if gname == "Tables":
                text = "(* GENERATED by tools/py2coq.py (tools/tables.py) from nflows/**/*.py -- do not edit. *)\n" + defs[0][1]
            else:
                text = HEADER % ", ".join(srcs) + extra_header + "\n".join(t for _, t in defs)
            entry["defs"] = [n for n, _ in defs]
        except Exception as ex:  # Untranslatable (either module copy) or any surprise in a group function: fail closed
            if isinstance(ex, (SyntaxError, OSError)):
                raise_later = ex
            entry["ok"] = False
            entry["errors"].append("%s: %s" % (type(ex).__name__, ex))
            msg = str(ex).replace('"', "'").replace("*)", "* )")
            text = HEADER % ", ".join(srcs) + \
                '(* TRANSLATION FAILED: %s *)\nFail Definition translation_failed := tt.\n' \
                'Definition translation_failed : False := "%s".\n' % (msg, msg)
        h = hashlib.sha256(text.encode()).hexdigest()[:16]
        entry["sha"] = h
        entry["changed"] = write_if_changed(os.path.join(args.out, gname + ".v"), text)
        status[gname] = entry
    with open(os.path.join(args.out, "STATUS.json"), "w") as fh:
        json.dump(status, fh, indent=1, sort_keys=True)
    print(json.dumps({k: {"ok": v["ok"], "errors": v["errors"], "changed": v["changed"]} for k, v in status.items()}))
    return 0


if __name__ == "__main__":
    sys.exit(main())
