"""Structural tables extracted from the source (translator kind 3): in-place writes with the origin of
their target (C13), attribute registrations of every class (C15), gradient-blocking constructs (C16) and
dtype-fixing constructors (C19).  Everything found is emitted; nothing is filtered here -- the Coq side
decides which rows are acceptable, so a new row of an unacceptable kind breaks a proof obligation."""
import ast
import os

from py2coq import Untranslatable

VIEW_METHODS = {"view", "reshape", "permute", "t", "transpose", "expand", "expand_as", "squeeze", "unsqueeze",
                "contiguous", "flatten", "detach", "chunk", "narrow", "float", "double", "type", "type_as", "to",
                "long", "view_as", "diagonal", "select", "unbind", "split", "cpu", "data"}
VIEW_FUNCS = {"reshape", "as_tensor", "chunk", "transpose", "squeeze", "unsqueeze", "t", "narrow", "split", "flatten"}
FRESH_MODULES = {"torch", "F", "np", "math", "nn", "init", "splines", "torchutils", "check", "distributions"}
RANDOM_CALLS = {"randperm", "randn", "rand", "randint", "multinomial", "uniform_", "normal_", "random_orthogonal",
                "create_random_binary_mask", "RandomPermutation"}

# root kinds (nat codes in Coq)
FRESH, ARG, SELF_STATE, SELF_OTHER, CALLRES, NONTENSOR, UNKNOWN = range(7)


def py_files(repo):
    out = []
    for root, _, fs in os.walk(os.path.join(repo, "nflows")):
        for f in fs:
            if f.endswith(".py"):
                out.append(os.path.relpath(os.path.join(root, f), repo))
    return sorted(out)


class Origins:
    """flow-insensitive-ish origin analysis of one function: name -> set of root kinds"""

    def __init__(self, fn, registered, summaries=None, param_tokens=False, private_params=None):
        self.fn = fn
        self.registered = registered      # attribute names registered as parameter/buffer in the class
        self.summaries = summaries or {}  # callee -> indices of the arguments its result may alias (see alias_summaries)
        self.env = {}
        args = [a.arg for a in fn.args.args + fn.args.kwonlyargs]
        private = fn.name.startswith("_") and not fn.name.startswith("__")
        for a in args:
            if a != "self":
                if a.startswith("num_") or a in ("features", "n", "dim"):
                    self.env[a] = {NONTENSOR}
                else:
                    # arguments of private helpers: what the library's own call sites pass (private_param_origins);
                    # a private function nobody calls is treated like a public one
                    pp = (private_params or {}).get(fn.name, {}).get(a) if private else None
                    self.env[a] = set(pp) if pp else {ARG}
        if fn.args.vararg:
            self.env[fn.args.vararg.arg] = {ARG}
        if param_tokens:       # summary mode: every parameter is its own root (100 + position, self excluded)
            for i, a in enumerate(x for x in args if x != "self"):
                self.env[a] = {100 + i}

    def call_alias(self, key, e):
        """origins of a call to a library function / method of this class whose result may alias some arguments"""
        idxs = self.summaries.get(key)
        if idxs is None:
            return None
        out = {CALLRES}
        for i in idxs:
            if i < len(e.args):
                out |= self.of(e.args[i])
        return out

    def of(self, e):
        if isinstance(e, ast.Name):
            return set(self.env.get(e.id, {UNKNOWN}))
        if isinstance(e, ast.Constant):
            return {NONTENSOR}
        if isinstance(e, (ast.BinOp, ast.UnaryOp, ast.Compare, ast.BoolOp)):
            return {FRESH}
        if isinstance(e, (ast.List, ast.Tuple, ast.ListComp, ast.GeneratorExp, ast.Dict, ast.JoinedStr)):
            return {NONTENSOR}
        if isinstance(e, ast.IfExp):
            return self.of(e.body) | self.of(e.orelse)
        if isinstance(e, ast.Attribute):
            if isinstance(e.value, ast.Name) and e.value.id == "self":
                return {SELF_STATE} if e.attr in self.registered else {SELF_OTHER}
            if e.attr in ("data", "T", "grad"):
                return self.of(e.value)
            if e.attr in ("shape", "dtype", "device", "ndim"):
                return {NONTENSOR}
            return self.of(e.value)
        if isinstance(e, ast.Subscript):
            base = self.of(e.value)
            idx = ast.unparse(e.slice)
            names = {n.id for n in ast.walk(e.slice) if isinstance(n, ast.Name)} | \
                    {n.attr for n in ast.walk(e.slice) if isinstance(n, ast.Attribute)}
            if any(("mask" in n or "idx" in n or "indices" in n or "features" in n) for n in names):
                return {FRESH}          # advanced indexing with a tensor index copies
            return base                 # basic indexing / slicing is a view
        if isinstance(e, ast.Call):
            f = e.func
            if isinstance(f, ast.Attribute):
                if isinstance(f.value, ast.Name) and f.value.id in FRESH_MODULES:
                    if f.attr in VIEW_FUNCS and e.args:
                        return self.of(e.args[0])
                    al = self.call_alias(f.value.id + "." + f.attr, e)
                    if al is not None:
                        return al
                    return {FRESH}
                if isinstance(f.value, ast.Name) and f.value.id == "self":
                    al = self.call_alias("self." + f.attr, e)
                    if al is not None:
                        return al
                    return {CALLRES}            # a method / sub-module of the object
                if isinstance(f.value, ast.Attribute) and isinstance(f.value.value, ast.Name) and f.value.value.id == "self":
                    if f.attr in VIEW_METHODS:
                        return self.of(f.value)
                    if f.attr in ("inverse", "forward", "log_prob", "sample", "sample_and_log_prob"):
                        return {CALLRES}
                    return {FRESH}
                if f.attr in VIEW_METHODS:
                    return self.of(f.value)
                return {FRESH}                  # any other tensor method allocates its result
            if isinstance(f, ast.Name):
                if f.id in ("int", "float", "len", "range", "list", "tuple", "min", "max", "sum", "zip", "enumerate", "map",
                            "isinstance", "signature", "super"):
                    return {NONTENSOR}
                al = self.call_alias(f.id, e)
                if al is not None:
                    return al
                return {CALLRES}
            return {CALLRES}
        if isinstance(e, ast.Lambda):
            return {NONTENSOR}
        return {UNKNOWN}

    def assign(self, target, value_origin):
        if isinstance(target, ast.Name):
            if target.id.startswith("num_"):
                value_origin = {NONTENSOR}     # counters
            self.env[target.id] = set(value_origin)
        elif isinstance(target, (ast.Tuple, ast.List)):
            for t in target.elts:
                self.assign(t, value_origin)


def _return_aliases(fn, registered, summaries):
    """indices of the parameters (self excluded) that a value returned by fn may alias"""
    og = Origins(fn, registered, summaries, param_tokens=True)
    out = set()

    def visit(stmts):
        for st in stmts:
            if isinstance(st, ast.Assign):
                vo = og.of(st.value)
                for t in st.targets:
                    if isinstance(t, (ast.Name, ast.Tuple, ast.List)):
                        # flow-insensitive join: a name keeps every origin it ever had
                        if isinstance(t, ast.Name):
                            og.env[t.id] = set(og.env.get(t.id, set())) | set(vo)
                        else:
                            for x in t.elts:
                                if isinstance(x, ast.Name):
                                    og.env[x.id] = set(og.env.get(x.id, set())) | set(vo)
            elif isinstance(st, ast.Return) and st.value is not None:
                vals = st.value.elts if isinstance(st.value, ast.Tuple) else [st.value]
                for v in vals:
                    out.update(k - 100 for k in og.of(v) if isinstance(k, int) and k >= 100)
            elif isinstance(st, ast.If):
                visit(st.body); visit(st.orelse)
            elif isinstance(st, (ast.For, ast.While, ast.With, ast.Try)):
                visit(st.body)
    visit(fn.body)
    return out


def alias_summaries(tree, module_alias=None, inherited=None):
    """callee name -> set of argument positions its result may alias.  Module-level functions are keyed by their name
    (and `<module_alias>.<name>`), methods by `self.<name>`; `self.<attr> = lambda x: x` counts as a method returning its
    argument.  Two rounds so that helpers calling helpers are resolved."""
    summ = dict(inherited or {})
    for _ in range(3):
        for node in tree.body:
            if isinstance(node, ast.FunctionDef):
                r = _return_aliases(node, set(), summ)
                summ[node.name] = r
                if module_alias:
                    summ[module_alias + "." + node.name] = r
    return summ


def class_summaries(cls, summ):
    out = dict(summ)
    for node in ast.walk(cls):
        if isinstance(node, ast.Assign) and isinstance(node.value, ast.Lambda):
            lam = node.value
            for t in node.targets:
                if isinstance(t, ast.Attribute) and isinstance(t.value, ast.Name) and t.value.id == "self":
                    params = [a.arg for a in lam.args.args]
                    if isinstance(lam.body, ast.Name) and lam.body.id in params:
                        out["self." + t.attr] = {params.index(lam.body.id)}
    reg = registered_attrs(cls)
    for _ in range(3):
        for m in cls.body:
            if isinstance(m, ast.FunctionDef):
                out["self." + m.name] = _return_aliases(m, reg, out)
    return out


def worst(kinds):
    kinds = {ARG if (isinstance(k, int) and k >= 100) else k for k in kinds}
    for k in (ARG, SELF_STATE, UNKNOWN, SELF_OTHER, CALLRES, FRESH, NONTENSOR):
        if k in kinds:
            return k
    return UNKNOWN


def registered_attrs(cls):
    reg = set()
    for node in ast.walk(cls):
        if isinstance(node, ast.Assign):
            for t in node.targets:
                if isinstance(t, ast.Attribute) and isinstance(t.value, ast.Name) and t.value.id == "self":
                    v = node.value
                    if isinstance(v, ast.Call) and ast.unparse(v.func) in ("nn.Parameter", "torch.nn.Parameter"):
                        reg.add(t.attr)
        if isinstance(node, ast.Call) and ast.unparse(node.func) == "self.register_buffer" and node.args:
            a0 = node.args[0]
            if isinstance(a0, ast.Constant):
                reg.add(a0.value)
    return reg


def _walk_calls(fn, og, on_call):
    """run the origin analysis over fn's statements in order, reporting every call `self._name(...)` with the origins of
    its actual arguments at that point"""
    def exprs_of(st):
        if isinstance(st, ast.Assign):
            return [st.value]
        if isinstance(st, (ast.AugAssign, ast.Return, ast.Expr)):
            return [st.value] if st.value is not None else []
        if isinstance(st, (ast.If, ast.While)):
            return [st.test]
        if isinstance(st, ast.For):
            return [st.iter]
        return []

    def visit(stmts):
        for st in stmts:
            for ex in exprs_of(st):
                for c in ast.walk(ex):
                    if isinstance(c, ast.Call) and isinstance(c.func, ast.Attribute) and isinstance(c.func.value, ast.Name) \
                            and c.func.value.id == "self" and c.func.attr.startswith("_") and not c.func.attr.startswith("__"):
                        on_call(c.func.attr, [og.of(a) for a in c.args], {k.arg: og.of(k.value) for k in c.keywords if k.arg})
            if isinstance(st, ast.Assign):
                vo = og.of(st.value)
                for t in st.targets:
                    if isinstance(t, (ast.Name, ast.Tuple, ast.List)):
                        og.assign(t, vo)
            elif isinstance(st, ast.If):
                visit(st.body); visit(st.orelse)
            elif isinstance(st, (ast.For, ast.While)):
                if isinstance(st, ast.For):
                    og.assign(st.target, og.of(st.iter) if not isinstance(st.iter, ast.Call) else {CALLRES})
                visit(st.body); visit(st.orelse)
            elif isinstance(st, (ast.With, ast.Try)):
                visit(st.body)
    visit(fn.body)


def private_param_origins(scoped):
    """method name -> parameter name -> union of the origins passed at every `self._name(...)` call site in the library
    (by name: an abstract hook called in a base class and implemented in subclasses shares one entry)"""
    pp = {}
    sigs = {}
    for qn, fn, reg, summ in scoped:
        if fn.name.startswith("_") and not fn.name.startswith("__"):
            sigs.setdefault(fn.name, []).append([a.arg for a in fn.args.args if a.arg != "self"])
    for _ in range(4):
        new = {}
        for qn, fn, reg, summ in scoped:
            og = Origins(fn, reg, summ, private_params=pp)

            def on_call(name, pos, kw):
                for params in sigs.get(name, []):
                    d = new.setdefault(name, {})
                    for i, o in enumerate(pos):
                        if i < len(params):
                            d.setdefault(params[i], set()).update(o)
                    for k, o in kw.items():
                        d.setdefault(k, set()).update(o)
            _walk_calls(fn, og, on_call)
        pp = new
    return pp


def inplace_rows(repo):
    """rows: (file, qualified function, kind, root, guarded_by_training, text)"""
    rows = []
    tu = ast.parse(open(os.path.join(repo, "nflows/utils/torchutils.py")).read())
    lib = alias_summaries(tu, "torchutils")
    lib = {k: v for k, v in lib.items() if k.startswith("torchutils.")}     # only qualified names are visible elsewhere
    per_file = []
    for rel in py_files(repo):
        tree = ast.parse(open(os.path.join(repo, rel)).read())
        modsum = alias_summaries(tree, None, lib)
        scopes = []
        for node in tree.body:
            if isinstance(node, ast.FunctionDef):
                scopes.append((node.name, node, set(), modsum))
            elif isinstance(node, ast.ClassDef):
                reg = registered_attrs(node)
                csum = class_summaries(node, modsum)
                for m in node.body:
                    if isinstance(m, ast.FunctionDef):
                        scopes.append((node.name + "." + m.name, m, reg, csum))
        per_file.append((rel, scopes))
    pp = private_param_origins([sc for _, scopes in per_file for sc in scopes])
    for rel, scopes in per_file:
        for qn, fn, reg, summ in scopes:
            og = Origins(fn, reg, summ, private_params=pp)

            def embedded_inplace(st, exprs, training):
                """in-place methods used inside an expression: y = x.add_(1), return x.mul_(2)"""
                for ex in exprs:
                    for c in ast.walk(ex):
                        if isinstance(c, ast.Call) and isinstance(c.func, ast.Attribute) and c.func.attr.endswith("_") \
                                and not c.func.attr.startswith("__") and not (isinstance(c.func.value, ast.Name) and c.func.value.id == "init"):
                            inner = c.func.value
                            while isinstance(inner, ast.Call) and isinstance(inner.func, ast.Attribute):
                                inner = inner.func.value
                            rows.append((rel, qn, "inplace-method", worst(og.of(inner)), training, ast.unparse(st)))

            def visit(stmts, training):
                for st in stmts:
                    if isinstance(st, ast.Assign):
                        embedded_inplace(st, [st.value], training)
                        vo = og.of(st.value)
                        for t in st.targets:
                            if isinstance(t, ast.Subscript):
                                rows.append((rel, qn, "setitem", worst(og.of(t.value)), training, ast.unparse(st)))
                            elif isinstance(t, ast.Attribute) and t.attr == "data":
                                rows.append((rel, qn, "data-assign", worst(og.of(t.value)), training, ast.unparse(st)))
                            else:
                                og.assign(t, vo)
                    elif isinstance(st, ast.Return) and st.value is not None:
                        embedded_inplace(st, [st.value], training)
                    elif isinstance(st, ast.AugAssign):
                        embedded_inplace(st, [st.value], training)
                        tgt = st.target
                        base = tgt.value if isinstance(tgt, ast.Subscript) else tgt
                        rows.append((rel, qn, "augassign", worst(og.of(base)), training, ast.unparse(st)))
                    elif isinstance(st, ast.Expr) and isinstance(st.value, ast.Call):
                        c = st.value
                        # chained in-place methods: x.mul_(..).add_(..)
                        cur = c
                        while isinstance(cur, ast.Call) and isinstance(cur.func, ast.Attribute):
                            if cur.func.attr.endswith("_") and not cur.func.attr.startswith("__"):
                                base = cur.func.value
                                inner = base
                                while isinstance(inner, ast.Call) and isinstance(inner.func, ast.Attribute):
                                    inner = inner.func.value
                                if isinstance(cur.func.value, ast.Name) and cur.func.value.id == "init":
                                    root = worst(og.of(cur.args[0])) if cur.args else UNKNOWN
                                else:
                                    root = worst(og.of(inner))
                                rows.append((rel, qn, "inplace-method", root, training, ast.unparse(st)))
                            cur = cur.func.value
                    elif isinstance(st, ast.If):
                        tr = training or ast.unparse(st.test) in ("self.training", "self.training and (not self.initialized)")
                        visit(st.body, tr)
                        visit(st.orelse, training)
                    elif isinstance(st, (ast.For, ast.While)):
                        if isinstance(st, ast.For):
                            og.assign(st.target, og.of(st.iter) if not isinstance(st.iter, ast.Call) else {CALLRES})
                        visit(st.body, training)
                        visit(st.orelse, training)
                    elif isinstance(st, ast.With):
                        visit(st.body, training)
                    elif isinstance(st, ast.Try):
                        visit(st.body, training)
                    elif isinstance(st, ast.FunctionDef):
                        pass
            visit(fn.body, False)
            # calls with out=
            for node in ast.walk(fn):
                if isinstance(node, ast.Call) and any(kw.arg == "out" for kw in node.keywords):
                    rows.append((rel, qn, "out-kwarg", UNKNOWN, False, ast.unparse(node)))
                # attributes (re)bound by name outside a constructor: setattr(self, ...), self.register_buffer / register_parameter
                # in a method that runs at evaluation time replace registered state as surely as an in-place write
                if isinstance(node, ast.Call) and fn.name not in ("__init__", "_initialize", "reset_parameters"):
                    cal = ast.unparse(node.func)
                    if (cal == "setattr" and node.args and ast.unparse(node.args[0]) == "self") or \
                            cal in ("self.register_buffer", "self.register_parameter", "self.__setattr__"):
                        rows.append((rel, qn, "rebind-attribute", 2, False, ast.unparse(node)))
                # modules / functionals asked to work in place (nn.Dropout(inplace=True), F.relu(x, inplace=True)): they overwrite
                # an activation that an earlier operation may have saved for its backward pass
                if isinstance(node, ast.Call):
                    for kw in node.keywords:
                        if kw.arg == "inplace" and not (isinstance(kw.value, ast.Constant) and kw.value.value is False):
                            rows.append((rel, qn, "inplace-kwarg", UNKNOWN, False, ast.unparse(node)))
    return rows


def _called(node):
    names = set()
    for c in ast.walk(node):
        if isinstance(c, ast.Call):
            names.add(ast.unparse(c.func).split(".")[-1])
    return names


def _is_random(node):
    return bool(_called(node) & RANDOM_CALLS)


def attr_rows(repo):
    """rows: (file, class, attr, kind 0 param / 1 persistent buffer / 2 non-persistent buffer / 3 submodule-or-plain, random_rhs, text)"""
    rows = []
    for rel in py_files(repo):
        tree = ast.parse(open(os.path.join(repo, rel)).read())
        for cls in tree.body:
            if not isinstance(cls, ast.ClassDef):
                continue
            init = [m for m in cls.body if isinstance(m, ast.FunctionDef) and m.name == "__init__"]
            if not init:
                continue
            rnd_names = set()
            for st in ast.walk(init[0]):
                if isinstance(st, ast.Assign):
                    txt = ast.unparse(st.value)
                    israndom = _is_random(st.value)
                    uses = {n.id for n in ast.walk(st.value) if isinstance(n, ast.Name)}
                    if israndom or (uses & rnd_names):
                        for t in st.targets:
                            if isinstance(t, ast.Name):
                                rnd_names.add(t.id)
            for st in ast.walk(init[0]):
                if isinstance(st, ast.Assign):
                    for t in st.targets:
                        if isinstance(t, ast.Attribute) and isinstance(t.value, ast.Name) and t.value.id == "self":
                            txt = ast.unparse(st.value)
                            uses = {n.id for n in ast.walk(st.value) if isinstance(n, ast.Name)}
                            rnd = _is_random(st.value) or bool(uses & rnd_names)
                            kind = 0 if txt.startswith(("nn.Parameter", "torch.nn.Parameter")) else 3
                            if kind == 3 and isinstance(st.value, ast.Call):
                                fname = ast.unparse(st.value.func).split(".")[-1]
                                if fname[:1].isupper():
                                    kind = 5     # constructs an object (sub-module): carries its own registered state
                            rows.append((rel, cls.name, t.attr, kind, rnd, ast.unparse(st)[:120]))
                if isinstance(st, ast.Call) and ast.unparse(st.func) == "self.register_buffer" and st.args:
                    persistent = True
                    for kw in st.keywords:
                        if kw.arg == "persistent" and isinstance(kw.value, ast.Constant):
                            persistent = bool(kw.value.value)
                    txt = ast.unparse(st.args[1]) if len(st.args) > 1 else ""
                    uses = {n.id for n in ast.walk(st) if isinstance(n, ast.Name)}
                    rnd = _is_random(st) or bool(uses & rnd_names)
                    name = st.args[0].value if isinstance(st.args[0], ast.Constant) else ast.unparse(st.args[0])
                    rows.append((rel, cls.name, name, 1 if persistent else 2, rnd, ast.unparse(st)[:120]))
            # classes that pass a random tensor to super().__init__ (RandomPermutation)
            for st in ast.walk(init[0]):
                if isinstance(st, ast.Call) and ast.unparse(st.func) == "super().__init__":
                    txt = ast.unparse(st)
                    if _is_random(st):
                        rows.append((rel, cls.name, "<super-arg>", 4, True, txt[:120]))
    return rows


def grad_rows(repo):
    """rows: (file, function, kind 0 detach / 1 no_grad / 2 .data / 3 .item(), text)"""
    rows = []
    for rel in py_files(repo):
        tree = ast.parse(open(os.path.join(repo, rel)).read())
        for node in ast.walk(tree):
            if not isinstance(node, ast.FunctionDef):
                continue
            for st in ast.walk(node):
                if isinstance(st, ast.Call) and isinstance(st.func, ast.Attribute) and st.func.attr == "detach":
                    rows.append((rel, node.name, 0, ast.unparse(st)[:100]))
                if isinstance(st, ast.Call) and isinstance(st.func, ast.Attribute) and st.func.attr == "item":
                    rows.append((rel, node.name, 3, ast.unparse(st)[:100]))
                if isinstance(st, ast.With) and any("no_grad" in ast.unparse(i.context_expr) for i in st.items):
                    rows.append((rel, node.name, 1, "with torch.no_grad()"))
                if isinstance(st, ast.Attribute) and st.attr == "data" and isinstance(st.ctx, (ast.Load, ast.Store)):
                    rows.append((rel, node.name, 2, ast.unparse(st)[:100]))
    return rows


def dtype_rows(repo):
    """rows: (file, function, kind 0 .float()/.type(torch.Tensor) 1 factory-without-dtype 2 torch.Tensor(...) ctor, text)
    restricted to forward-path functions (not __init__/_initialize)"""
    rows = []
    factories = ("torch.linspace", "torch.eye", "torch.zeros", "torch.ones", "torch.randn", "torch.rand", "torch.arange",
                 "torch.tensor", "torch.full")
    for rel in py_files(repo):
        tree = ast.parse(open(os.path.join(repo, rel)).read())
        for node in ast.walk(tree):
            if not isinstance(node, ast.FunctionDef) or node.name in ("__init__", "_initialize", "tile"):
                continue
            for st in ast.walk(node):
                if isinstance(st, ast.Call):
                    fn = ast.unparse(st.func)
                    if isinstance(st.func, ast.Attribute) and st.func.attr == "float" and not st.args:
                        rows.append((rel, node.name, 0, ast.unparse(st)[:100]))
                    elif isinstance(st.func, ast.Attribute) and st.func.attr == "type" and st.args \
                            and ast.unparse(st.args[0]) == "torch.Tensor":
                        rows.append((rel, node.name, 0, ast.unparse(st)[:100]))
                    elif fn in factories and not any(kw.arg in ("dtype", "device") for kw in st.keywords):
                        rows.append((rel, node.name, 1, ast.unparse(st)[:100]))
                    elif fn == "torch.Tensor":
                        rows.append((rel, node.name, 2, ast.unparse(st)[:100]))
    return rows


def coq_string(s):
    return '"' + s.replace('"', "'").replace("\n", " ") + '"'


def emit(repo):
    out = ["From Coq Require Import String List.", "Import ListNotations.", "Open Scope string_scope.", ""]
    rows = inplace_rows(repo)
    out.append("(* file, function, kind, root (0 fresh 1 argument 2 registered-state 3 other-attribute 4 call-result "
               "5 non-tensor 6 unknown), under `if self.training`, source *)")
    out.append("Definition inplace_table : list (string * string * string * nat * bool * string) := [")
    out.append(";\n".join("  (%s, %s, %s, %d, %s, %s)" % (coq_string(f), coq_string(q), coq_string(k), r,
                                                          "true" if t else "false", coq_string(txt[:110]))
                          for f, q, k, r, t, txt in rows))
    out.append("].\n")
    rows = attr_rows(repo)
    out.append("(* file, class, attribute, kind (0 parameter 1 persistent buffer 2 non-persistent buffer 3 plain attribute / "
               "sub-module 4 constructor argument 5 constructed object / sub-module), right-hand side depends on a random source, source *)")
    out.append("Definition attr_table : list (string * string * string * nat * bool * string) := [")
    out.append(";\n".join("  (%s, %s, %s, %d, %s, %s)" % (coq_string(f), coq_string(c), coq_string(a), k,
                                                          "true" if r else "false", coq_string(txt))
                          for f, c, a, k, r, txt in rows))
    out.append("].\n")
    rows = grad_rows(repo)
    out.append("(* file, function, kind (0 detach 1 no_grad 2 .data 3 .item()), source *)")
    out.append("Definition grad_table : list (string * string * nat * string) := [")
    out.append(";\n".join("  (%s, %s, %d, %s)" % (coq_string(f), coq_string(fn), k, coq_string(txt)) for f, fn, k, txt in rows))
    out.append("].\n")
    rows = dtype_rows(repo)
    out.append("(* file, function, kind (0 cast to float32 1 factory without dtype 2 torch.Tensor constructor), source *)")
    out.append("Definition dtype_table : list (string * string * nat * string) := [")
    out.append(";\n".join("  (%s, %s, %d, %s)" % (coq_string(f), coq_string(fn), k, coq_string(txt)) for f, fn, k, txt in rows))
    out.append("].\n")
    return "\n".join(out)
