From Coq Require Import ZArith List Bool.
From Coq Require Extraction ExtrOcamlBasic.
From NF Require Import Base.Ops Base.Result Base.PyVal.
From NF Require Model.LinearFamily.
Extraction Language OCaml.
Extraction "../driver/linear/model.ml"
  Base.Ops.mkOps Base.Result.rcode Base.PyVal.pyval
  Model.LinearFamily.lu_weight Model.LinearFamily.lu_logabsdet Model.LinearFamily.lu_forward Model.LinearFamily.lu_inverse
  Model.LinearFamily.lu_weight_inverse Model.LinearFamily.hh_apply Model.LinearFamily.hh_inverse Model.LinearFamily.hh_matrix
  Model.LinearFamily.qr_forward Model.LinearFamily.qr_inverse Model.LinearFamily.qr_weight Model.LinearFamily.qr_logabsdet
  Model.LinearFamily.svd_forward Model.LinearFamily.svd_inverse Model.LinearFamily.svd_logabsdet.
