From Coq Require Import ZArith List Bool.
From Coq Require Extraction ExtrOcamlBasic.
From NF Require Import Base.Ops Base.Result Base.PyVal.
From NF Require Model.Coupling.
Extraction Language OCaml.
Extraction "../driver/coupling/model.ml"
  Base.Ops.mkOps Base.Result.rcode Base.PyVal.pyval
  Model.Coupling.identity_idx Model.Coupling.transform_idx Model.Coupling.forward Model.Coupling.inverse
  Model.Coupling.gather Model.Coupling.params_2d Model.Coupling.params_4d
  Model.Coupling.affine_shift Model.Coupling.affine_scale.
