From Coq Require Import ZArith List Bool.
From Coq Require Extraction ExtrOcamlBasic.
From NF Require Import Base.Ops Base.Result Base.PyVal.
From NF Require Model.SplineRQ Model.SplineLinear Model.SplineQuadratic Model.SplineCubic.
Extraction Language OCaml.
Extraction "../driver/splines/model.ml"
  Base.Ops.mkOps Base.Result.rcode Base.PyVal.pyval
  Model.SplineRQ.rq_spline Model.SplineRQ.rq_unconstrained Model.SplineRQ.rq_default_cfg Model.SplineRQ.rq_build
  Model.SplineLinear.linear_spline Model.SplineLinear.linear_unconstrained
  Model.SplineQuadratic.quadratic_spline Model.SplineQuadratic.quadratic_unconstrained
  Model.SplineCubic.cubic_spline Model.SplineCubic.cubic_unconstrained
  Gen.SplineQuadratic.quad_DEFAULT_MIN_BIN_WIDTH Gen.SplineQuadratic.quad_DEFAULT_MIN_BIN_HEIGHT
  Gen.SplineCubic.cub_DEFAULT_MIN_BIN_WIDTH Gen.SplineCubic.cub_DEFAULT_MIN_BIN_HEIGHT
  Gen.SplineCubic.cub_DEFAULT_EPS Gen.SplineCubic.cub_DEFAULT_QUADRATIC_THRESHOLD.
