From Coq Require Import ZArith List Bool.
From Coq Require Extraction ExtrOcamlBasic.
From NF Require Import Base.Ops Base.Result Base.PyVal.
From NF Require Proofs.BatchP.
Extraction Language OCaml.
Extraction "../driver/batch/model.ml"
  Base.Ops.mkOps Base.Result.rcode Base.PyVal.pyval
  Proofs.BatchP.conv_batch Proofs.BatchP.conv_item Proofs.BatchP.masked_apply.
