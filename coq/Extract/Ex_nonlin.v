From Coq Require Import ZArith List Bool.
From Coq Require Extraction ExtrOcamlBasic.
From NF Require Import Base.Ops Base.Result Base.PyVal.
From NF Require Model.Nonlin.
Extraction Language OCaml.
Extraction "../driver/nonlin/model.ml"
  Base.Ops.mkOps Base.Result.rcode Base.PyVal.pyval
  Model.Nonlin.exp_t Model.Nonlin.tanh_t Model.Nonlin.cauchy_t Model.Nonlin.sigmoid_t Model.Nonlin.logtanh_t
  Model.Nonlin.logtanh_make Model.Nonlin.lrelu_t Model.Nonlin.glu_t.
