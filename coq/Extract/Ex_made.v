From Coq Require Import ZArith List Bool.
From Coq Require Extraction ExtrOcamlBasic.
From NF Require Import Base.Ops Base.Result Base.PyVal.
From NF Require Model.Made.
Extraction Language OCaml.
Extraction "../driver/made/model.ml"
  Base.Ops.mkOps Base.Result.rcode Base.PyVal.pyval
  Model.Made.genT Model.Made.genN Model.Made.input_degrees Model.Made.hidden_degrees_seq
  Model.Made.output_degrees Model.Made.hidden_mask Model.Made.output_mask
  Model.Made.res_degrees_ok Model.Made.random_degrees_ok.
