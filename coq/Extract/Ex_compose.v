From Coq Require Import ZArith List Bool.
From Coq Require Extraction ExtrOcamlBasic.
From NF Require Import Base.Ops Base.Result Base.PyVal.
From NF Require Model.Compose.
Extraction Language OCaml.
Extraction "../driver/compose/model.ml"
  Base.Ops.mkOps Base.Result.rcode Base.PyVal.pyval
  Model.Compose.comp Model.Compose.inverse_of Model.Compose.ms_forward Model.Compose.ms_inverse
  Model.Compose.add_transform Model.Compose.split_dim Model.Compose.cat_dim.
