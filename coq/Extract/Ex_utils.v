(* Extraction of the executable models to OCaml.  ExtrOcamlBasic only: no
   Extract Constant, nat and Z stay the extracted inductive datatypes. *)
From Coq Require Import ZArith List Bool.
From Coq Require Extraction ExtrOcamlBasic.
From NF Require Import Base.Ops Base.Result Base.PyVal.
From NF Require Gen.Typechecks Gen.Utils.
From NF Require Model.Utils.
Extraction Language OCaml.
Extraction "../driver/utils/model.ml"
  Base.Ops.mkOps Base.Result.rcode Base.PyVal.pyval
  Gen.Typechecks.tc_is_bool Gen.Typechecks.tc_is_int Gen.Typechecks.tc_is_positive_int
  Gen.Typechecks.tc_is_nonnegative_int Gen.Typechecks.tc_is_power_of_two
  Model.Utils.tile Model.Utils.repeat_rows Model.Utils.merge_leading_dims Model.Utils.split_leading_dim
  Model.Utils.sum_except_batch Model.Utils.searchsorted Model.Utils.searchsorted_locs
  Model.Utils.cbrt Model.Utils.get_temperature
  Model.Utils.alternating_mask Model.Utils.mid_split_mask Model.Utils.random_mask Model.Utils.midpoint.
