From Coq Require Import ZArith List Bool.
From Coq Require Extraction ExtrOcamlBasic.
From NF Require Import Base.Ops Base.Result Base.PyVal.
From NF Require Model.Cache.
Extraction Language OCaml.
Extraction "../driver/cache/model.ml"
  Base.Ops.mkOps Base.Result.rcode Base.PyVal.pyval
  Model.Cache.step Model.Cache.init_using Model.Cache.ref_obs Model.Cache.admissible.
