From Coq Require Import ZArith List Bool.
From Coq Require Extraction ExtrOcamlBasic.
From NF Require Import Base.Ops Base.Result Base.PyVal.
From NF Require Model.Norm.
Extraction Language OCaml.
Extraction "../driver/norm/model.ml"
  Base.Ops.mkOps Base.Result.rcode Base.PyVal.pyval
  Model.Norm.an_step Model.Norm.an_fresh Model.Norm.bn_step Model.Norm.vmean Model.Norm.vvar.
