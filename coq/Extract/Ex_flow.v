From Coq Require Import ZArith List Bool.
From Coq Require Extraction ExtrOcamlBasic.
From NF Require Import Base.Ops Base.Result Base.PyVal.
From NF Require Model.FlowSample.
Extraction Language OCaml.
Extraction "../driver/flow/model.ml"
  Base.Ops.mkOps Base.Result.rcode Base.PyVal.pyval Model.FlowSample.flow_sample.
