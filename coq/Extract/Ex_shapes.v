From Coq Require Import ZArith List Bool.
From Coq Require Extraction ExtrOcamlBasic.
From NF Require Import Base.Ops Base.Result Base.PyVal.
From NF Require Model.Shapes.
Extraction Language OCaml.
Extraction "../driver/shapes/model.ml"
  Base.Ops.mkOps Base.Result.rcode Base.PyVal.pyval
  Model.Shapes.sample_shape Model.Shapes.log_prob_shape Model.Shapes.sample_and_log_prob_shape
  Model.Shapes.flow_sample_shape.
