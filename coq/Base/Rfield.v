(* The real numbers as a mathcomp field (inverse with 0^-1 = 0), on top of Base/Rstruct.v: needed for invmx. *)
From Coq Require Import Reals.
From mathcomp Require Import all_ssreflect all_algebra.
From NF Require Import Base.Rstruct.
Set Implicit Arguments. Unset Strict Implicit. Unset Printing Implicit Defensive.
Import GRing.Theory.
Local Open Scope ring_scope.

Definition Rinvx (r : R) : R := if r != 0 then Rinv r else 0.
Definition unit_R (r : R) : bool := r != 0.

Lemma RmultRinvx : {in unit_R, left_inverse 1 Rinvx *%R}.
Proof.
  move=> r; rewrite -topredE /unit_R /Rinvx => /= rNZ /=. rewrite rNZ. apply: Rinv_l. by apply/eqP.
Qed.

Lemma RinvxRmult : {in unit_R, right_inverse 1 Rinvx *%R}.
Proof.
  move=> r; rewrite -topredE /unit_R /Rinvx => /= rNZ /=. rewrite rNZ. apply: Rinv_r. by apply/eqP.
Qed.

Lemma intro_unit_R x y : y * x = 1 /\ x * y = 1 -> unit_R x.
Proof.
  move=> [yx1 _]. apply/eqP => x0. move: yx1. rewrite x0 mulr0 => /esym/eqP. by rewrite oner_eq0.
Qed.

Lemma Rinvx_out : {in predC unit_R, Rinvx =1 id}.
Proof. move=> x; rewrite inE /= /Rinvx -/unit_R /unit_R negbK => /eqP ->. by rewrite eqxx. Qed.

Definition R_unitRingMixin := UnitRingMixin RmultRinvx RinvxRmult intro_unit_R Rinvx_out.
Canonical R_unitRingType := Eval hnf in UnitRingType R R_unitRingMixin.
Canonical R_comUnitRingType := Eval hnf in [comUnitRingType of R].

Lemma R_idomainMixin (x y : R) : x * y = 0 -> (x == 0) || (y == 0).
Proof. move=> /Rmult_integral [] ->; by rewrite eqxx ?orbT. Qed.
Canonical R_idomainType := Eval hnf in IdomainType R R_idomainMixin.

Lemma R_fieldMixin : GRing.Field.mixin_of [unitRingType of R].
Proof. by []. Qed.
Definition R_fieldIdomainMixin := FieldIdomainMixin R_fieldMixin.
Canonical R_fieldType := FieldType R R_fieldMixin.

Lemma unitrR (x : R) : (x \is a GRing.unit) = (x != 0).
Proof. by []. Qed.
