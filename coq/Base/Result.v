(* Outcome of a model function the real code may reject. *)
Inductive result (A : Type) : Type :=
| Ok (a : A)
| OutsideDomain      (* nflows.transforms.base.InputOutsideDomain *)
| InverseNotAvail    (* nflows.transforms.base.InverseNotAvailable *)
| ValueErr | TypeErr | RuntimeErr | IndexErr | AssertErr | AttributeErr.
Arguments Ok {A}. Arguments OutsideDomain {A}. Arguments InverseNotAvail {A}.
Arguments ValueErr {A}. Arguments TypeErr {A}. Arguments RuntimeErr {A}.
Arguments IndexErr {A}. Arguments AssertErr {A}. Arguments AttributeErr {A}.

Definition rbind {A B} (r : result A) (f : A -> result B) : result B :=
  match r with
  | Ok a => f a
  | OutsideDomain => OutsideDomain | InverseNotAvail => InverseNotAvail
  | ValueErr => ValueErr | TypeErr => TypeErr | RuntimeErr => RuntimeErr
  | IndexErr => IndexErr | AssertErr => AssertErr | AttributeErr => AttributeErr
  end.
Definition rmap {A B} (f : A -> B) (r : result A) : result B :=
  rbind r (fun a => Ok (f a)).
Definition is_ok {A} (r : result A) : bool :=
  match r with Ok _ => true | _ => false end.
(* numeric code for the wire protocol of the driver *)
Definition rcode {A} (r : result A) : nat :=
  match r with
  | Ok _ => 0 | OutsideDomain => 1 | InverseNotAvail => 2 | ValueErr => 3
  | TypeErr => 4 | RuntimeErr => 5 | IndexErr => 6 | AssertErr => 7
  | AttributeErr => 8
  end.
