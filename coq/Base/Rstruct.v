(* The real numbers as a mathcomp commutative ring, so that matrices over R have determinants.
   Uses ClassicalEpsilon (choice structure) and functional extensionality from the standard library. *)
From Coq Require Import Reals ClassicalEpsilon FunctionalExtensionality.
From mathcomp Require Import all_ssreflect all_algebra.
Set Implicit Arguments. Unset Strict Implicit. Unset Printing Implicit Defensive.
Local Open Scope R_scope.

Definition eqr (a b : R) : bool := if Req_EM_T a b then true else false.
Lemma eqrP : Equality.axiom eqr.
Proof. move=> a b; rewrite /eqr; case: (Req_EM_T a b) => H; [by left | by right]. Qed.
Canonical R_eqMixin := EqMixin eqrP.
Canonical R_eqType := Eval hnf in EqType R R_eqMixin.

Fact inhR : inhabited R. Proof. exact: (inhabits 0). Qed.
Definition pickR (P : pred R) (n : nat) :=
  let x := epsilon inhR P in if P x then Some x else None.
Fact pickR_some P n x : pickR P n = Some x -> P x.
Proof. by rewrite /pickR; case: (boolP (P _)) => // Px [<-]. Qed.
Fact pickR_ex (P : pred R) : (exists x : R, P x) -> exists n, pickR P n.
Proof. by rewrite /pickR; move=> /(epsilon_spec inhR)->; exists 0%N. Qed.
Fact pickR_ext (P Q : pred R) : P =1 Q -> pickR P =1 pickR Q.
Proof. move=> PEQ n; rewrite /pickR; set u := epsilon _ _; set v := epsilon _ _.
  suff->: u = v by rewrite PEQ. by congr epsilon; apply: functional_extensionality=> x; rewrite PEQ. Qed.
Definition R_choiceMixin : choiceMixin R := Choice.Mixin pickR_some pickR_ex pickR_ext.
Canonical R_choiceType := Eval hnf in ChoiceType R R_choiceMixin.

Fact RplusA : associative Rplus. Proof. by move=> *; rewrite Rplus_assoc. Qed.
Definition R_zmodMixin := ZmodMixin RplusA Rplus_comm Rplus_0_l Rplus_opp_l.
Canonical R_zmodType := Eval hnf in ZmodType R R_zmodMixin.
Fact RmultA : associative Rmult. Proof. by move=> *; rewrite Rmult_assoc. Qed.
Fact R1_neq_0 : R1 != R0. Proof. by apply/eqP/R1_neq_R0. Qed.
Definition R_ringMixin := RingMixin RmultA Rmult_1_l Rmult_1_r Rmult_plus_distr_r Rmult_plus_distr_l R1_neq_0.
Canonical R_ringType := Eval hnf in RingType R R_ringMixin.
Canonical R_comRingType := Eval hnf in ComRingType R Rmult_comm.

Import GRing.Theory.
