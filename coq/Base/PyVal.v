(* A small universe of Python argument values, for the argument-validation
   predicates (nflows/utils/typechecks.py) and the contract checks built on them. *)
From Coq Require Import ZArith Bool.
Local Open Scope Z_scope.

Inductive pyval := PInt (z : Z) | PBool (b : bool) | PFloat | PNone | PStr.

(* isinstance(x, bool) / isinstance(x, int): bool is a subclass of int *)
Definition isinstance_bool (x : pyval) : bool :=
  match x with PBool _ => true | _ => false end.
Definition isinstance_int (x : pyval) : bool :=
  match x with PInt _ | PBool _ => true | _ => false end.
(* integer value of an int-like; only used under an isinstance_int guard *)
Definition py_int (x : pyval) : Z :=
  match x with PInt z => z | PBool true => 1 | _ => 0 end.
Definition py_gt (x : pyval) (c : Z) : bool := Z.ltb c (py_int x).
Definition py_ge (x : pyval) (c : Z) : bool := Z.leb c (py_int x).
(* `not n & (n - 1)` for int-likes *)
Definition py_and_pred_is_zero (x : pyval) : bool :=
  Z.eqb (Z.land (py_int x) (py_int x - 1)) 0.
