(* Scalar-operation dictionary: every numeric model is written once,
   polymorphic in [ops T].  [Rops] (Base/Rops.v) is the instance theorems are
   about; the extracted OCaml driver supplies a float instance. *)
From Coq Require Import ZArith List Bool.
Import ListNotations.

Record ops (T : Type) := mkOps {
  o_zero : T; o_one : T; o_pi : T;
  o_add : T -> T -> T; o_sub : T -> T -> T;
  o_mul : T -> T -> T; o_div : T -> T -> T;
  o_neg : T -> T; o_abs : T -> T;
  o_exp : T -> T; o_ln : T -> T; o_sqrt : T -> T;
  o_tanh : T -> T; o_atan : T -> T; o_tan : T -> T;
  o_cos : T -> T; o_sin : T -> T; o_atan2 : T -> T -> T;
  o_leb : T -> T -> bool; o_ltb : T -> T -> bool;
  o_floor : T -> Z;
  o_ofZ : Z -> T
}.

Arguments o_zero {T}. Arguments o_one {T}. Arguments o_pi {T}.
Arguments o_add {T}. Arguments o_sub {T}. Arguments o_mul {T}.
Arguments o_div {T}. Arguments o_neg {T}. Arguments o_abs {T}.
Arguments o_exp {T}. Arguments o_ln {T}. Arguments o_sqrt {T}.
Arguments o_tanh {T}. Arguments o_atan {T}. Arguments o_tan {T}.
Arguments o_cos {T}. Arguments o_sin {T}. Arguments o_atan2 {T}.
Arguments o_leb {T}. Arguments o_ltb {T}. Arguments o_floor {T}.
Arguments o_ofZ {T}.

Section Derived.
  Context {T : Type} (O : ops T).

  (* decimal literal n/d, e.g. 1e-3 = lit 1 1000 *)
  Definition o_lit (n d : Z) : T := o_div O (o_ofZ O n) (o_ofZ O d).
  Definition o_sq (x : T) : T := o_mul O x x.
  Definition o_cube (x : T) : T := o_mul O (o_mul O x x) x.
  Definition o_two : T := o_ofZ O 2.
  Definition o_sigmoid (x : T) : T :=
    o_div O (o_one O) (o_add O (o_one O) (o_exp O (o_neg O x))).
  (* F.softplus(x, beta=1) without torch's large-argument shortcut *)
  Definition o_softplus (x : T) : T := o_ln O (o_add O (o_one O) (o_exp O x)).
  Definition o_softplus_beta (beta x : T) : T :=
    o_div O (o_ln O (o_add O (o_one O) (o_exp O (o_mul O beta x)))) beta.
  Definition o_log1p (x : T) : T := o_ln O (o_add O (o_one O) x).
  Definition o_geb (x y : T) : bool := o_leb O y x.
  Definition o_gtb (x y : T) : bool := o_ltb O y x.
  Definition o_min (x y : T) : T := if o_leb O x y then x else y.
  Definition o_max (x y : T) : T := if o_leb O x y then y else x.
  Definition o_clamp (x lo hi : T) : T := o_min (o_max x lo) hi.
  (* torch.sign *)
  Definition o_sign (x : T) : T :=
    if o_ltb O (o_zero O) x then o_one O
    else if o_ltb O x (o_zero O) then o_neg O (o_one O) else o_zero O.
End Derived.
