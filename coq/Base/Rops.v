(* The instance of [ops] over Coq's real numbers: all real-arithmetic theorems
   are about models instantiated with [Rops]. *)
From Coq Require Import Reals ZArith Lra.
From NF Require Import Base.Ops.
Open Scope R_scope.

Definition Rleb (x y : R) : bool := if Rle_dec x y then true else false.
Definition Rltb (x y : R) : bool := if Rlt_dec x y then true else false.

(* torch.atan2 y x, the angle of the point (x, y), in (-PI, PI] *)
Definition Ratan2 (y x : R) : R :=
  if Rlt_dec 0 x then atan (y / x)
  else if Rlt_dec x 0 then (if Rle_dec 0 y then atan (y / x) + PI else atan (y / x) - PI)
  else if Rlt_dec 0 y then PI / 2 else if Rlt_dec y 0 then - PI / 2 else 0.

Definition Rops : ops R := {|
  o_zero := 0; o_one := 1; o_pi := PI;
  o_add := Rplus; o_sub := Rminus; o_mul := Rmult; o_div := Rdiv;
  o_neg := Ropp; o_abs := Rabs;
  o_exp := exp; o_ln := ln; o_sqrt := sqrt;
  o_tanh := tanh; o_atan := atan; o_tan := tan; o_cos := cos; o_sin := sin; o_atan2 := Ratan2;
  o_leb := Rleb; o_ltb := Rltb;
  o_floor := fun x => (up x - 1)%Z;
  o_ofZ := IZR
|}.

Lemma Rleb_true x y : Rleb x y = true <-> x <= y.
Proof. unfold Rleb; destruct (Rle_dec x y); split; intros; try easy. Qed.
Lemma Rleb_false x y : Rleb x y = false <-> y < x.
Proof. unfold Rleb; destruct (Rle_dec x y); split; intros; try easy; lra. Qed.
Lemma Rltb_true x y : Rltb x y = true <-> x < y.
Proof. unfold Rltb; destruct (Rlt_dec x y); split; intros; try easy. Qed.
Lemma Rltb_false x y : Rltb x y = false <-> y <= x.
Proof. unfold Rltb; destruct (Rlt_dec x y); split; intros; try easy; lra. Qed.
