#!/bin/sh
# (re)generate _CoqProject and Makefile.coq from the .v files present
cd "$(dirname "$0")"
{ echo "-Q . NF"; echo "-arg -w -arg -notation-overridden,-ambiguous-paths,-redundant-canonical-projection,-deprecated-hint-without-locality,-deprecated-instance-without-locality,-undeclared-scope,-extraction-reserved-identifier";
  find Base Model Gen Proofs Properties Extract -name '*.v' | sort; } > _CoqProject.new
if ! cmp -s _CoqProject.new _CoqProject; then mv _CoqProject.new _CoqProject; coq_makefile -f _CoqProject -o Makefile.coq >/dev/null; else rm _CoqProject.new; fi
[ -f Makefile.coq ] || coq_makefile -f _CoqProject -o Makefile.coq >/dev/null
