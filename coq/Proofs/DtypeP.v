From Coq Require Import Bool List.
From NF Require Import Model.Dtype.

Lemma fmax_idem d : fmax d d = d.
Proof. destruct d; reflexivity. Qed.

(* expressions built from constants and scalars only never become dimensioned tensors *)
Lemma no_input_not_tensor d e : mentions_input e = false -> forall x, eval d e <> Tensor x.
Proof.
  induction e as [| | | |a IHa b IHb]; cbn; intros H x; try discriminate.
  apply orb_false_iff in H. destruct H as [Ha Hb]. specialize (IHa Ha). specialize (IHb Hb).
  destruct (eval d a) as [xa|xa|]; [exfalso; exact (IHa xa eq_refl)| |];
    (destruct (eval d b) as [xb|xb|]; [exfalso; exact (IHb xb eq_refl)| |]); cbn; discriminate.
Qed.

(* every expression that involves the input (or a parameter of the model) has the dtype of the input, whatever
   float64 zero-dim constants and Python scalars are mixed in *)
Theorem dtype_follows_input d e : mentions_input e = true -> eval d e = Tensor d.
Proof.
  induction e as [| | | |a IHa b IHb]; cbn; intros H; try reflexivity; try discriminate.
  destruct (mentions_input a) eqn:Ea; destruct (mentions_input b) eqn:Eb; cbn in H; try discriminate.
  - rewrite (IHa eq_refl), (IHb eq_refl). cbn. rewrite fmax_idem. reflexivity.
  - rewrite (IHa eq_refl). pose proof (no_input_not_tensor d b Eb) as N.
    destruct (eval d b) as [xb|xb|]; [exfalso; exact (N xb eq_refl)| |]; reflexivity.
  - rewrite (IHb eq_refl). pose proof (no_input_not_tensor d a Ea) as N.
    destruct (eval d a) as [xa|xa|]; [exfalso; exact (N xa eq_refl)| |]; reflexivity.
Qed.

(* a cast of an input-derived value to float32 (x.float(), .type(torch.Tensor)) breaks that for float64 inputs *)
Example cast_breaks_dtype : result_operand (Tensor F32) (ZeroDim F64) = Tensor F32 /\ Tensor F32 <> Tensor F64.
Proof. split; [reflexivity | discriminate]. Qed.
