(* MADE is autoregressive for every architecture, degree assignment and weight. *)
From Coq Require Import List Bool Arith Lia.
From NF Require Import Gen.MadeT Gen.MadeN Model.Utils Model.Made Proofs.UtilsP.
Import ListNotations.

Section Sem.
  Variable T : Type.
  Variables (tadd tmul : T -> T -> T) (tzero tone : T).
  Variable hcmp ocmp : nat -> nat -> bool.
  (* what the carrier must satisfy: multiplying by a zero mask entry removes the term *)
  Hypothesis mul_zero_r : forall a, tmul a tzero = tzero.
  Hypothesis mul_zero_l : forall a, tmul tzero a = tzero.
  (* what the generated comparisons must satisfy *)
  Hypothesis hcmp_le : forall a b, hcmp a b = true -> b <= a.
  Hypothesis ocmp_lt : forall a b, ocmp a b = true -> b < a.

  Notation vec := (vec T).
  Notation eval_masked := (eval_masked T tadd tmul tzero tone).
  Notation layer_fn := (layer_fn T tadd tmul tzero tone hcmp).
  Notation eval_layers := (eval_layers T tadd tmul tzero tone hcmp).

  Variable indeg : nat -> nat.

  (* unit u of h(x) is determined by the inputs of degree <= deg u *)
  Definition Inv (deg : nat -> nat) (h : vec -> vec) : Prop :=
    forall x x' u, (forall j, indeg j <= deg u -> x j = x' j) -> h x u = h x' u.
  (* ... of degree < deg u *)
  Definition InvLt (deg : nat -> nat) (h : vec -> vec) : Prop :=
    forall x x' u, (forall j, indeg j < deg u -> x j = x' j) -> h x u = h x' u.

  Lemma dot_ext n f g : (forall v, v < n -> f v = g v) -> dot T tadd tzero n f = dot T tadd tzero n g.
  Proof.
    induction n as [|n IH]; intros H; simpl; [reflexivity|].
    rewrite IH by (intros; apply H; lia). rewrite (H n) by lia. reflexivity.
  Qed.

  Lemma masked_inv m deg (h : vec -> vec) :
    Inv deg h -> Inv (m_deg T m) (fun x => eval_masked hcmp m deg (h x)).
  Proof.
    intros I x x' u Hx. unfold Made.eval_masked. f_equal. apply dot_ext. intros v _.
    destruct (hcmp (m_deg T m u) (deg v)) eqn:E.
    - f_equal. apply I. intros j Hj. apply Hx. apply hcmp_le in E. lia.
    - unfold ofb. rewrite mul_zero_r, !mul_zero_l. reflexivity.
  Qed.

  Lemma masked_inv_strict m deg (h : vec -> vec) :
    Inv deg h -> InvLt (m_deg T m) (fun x => eval_masked ocmp m deg (h x)).
  Proof.
    intros I x x' u Hx. unfold Made.eval_masked. f_equal. apply dot_ext. intros v _.
    destruct (ocmp (m_deg T m u) (deg v)) eqn:E.
    - f_equal. apply I. intros j Hj. apply Hx. apply ocmp_lt in E. lia.
    - unfold ofb. rewrite mul_zero_r, !mul_zero_l. reflexivity.
  Qed.

  Lemma inv_weaken deg deg' h : (forall u, deg u <= deg' u) -> Inv deg h -> Inv deg' h.
  Proof. intros Hd I x x' u Hx. apply I. intros j Hj. apply Hx. specialize (Hd u). lia. Qed.

  Lemma pointwise_inv f deg h : Inv deg h -> Inv deg (fun x => pointwise T f (h x)).
  Proof. intros I x x' u Hx. unfold pointwise. f_equal. apply I; exact Hx. Qed.

  Lemma addconst_inv c deg h : Inv deg h -> Inv deg (fun x u => tadd (h x u) (c u)).
  Proof. intros I x x' u Hx. f_equal. apply I; exact Hx. Qed.

  Lemma layer_inv l deg h :
    match l with LRes _ _ _ _ _ m1 => forall u, deg u <= m_deg T m1 u | _ => True end ->
    Inv deg h -> Inv (layer_deg T l deg) (fun x => layer_fn l deg (h x)).
  Proof.
    intros Hok I. destruct l as [m|f|c|pre m0 c mid m1]; cbn [layer_deg Made.layer_fn].
    - apply masked_inv; exact I.
    - apply pointwise_inv; exact I.
    - apply addconst_inv; exact I.
    - intros x x' u Hx. f_equal.
      + apply (inv_weaken deg (m_deg T m1) h Hok I); exact Hx.
      + pose proof (pointwise_inv pre deg h I) as I1.
        pose proof (masked_inv m0 deg _ I1) as I2.
        pose proof (addconst_inv c _ _ I2) as I3.
        pose proof (pointwise_inv mid _ _ I3) as I4.
        pose proof (masked_inv m1 _ _ I4) as I5.
        apply I5; exact Hx.
  Qed.

  Lemma layers_inv ls : forall deg h,
    layers_ok T deg ls -> Inv deg h ->
    Inv (degs_after T ls deg) (fun x => eval_layers ls deg (h x)).
  Proof.
    induction ls as [|l r IH]; intros deg h Hok I; cbn [degs_after Made.eval_layers]; [exact I|].
    destruct Hok as [Hl Hr]. apply (IH (layer_deg T l deg) (fun x => layer_fn l deg (h x)) Hr).
    apply layer_inv; assumption.
  Qed.

  (* inputs are trivially determined by themselves *)
  Lemma input_inv : (forall i j, indeg i <= indeg j -> indeg j <= indeg i -> i = j) -> Inv indeg (fun x => x).
  Proof. intros Hinj x x' u Hx. apply Hx. lia. Qed.

  Theorem made_dependency (net : made T) :
    in_deg T net = indeg ->
    layers_ok T indeg (body T net) ->
    forall x x' o,
      (forall j, indeg j < m_deg T (final T net) o -> x j = x' j) ->
      eval_made T tadd tmul tzero tone hcmp ocmp net x o = eval_made T tadd tmul tzero tone hcmp ocmp net x' o.
  Proof.
    intros Hin Hok x x' o Hx. unfold eval_made. rewrite Hin.
    assert (I0 : Inv indeg (fun x => x)) by (intros y y' u Hy; apply Hy; lia).
    pose proof (layers_inv (body T net) indeg (fun x => x) Hok I0) as I.
    exact (masked_inv_strict (final T net) _ _ I x x' o Hx).
  Qed.
End Sem.

(* ---------- instantiation with the comparisons and degrees generated from the two copies ---------- *)
Lemma hcmpT_le a b : madeT_hidden_cmp a b = true -> b <= a.
Proof. unfold madeT_hidden_cmp. apply Nat.leb_le. Qed.
Lemma ocmpT_lt a b : madeT_output_cmp a b = true -> b < a.
Proof. unfold madeT_output_cmp. apply Nat.ltb_lt. Qed.
Lemma hcmpN_le a b : madeN_hidden_cmp a b = true -> b <= a.
Proof. unfold madeN_hidden_cmp. apply Nat.leb_le. Qed.
Lemma ocmpN_lt a b : madeN_output_cmp a b = true -> b < a.
Proof. unfold madeN_output_cmp. apply Nat.ltb_lt. Qed.

Definition gen_ok (G : made_gen) : Prop :=
  (forall a b, g_hidden_cmp G a b = true -> b <= a) /\
  (forall a b, g_output_cmp G a b = true -> b < a) /\
  (forall F i j, g_input_degree G F i < g_input_degree G F j -> i < j) /\
  (forall F, g_input_count G F = F) /\
  (forall F m, 1 <= F -> g_output_reps G (F * m) F = m).

Lemma genT_ok : gen_ok genT.
Proof.
  repeat split; cbn [genT g_hidden_cmp g_output_cmp g_input_degree g_input_count g_output_reps].
  - apply hcmpT_le.
  - apply ocmpT_lt.
  - unfold madeT_input_degree. intros; lia.
  - unfold madeT_input_count. intros; lia.
  - unfold madeT_output_reps. intros F m HF. rewrite Nat.mul_comm. apply Nat.div_mul. lia.
Qed.
Lemma genN_ok : gen_ok genN.
Proof.
  repeat split; cbn [genN g_hidden_cmp g_output_cmp g_input_degree g_input_count g_output_reps].
  - apply hcmpN_le.
  - apply ocmpN_lt.
  - unfold madeN_input_degree. intros; lia.
  - unfold madeN_input_count. intros; lia.
  - unfold madeN_output_reps. intros F m HF. rewrite Nat.mul_comm. apply Nat.div_mul. lia.
Qed.

(* layout of the output layer: unit o belongs to feature o / m (tile = consecutive copies) *)
Lemma output_degrees_nth (G : made_gen) F m o :
  gen_ok G -> 1 <= F -> 1 <= m -> o < F * m ->
  nth o (output_degrees G F (F * m)) 0 = g_input_degree G F (o / m).
Proof.
  intros [_ [_ [_ [Hc Hr]]]] HF Hm Ho. unfold output_degrees, input_degrees. rewrite Hc, Hr by exact HF.
  rewrite (Nat.div_mod o m) at 1 by lia. rewrite (Nat.mul_comm m (o / m)).
  rewrite tile_index by (apply Nat.mod_upper_bound; lia).
  assert (Hq : o / m < F) by (apply Nat.div_lt_upper_bound; lia).
  rewrite nth_map_seq by exact Hq. reflexivity.
Qed.

Section Concrete.
  Variable T : Type.
  Variables (tadd tmul : T -> T -> T) (tzero tone : T).
  Hypothesis mul_zero_r : forall a, tmul a tzero = tzero.
  Hypothesis mul_zero_l : forall a, tmul tzero a = tzero.
  Variable G : made_gen.
  Hypothesis HG : gen_ok G.

  (* The autoregressive property, for every network the constructor can build:
     F features, output multiplier m, any hidden widths/blocks/degrees/weights. *)
  Theorem made_autoregressive (net : made T) (F m : nat) :
    1 <= F -> 1 <= m ->
    in_deg T net = g_input_degree G F ->
    (forall o, o < F * m -> m_deg T (final T net) o = nth o (output_degrees G F (F * m)) 0) ->
    layers_ok T (g_input_degree G F) (body T net) ->
    forall (x x' : vec T) (o : nat), o < F * m ->
      (forall j, j < o / m -> x j = x' j) ->
      eval_made T tadd tmul tzero tone (g_hidden_cmp G) (g_output_cmp G) net x o
      = eval_made T tadd tmul tzero tone (g_hidden_cmp G) (g_output_cmp G) net x' o.
  Proof.
    intros HF Hm Hin Hout Hok x x' o Ho Hx.
    destruct HG as [Hh [Hoc [Hmono _]]].
    apply (made_dependency T tadd tmul tzero tone (g_hidden_cmp G) (g_output_cmp G)
                           mul_zero_r mul_zero_l Hh Hoc (g_input_degree G F) net Hin Hok).
    intros j Hj. apply Hx. rewrite (Hout o Ho), (output_degrees_nth G F m o HG HF Hm Ho) in Hj.
    apply (Hmono F); exact Hj.
  Qed.

  (* block form: outputs i*m .. i*m+m-1 do not depend on inputs i, i+1, ... *)
  Corollary made_block_independent (net : made T) (F m : nat) :
    1 <= F -> 1 <= m ->
    in_deg T net = g_input_degree G F ->
    (forall o, o < F * m -> m_deg T (final T net) o = nth o (output_degrees G F (F * m)) 0) ->
    layers_ok T (g_input_degree G F) (body T net) ->
    forall (x x' : vec T) (i k : nat), i < F -> k < m ->
      (forall j, j < i -> x j = x' j) ->
      eval_made T tadd tmul tzero tone (g_hidden_cmp G) (g_output_cmp G) net x (i * m + k)
      = eval_made T tadd tmul tzero tone (g_hidden_cmp G) (g_output_cmp G) net x' (i * m + k).
  Proof.
    intros HF Hm Hin Hout Hok x x' i k Hi Hk Hx.
    apply (made_autoregressive net F m HF Hm Hin Hout Hok).
    - nia.
    - intros j Hj. apply Hx. rewrite Nat.div_add_l in Hj by lia. rewrite Nat.div_small in Hj by exact Hk. lia.
  Qed.
End Concrete.

(* with sequential degrees every hidden layer has the same degrees, so the
   residual block's constructor check always passes *)
Lemma res_degrees_ok_refl l : res_degrees_ok l l = true.
Proof.
  unfold res_degrees_ok. induction l as [|a l IH]; [reflexivity|]. cbn [combine forallb fst snd].
  rewrite Nat.leb_refl. exact IH.
Qed.
