(* LogTanh (generated formulas and constants): continuous at the cut point, each piece inverted by the matching inverse piece,
   log-abs-dets are logarithms of the positive slopes.  Real arithmetic. *)
From Coq Require Import Reals Lra.
From Coquelicot Require Import Coquelicot.
From NF Require Import Base.Ops Base.Rops Gen.Nonlin.
Open Scope R_scope.

Section LT.
  Variable c : R.
  Hypothesis Hc : 0 < c.
  Let alpha := logtanh_const_alpha Rops c 0.
  Let beta := logtanh_const_beta Rops c alpha.
  Let icp := logtanh_const_inv_cut_point Rops c alpha.

  Lemma tanh_lt_1 x : tanh x < 1.
  Proof.
    unfold tanh, sinh, cosh. pose proof (exp_pos x). pose proof (exp_pos (- x)).
    apply (Rmult_lt_reg_r ((exp x + exp (- x)) / 2)); [lra|]. unfold Rdiv at 1. rewrite Rmult_assoc, Rinv_l by lra. lra.
  Qed.

  Lemma tanh_opp x : tanh (- x) = - tanh x.
  Proof. unfold tanh, sinh, cosh. rewrite Ropp_involutive. pose proof (exp_pos x). pose proof (exp_pos (- x)). field. lra. Qed.

  Lemma alpha_pos : 0 < alpha.
  Proof.
    unfold alpha, logtanh_const_alpha. cbn [Rops o_div o_sub o_ofZ o_tanh]. apply Rdiv_lt_0_compat; [|exact Hc].
    pose proof (tanh_lt_1 (tanh c)). lra.
  Qed.

  Lemma beta_pos : 0 < beta.
  Proof. unfold beta, logtanh_const_beta. cbn [Rops o_exp]. apply exp_pos. Qed.

  Lemma ln_beta : ln beta = (tanh c - alpha * ln c) / alpha.
  Proof. unfold beta, logtanh_const_beta. cbn [Rops o_exp o_div o_sub o_tanh o_mul o_ln]. apply ln_exp. Qed.

  (* the logarithmic tail meets the tanh piece at the cut point (value), on both sides *)
  Theorem logtanh_continuous_at_cut :
    logtanh_fwd_outputs_at_mask_right Rops c 0 alpha beta c icp = logtanh_fwd_outputs_at_mask_middle Rops c 0 alpha beta c icp /\
    logtanh_fwd_outputs_at_mask_left Rops (- c) 0 alpha beta c icp = logtanh_fwd_outputs_at_mask_middle Rops (- c) 0 alpha beta c icp.
  Proof.
    pose proof alpha_pos as A. pose proof beta_pos as B.
    unfold logtanh_fwd_outputs_at_mask_right, logtanh_fwd_outputs_at_mask_left, logtanh_fwd_outputs_at_mask_middle.
    cbn [Rops o_mul o_ln o_neg o_tanh]. split.
    - rewrite ln_mult by lra. rewrite ln_beta. field. lra.
    - replace (- beta * - c) with (beta * c) by lra. rewrite ln_mult by lra. rewrite ln_beta. rewrite tanh_opp. field. lra.
  Qed.

  (* the tails: positive slope alpha / |x|, log-abs-det is its logarithm, and the inverse tail undoes the forward tail *)
  Theorem logtanh_right_tail x : c < x ->
    is_derive (fun t => logtanh_fwd_outputs_at_mask_right Rops t 0 alpha beta c icp) x (alpha / x) /\ 0 < alpha / x /\
    logtanh_fwd_logabsdet_at_mask_right Rops x 0 alpha beta c icp = ln (alpha / x) /\
    logtanh_inv_outputs_at_mask_right Rops (logtanh_fwd_outputs_at_mask_right Rops x 0 alpha beta c icp) 0 alpha beta c icp = x.
  Proof.
    intros Hx. pose proof alpha_pos as A. pose proof beta_pos as B. assert (0 < x) by lra.
    unfold logtanh_fwd_outputs_at_mask_right, logtanh_fwd_logabsdet_at_mask_right, logtanh_inv_outputs_at_mask_right.
    cbn [Rops o_mul o_ln o_div o_exp]. split; [|split; [|split]].
    - auto_derive; [nra|]. field. split; lra.
    - apply Rdiv_lt_0_compat; lra.
    - reflexivity.
    - replace (alpha * ln (beta * x) / alpha) with (ln (beta * x)) by (field; lra). rewrite exp_ln by nra. field. lra.
  Qed.

  Theorem logtanh_left_tail x : x < - c ->
    is_derive (fun t => logtanh_fwd_outputs_at_mask_left Rops t 0 alpha beta c icp) x (- alpha / x) /\ 0 < - alpha / x /\
    logtanh_fwd_logabsdet_at_mask_left Rops x 0 alpha beta c icp = ln (- alpha / x) /\
    logtanh_inv_outputs_at_mask_left Rops (logtanh_fwd_outputs_at_mask_left Rops x 0 alpha beta c icp) 0 alpha beta c icp = x.
  Proof.
    intros Hx. pose proof alpha_pos as A. pose proof beta_pos as B. assert (x < 0) by lra.
    unfold logtanh_fwd_outputs_at_mask_left, logtanh_fwd_logabsdet_at_mask_left, logtanh_inv_outputs_at_mask_left.
    cbn [Rops o_mul o_ln o_div o_exp o_neg]. split; [|split; [|split]].
    - auto_derive; [nra|]. field. split; lra.
    - replace (- alpha / x) with (alpha / - x) by (field; lra). apply Rdiv_lt_0_compat; lra.
    - reflexivity.
    - replace (- (alpha * - ln (- beta * x)) / alpha) with (ln (- beta * x)) by (field; lra). rewrite exp_ln by nra. field. lra.
  Qed.
End LT.
