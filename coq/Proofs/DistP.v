(* Base distributions (formulas generated from distributions/normal.py, discrete.py) over the reals. *)
From Coq Require Import Reals Lra List.
From Coquelicot Require Import Coquelicot.
From NF Require Import Base.Ops Base.Rops Gen.Dist Proofs.NonlinP.
Import ListNotations.
Open Scope R_scope.

(* ================= independent Bernoulli ================= *)
Definition bern_term (x l : R) : R := bern_log_prob_term Rops x l.
Fixpoint bern_lp (xs ls : list R) : R :=
  match xs, ls with x :: xs', l :: ls' => bern_term x l + bern_lp xs' ls' | _, _ => 0 end.
(* all binary vectors of length n *)
Fixpoint bits (n : nat) : list (list R) :=
  match n with O => [[]] | S m => map (cons 0) (bits m) ++ map (cons 1) (bits m) end.
Definition rsum (l : list R) : R := fold_right Rplus 0 l.

Lemma bern_term_0 l : exp (bern_term 0 l) = 1 - sig l.
Proof.
  unfold bern_term, bern_log_prob_term. cbn [Rops o_sub o_mul o_neg o_ofZ].
  change (IZR 1) with 1. replace (- 0 * o_softplus Rops (- l) - (1 - 0) * o_softplus Rops l) with (- o_softplus Rops l) by ring.
  rewrite softplus_is_ln_one_minus_sig. apply exp_ln. pose proof (sig_pos l). lra.
Qed.
Lemma bern_term_1 l : exp (bern_term 1 l) = sig l.
Proof.
  unfold bern_term, bern_log_prob_term. cbn [Rops o_sub o_mul o_neg o_ofZ].
  change (IZR 1) with 1. replace (- (1) * o_softplus Rops (- l) - (1 - 1) * o_softplus Rops l) with (- o_softplus Rops (- l)) by ring.
  rewrite softplus_neg_is_ln_sig. apply exp_ln. pose proof (sig_pos l). lra.
Qed.

Lemma rsum_app a b : rsum (a ++ b) = rsum a + rsum b.
Proof. unfold rsum. induction a as [|x a IH]; simpl; [lra | rewrite IH; lra]. Qed.
Lemma rsum_map_scale (c : R) (f : list R -> R) l : rsum (map (fun v => c * f v) l) = c * rsum (map f l).
Proof. unfold rsum. induction l as [|x l IH]; simpl; [lra | rewrite IH; lra]. Qed.

(* total probability one, by exact summation over {0,1}^D, for every D and every logit vector *)
Theorem bernoulli_normalised (ls : list R) : rsum (map (fun xs => exp (bern_lp xs ls)) (bits (length ls))) = 1.
Proof.
  induction ls as [|l ls IH]; [cbn; rewrite exp_0; lra|].
  cbn [length bits]. rewrite map_app, rsum_app, !map_map.
  cbn [bern_lp].
  rewrite (map_ext _ (fun xs => exp (bern_term 0 l) * exp (bern_lp xs ls))) by (intros; apply exp_plus).
  rewrite (map_ext (fun xs => exp (bern_term 1 l + bern_lp xs ls)) (fun xs => exp (bern_term 1 l) * exp (bern_lp xs ls)))
    by (intros; apply exp_plus).
  rewrite !rsum_map_scale, IH, bern_term_0, bern_term_1. lra.
Qed.

(* mean() = sigmoid(logits): the expectation of one coordinate *)
Theorem bernoulli_mean (l : R) : 0 * exp (bern_term 0 l) + 1 * exp (bern_term 1 l) = sig l.
Proof. rewrite bern_term_1. lra. Qed.

(* ================= normals ================= *)
(* per-coordinate standard normal log-density: the generated energy term and the generated normaliser for one coordinate *)
Definition sn_lp1 (x : R) : R := sn_neg_energy_term Rops x - sn_log_z Rops 1.
Lemma sn_lp1_closed x : exp (sn_lp1 x) = / sqrt (2 * PI) * exp (- (x * x) / 2).
Proof.
  unfold sn_lp1, sn_neg_energy_term, sn_log_z, o_lit, o_sq. cbn [Rops o_mul o_neg o_div o_ofZ o_ln o_pi].
  change (IZR 1) with 1. change (IZR 2) with 2.
  assert (Hp : 0 < 2 * PI) by (pose proof PI_RGT_0; lra).
  unfold Rminus. rewrite exp_plus. rewrite Rmult_comm. f_equal.
  - replace (- (1 / 2 * 1 * ln (2 * PI))) with (- (ln (sqrt (2 * PI)))).
    + rewrite exp_Ropp, exp_ln by (apply sqrt_lt_R0; exact Hp). reflexivity.
    + rewrite <- (sqrt_sqrt (2 * PI)) at 2 by lra. rewrite ln_mult by (apply sqrt_lt_R0; exact Hp). lra.
  - f_equal. field.
Qed.

(* the D-dimensional log-density is the sum of the coordinates' (the log-normaliser 0.5 * D * ln(2 pi) splits evenly) *)
Lemma sn_log_z_additive (n : nat) : sn_log_z Rops (INR (S n)) = sn_log_z Rops 1 + sn_log_z Rops (INR n).
Proof. unfold sn_log_z, o_lit. cbn [Rops o_mul o_div o_ofZ o_ln o_pi]. rewrite S_INR. ring. Qed.
Theorem standard_normal_factorises (xs : list R) :
  rsum (map (sn_neg_energy_term Rops) xs) - sn_log_z Rops (INR (length xs)) = rsum (map sn_lp1 xs).
Proof.
  induction xs as [|x xs IH].
  - cbn. unfold sn_log_z, o_lit. cbn [Rops o_mul o_div o_ofZ o_ln o_pi]. ring.
  - cbn [map rsum fold_right length]. fold (rsum (map (sn_neg_energy_term Rops) xs)). fold (rsum (map sn_lp1 xs)).
    rewrite sn_log_z_additive, <- IH. unfold sn_lp1. ring.
Qed.

(* diagonal normal: the per-coordinate log-density is the standard one at the standardised value minus log sigma,
   which is exactly the Jacobian of the standardisation (so normalisation reduces to the standard normal's) *)
Theorem diagonal_normal_reduces_to_standard (x mu ls : R) :
  cdn_energy_term Rops (cdn_norm_input Rops x mu ls) - ls - sn_log_z Rops 1
  = sn_lp1 ((x - mu) * exp (- ls)) - ls /\
  dn_energy_term Rops (dn_norm_input Rops x mu ls) = cdn_energy_term Rops (cdn_norm_input Rops x mu ls) /\
  is_derive (fun v => (v - mu) * exp (- ls)) x (exp (- ls)) /\ ln (exp (- ls)) = - ls.
Proof.
  split; [|split; [reflexivity | split; [|apply ln_exp]]].
  - unfold sn_lp1, cdn_energy_term, cdn_norm_input, sn_neg_energy_term. cbn [Rops o_mul o_sub o_neg o_exp]. ring.
  - auto_derive; [exact I | ring].
Qed.

(* sampling: x = mean + std * z has the law obtained by pushing z forward: the CDF identity *)
Theorem affine_pushforward (mu sigma z a : R) : 0 < sigma ->
  (cdn_sample Rops mu sigma z <= a <-> z <= (a - mu) / sigma).
Proof.
  intros Hs. unfold cdn_sample. cbn [Rops o_add o_mul]. split; intros H.
  - apply (Rmult_le_reg_r sigma); [exact Hs|]. unfold Rdiv. rewrite Rmult_assoc, Rinv_l by lra. lra.
  - apply (Rmult_le_compat_r sigma) in H; [|lra]. unfold Rdiv in H. rewrite Rmult_assoc, Rinv_l in H by lra. lra.
Qed.
