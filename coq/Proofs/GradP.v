(* Differentiability with respect to parameters for representative kernels (C16). *)
From Coq Require Import Reals Lra.
From Coquelicot Require Import Coquelicot.
From NF Require Import Base.Ops Base.Rops Gen.Nonlin Gen.Norm Gen.SplineRQ Proofs.NonlinP.
Open Scope R_scope.

(* affine kernel y = x * a + b: derivatives with respect to the scale, the shift and the input *)
Lemma affine_param_derivatives (a b x : R) :
  is_derive (fun s : R => x * s + b) a x /\ is_derive (fun t : R => x * a + t) b 1 /\ is_derive (fun v : R => v * a + b) x a.
Proof. split; [|split]; auto_derive; try exact I; ring. Qed.

(* ActNorm: derivative of the output with respect to log_scale and shift *)
Lemma actnorm_param_derivatives (ls sh x : R) :
  is_derive (fun l => an_forward_out Rops (an_scale Rops l) sh x) ls (exp ls * x) /\
  is_derive (fun s => an_forward_out Rops (an_scale Rops ls) s x) sh 1.
Proof.
  unfold an_forward_out, an_scale. cbn [Rops o_add o_mul o_exp]. split; auto_derive; try exact I; ring.
Qed.

(* sigmoid with learned temperature: derivative of the output with respect to the temperature *)
Lemma sigmoid_temperature_derivative (T eps x : R) :
  is_derive (fun t => sigm_fwd_ret0 Rops x eps t) T (x * (sig (T * x) * (1 - sig (T * x)))).
Proof.
  unfold sigm_fwd_ret0, o_sigmoid, sig. cbn [Rops o_mul o_div o_add o_one o_exp o_neg].
  pose proof (exp_pos (- (T * x))). auto_derive; [lra|]. field. lra.
Qed.

(* rational-quadratic bin: the output is differentiable in each knot parameter (here: the two end derivatives),
   with a finite derivative, wherever the denominator is positive (i.e. on the whole bin, by den_pos) *)
Lemma rq_output_differentiable_in_d0 (x xk w yk h d0 d1 : R) :
  0 < h / w + (d0 + d1 - 2 * (h / w)) * ((x - xk) / w * (1 - (x - xk) / w)) ->
  ex_derive (fun d => rq_fwd_ret0 Rops x xk w yk (h / w) d d1 h) d0.
Proof.
  intros Hden. unfold rq_fwd_ret0, o_sq. cbn [Rops o_add o_sub o_mul o_div o_ofZ].
  change (IZR 1) with 1. change (IZR 2) with 2. auto_derive. unfold Rminus, Rdiv in Hden |- *. lra.
Qed.
Lemma rq_output_differentiable_in_d1 (x xk w yk h d0 d1 : R) :
  0 < h / w + (d0 + d1 - 2 * (h / w)) * ((x - xk) / w * (1 - (x - xk) / w)) ->
  ex_derive (fun d => rq_fwd_ret0 Rops x xk w yk (h / w) d0 d h) d1.
Proof.
  intros Hden. unfold rq_fwd_ret0, o_sq. cbn [Rops o_add o_sub o_mul o_div o_ofZ].
  change (IZR 1) with 1. change (IZR 2) with 2. auto_derive. unfold Rminus, Rdiv in Hden |- *. lra.
Qed.
