(* Elementwise nonlinearities (formulas generated from nonlinearities.py) over the reals:
   derivative of the forward formula, log-abs-det = ln of it, inverse identities. *)
From Coq Require Import Reals Lra.
From Coquelicot Require Import Coquelicot.
From NF Require Import Base.Ops Base.Rops Gen.Nonlin.
Open Scope R_scope.

(* ---------- Exp ---------- *)
Lemma exp_fwd_derive x : is_derive (exp_fwd_ret0 Rops) x (exp x) /\ exp_fwd_ret1 Rops x = ln (exp x).
Proof.
  split.
  - unfold exp_fwd_ret0. cbn [Rops o_exp]. auto_derive; [exact I | ring].
  - unfold exp_fwd_ret1. rewrite ln_exp. reflexivity.
Qed.
Lemma exp_round_trip x y : 0 < y ->
  exp_inv_ret0 Rops (exp_fwd_ret0 Rops x) = x /\ exp_fwd_ret0 Rops (exp_inv_ret0 Rops y) = y /\
  exp_inv_ret1 Rops y = - exp_fwd_ret1 Rops (exp_inv_ret0 Rops y).
Proof.
  intros Hy. unfold exp_inv_ret0, exp_fwd_ret0, exp_inv_ret1, exp_fwd_ret1. cbn [Rops o_exp o_ln o_neg].
  repeat split; [apply ln_exp | apply exp_ln; exact Hy].
Qed.

(* ---------- Tanh ---------- *)
Lemma cosh_pos x : 0 < cosh x.
Proof. unfold cosh. pose proof (exp_pos x). pose proof (exp_pos (- x)). lra. Qed.

Lemma tanh_sq_lt_1 x : 0 < 1 - tanh x * tanh x.
Proof.
  unfold tanh, sinh, cosh. pose proof (exp_pos x) as H1. pose proof (exp_pos (- x)) as H2.
  assert (E : exp x * exp (- x) = 1) by (rewrite <- exp_plus; replace (x + - x) with 0 by ring; apply exp_0).
  replace (1 - (exp x - exp (- x)) / 2 / ((exp x + exp (- x)) / 2) * ((exp x - exp (- x)) / 2 / ((exp x + exp (- x)) / 2)))
    with (4 / ((exp x + exp (- x)) * (exp x + exp (- x)))).
  - apply Rdiv_lt_0_compat; [lra | apply Rmult_lt_0_compat; lra].
  - field_simplify_eq; [|lra]. nra.
Qed.

Lemma tanh_fwd_derive x :
  is_derive (tanh_fwd_ret0 Rops) x (1 - tanh x * tanh x) /\ 0 < 1 - tanh x * tanh x /\
  tanh_fwd_ret1 Rops x = ln (1 - tanh x * tanh x).
Proof.
  split; [|split; [apply tanh_sq_lt_1|]].
  - unfold tanh_fwd_ret0. cbn [Rops o_tanh]. unfold tanh, sinh, cosh.
    pose proof (exp_pos x) as H1. pose proof (exp_pos (- x)) as H2.
    auto_derive; [lra|]. field. lra.
  - unfold tanh_fwd_ret1, tanh_fwd_ret0, o_sq. cbn [Rops o_ln o_sub o_mul o_tanh o_ofZ]. reflexivity.
Qed.

(* ---------- Sigmoid (temperature T > 0) ---------- *)
Definition sig (z : R) : R := 1 / (1 + exp (- z)).
Lemma sig_pos z : 0 < sig z < 1.
Proof.
  unfold sig. pose proof (exp_pos (- z)). split.
  - apply Rdiv_lt_0_compat; lra.
  - apply (Rmult_lt_reg_r (1 + exp (- z))); [lra|]. unfold Rdiv. rewrite Rmult_assoc, Rinv_l by lra. lra.
Qed.

Lemma softplus_neg_is_ln_sig z : - o_softplus Rops (- z) = ln (sig z).
Proof.
  unfold o_softplus, sig. cbn [Rops o_ln o_add o_one o_exp]. pose proof (exp_pos (- z)).
  unfold Rdiv. rewrite Rmult_1_l, ln_Rinv by lra. reflexivity.
Qed.
Lemma softplus_is_ln_one_minus_sig z : - o_softplus Rops z = ln (1 - sig z).
Proof.
  unfold o_softplus, sig. cbn [Rops o_ln o_add o_one o_exp]. pose proof (exp_pos (- z)) as H1. pose proof (exp_pos z) as H2.
  replace (1 - 1 / (1 + exp (- z))) with (/ (1 + exp z)).
  - rewrite ln_Rinv by lra. reflexivity.
  - rewrite exp_Ropp. field. split; lra.
Qed.

Lemma sigmoid_fwd_derive T eps x : 0 < T ->
  is_derive (fun v => sigm_fwd_ret0 Rops v eps T) x (T * (sig (T * x) * (1 - sig (T * x)))) /\
  0 < T * (sig (T * x) * (1 - sig (T * x))) /\
  sigm_fwd_ret1 Rops x eps T = ln (T * (sig (T * x) * (1 - sig (T * x)))).
Proof.
  intros HT. pose proof (sig_pos (T * x)) as [Hs0 Hs1].
  split; [|split].
  - unfold sigm_fwd_ret0, o_sigmoid, sig. cbn [Rops o_mul o_div o_add o_one o_exp o_neg].
    pose proof (exp_pos (- (T * x))). auto_derive; [lra|]. field. lra.
  - apply Rmult_lt_0_compat; [exact HT | apply Rmult_lt_0_compat; lra].
  - unfold sigm_fwd_ret1. cbn [Rops o_mul o_sub o_ln o_neg].
    change (o_neg Rops (T * x)) with (- (T * x)).
    replace (ln T - o_softplus Rops (- (T * x)) - o_softplus Rops (T * x))
      with (ln T + (- o_softplus Rops (- (T * x))) + (- o_softplus Rops (T * x))) by ring.
    rewrite softplus_neg_is_ln_sig, softplus_is_ln_one_minus_sig.
    rewrite ln_mult by (try lra; apply Rmult_lt_0_compat; lra). rewrite ln_mult by lra. ring.
Qed.

(* ---------- Cauchy CDF ---------- *)
Lemma cauchy_fwd_derive x :
  is_derive (cauchy_fwd_ret0 Rops) x (/ PI * / (1 + x * x)) /\ 0 < / PI * / (1 + x * x) /\
  cauchy_fwd_ret1 Rops x = ln (/ PI * / (1 + x * x)).
Proof.
  pose proof PI_RGT_0 as Hpi. assert (Hx : 0 < 1 + x * x) by nra.
  split; [|split].
  - unfold cauchy_fwd_ret0, o_lit. cbn [Rops o_add o_mul o_div o_atan o_pi o_ofZ].
    apply (is_derive_ext (fun v => / PI * atan v + / 2)).
    { intros v. change (IZR 1) with 1. change (IZR 2) with 2. unfold Rdiv. rewrite !Rmult_1_l. reflexivity. }
    apply is_derive_Reals. pose proof (derivable_pt_lim_atan x) as Ha.
    replace (/ PI * / (1 + x * x)) with (/ PI * / (1 + x ^ 2) + 0) by (simpl; rewrite Rmult_1_r; ring).
    apply derivable_pt_lim_plus; [|apply derivable_pt_lim_const].
    apply derivable_pt_lim_scal. exact Ha.
  - apply Rmult_lt_0_compat; apply Rinv_0_lt_compat; assumption.
  - unfold cauchy_fwd_ret1, o_sq. cbn [Rops o_sub o_neg o_ln o_add o_mul o_pi o_ofZ]. change (IZR 1) with 1.
    rewrite ln_mult by (apply Rinv_0_lt_compat; assumption). rewrite !ln_Rinv by assumption. ring.
Qed.

(* ---------- LeakyReLU away from its kink ---------- *)
Lemma lrelu_derive slope x : 0 < slope -> x <> 0 ->
  let f := fun v => if Rltb v 0 then slope * v else v in
  let d := if Rltb x 0 then slope else 1 in
  is_derive f x d /\ 0 < d /\
  lrelu_fwd_lad Rops (if Rltb x 0 then 1 else 0) (ln slope) = ln d.
Proof.
  intros Hs Hx f d. split; [|split].
  - unfold f, d. destruct (Rltb x 0) eqn:E.
    + apply Rltb_true in E. apply (is_derive_ext_loc (fun v => slope * v)).
      * exists (mkposreal (- x) ltac:(lra)). intros v Hv. cbn in Hv. unfold ball, AbsRing_ball, abs, minus, plus, opp in Hv. cbn in Hv.
        apply Rabs_def2 in Hv. destruct (Rltb v 0) eqn:Ev; [reflexivity | apply Rltb_false in Ev; lra].
      * auto_derive; [exact I | ring].
    + apply Rltb_false in E. apply (is_derive_ext_loc (fun v => v)).
      * exists (mkposreal x ltac:(lra)). intros v Hv. cbn in Hv. unfold ball, AbsRing_ball, abs, minus, plus, opp in Hv. cbn in Hv.
        apply Rabs_def2 in Hv. destruct (Rltb v 0) eqn:Ev; [apply Rltb_true in Ev; lra | reflexivity].
      * auto_derive; [exact I | ring].
  - unfold d. destruct (Rltb x 0); lra.
  - unfold lrelu_fwd_lad, d. cbn [Rops o_mul]. destruct (Rltb x 0); [ring | rewrite ln_1; ring].
Qed.

(* ---------- affine kernel x * scale + shift (couplings, autoregressive, ActNorm, pointwise affine) ---------- *)
Lemma affine_derive (a b x : R) : 0 < a ->
  is_derive (fun v : R => v * a + b) x a /\ (x * a + b - b) / a = x.
Proof.
  intros H. split; [|field; lra]. auto_derive; [exact I | ring].
Qed.

(* ---------- GatedLinearUnit, per element ---------- *)
Lemma glu_derive x c :
  is_derive (fun v => glu_fwd_ret0 Rops v c) x (sig c) /\ 0 < sig c /\ glu_fwd_ret1 Rops x c = ln (sig c) /\
  glu_inv_ret0 Rops (glu_fwd_ret0 Rops x c) c = x.
Proof.
  pose proof (sig_pos c) as [H0 H1]. unfold glu_fwd_ret0, glu_fwd_ret1, glu_inv_ret0, o_sigmoid.
  cbn [Rops o_mul o_div o_add o_one o_exp o_neg o_ln]. unfold sig in *. pose proof (exp_pos (- c)) as He.
  split; [auto_derive; [exact I | ring]|]. split; [exact H0|]. split; [reflexivity|]. field. lra.
Qed.

(* product of positive derivatives: the log of the product is the sum of the logs (aggregation) *)
Require Import List. Import ListNotations.
Lemma ln_prod_is_sum_ln (ds : list R) :
  Forall (fun d => 0 < d) ds ->
  0 < fold_right Rmult 1 ds /\ ln (fold_right Rmult 1 ds) = fold_right Rplus 0 (map ln ds).
Proof.
  induction 1 as [|d ds Hd _ [IH1 IH2]]; cbn; [split; [lra | apply ln_1]|].
  split; [apply Rmult_lt_0_compat; assumption|]. rewrite ln_mult by assumption. rewrite IH2. reflexivity.
Qed.
