(* Box scaling of the normalised-coordinate splines, and the normalisation layers' per-element derivative. *)
From Coq Require Import Reals Lra.
From Coquelicot Require Import Coquelicot.
From NF Require Import Base.Ops Base.Rops Gen.SplineLinear Gen.SplineQuadratic Gen.SplineCubic Gen.Norm.
Open Scope R_scope.

(* a kernel g with derivative d > 0 in normalised coordinates, applied on the box
   [l, r] -> [b, t]: the map is x |-> g((x - l)/(r - l)) * (t - b) + b, its derivative is
   d * (t - b)/(r - l), and adding ln(t - b) - ln(r - l) to ln d gives the log of that derivative *)
Lemma box_derivative (g : R -> R) (l r b t x d : R) :
  l < r -> b < t -> 0 < d -> is_derive g ((x - l) / (r - l)) d ->
  is_derive (fun v => g ((v - l) / (r - l)) * (t - b) + b) x (d * (t - b) / (r - l)) /\
  0 < d * (t - b) / (r - l) /\
  ln d + ln (t - b) - ln (r - l) = ln (d * (t - b) / (r - l)).
Proof.
  intros Hlr Hbt Hd Hg. split; [|split].
  - unfold Rminus, Rdiv in Hg |- *. auto_derive.
    + exists d. exact Hg.
    + rewrite (is_derive_unique (fun x0 : R => g x0) _ _ Hg). field. lra.
  - apply Rdiv_lt_0_compat; [apply Rmult_lt_0_compat|]; lra.
  - unfold Rdiv. rewrite ln_mult by (try apply Rmult_lt_0_compat; try apply Rinv_0_lt_compat; lra).
    rewrite ln_mult by lra. rewrite ln_Rinv by lra. ring.
Qed.

(* the generated de-normalisation steps add exactly that term (forward) *)
Lemma denormalise_adds_box_term (y ld l r b t : R) :
  lin_fwd_denormalise_logabsdet Rops y ld l r b t = ld + ln (t - b) - ln (r - l) /\
  quad_fwd_denormalise_logabsdet Rops y ld l r b t = ld + ln (t - b) - ln (r - l) /\
  cub_fwd_denormalise_logabsdet Rops y ld l r b t = ld + ln (t - b) - ln (r - l) /\
  lin_fwd_denormalise_outputs Rops y ld l r b t = y * (t - b) + b /\
  quad_fwd_denormalise_outputs Rops y ld l r b t = y * (t - b) + b /\
  cub_fwd_denormalise_outputs Rops y ld l r b t = y * (t - b) + b /\
  lin_fwd_normalise_inputs Rops y l r b t = (y - l) / (r - l) /\
  quad_fwd_normalise_inputs Rops y l r b t = (y - l) / (r - l) /\
  cub_fwd_normalise_inputs Rops y l r b t = (y - l) / (r - l).
Proof. repeat split. Qed.

(* BatchNorm / ActNorm, one element: derivative of the output formula and its log *)
Lemma batchnorm_derive (w bias eps mean var x : R) : 0 < w -> 0 < var + eps ->
  is_derive (fun v => bn_forward_out Rops w bias eps v mean var) x (w / sqrt (var + eps)) /\
  0 < w / sqrt (var + eps) /\
  bn_forward_lad Rops w bias eps x mean var = ln (w / sqrt (var + eps)).
Proof.
  intros Hw Hv. assert (Hs : 0 < sqrt (var + eps)) by (apply sqrt_lt_R0; exact Hv).
  split; [|split].
  - unfold bn_forward_out. cbn [Rops o_add o_sub o_mul o_div o_sqrt]. auto_derive; [exact I | field; lra].
  - apply Rdiv_lt_0_compat; assumption.
  - unfold bn_forward_lad, o_lit. cbn [Rops o_add o_sub o_mul o_div o_ln o_ofZ o_sqrt].
    change (IZR 1) with 1. change (IZR 2) with 2.
    unfold Rdiv at 2. rewrite ln_mult by (try apply Rinv_0_lt_compat; assumption). rewrite ln_Rinv by exact Hs.
    rewrite <- (sqrt_sqrt (var + eps)) at 1 by lra. rewrite ln_mult by assumption. field.
Qed.

Lemma actnorm_derive (log_scale shift x : R) :
  is_derive (fun v => an_forward_out Rops (an_scale Rops log_scale) shift v) x (exp log_scale) /\
  ln (exp log_scale) = log_scale /\
  an_inverse_out Rops (an_scale Rops log_scale) shift (an_forward_out Rops (an_scale Rops log_scale) shift x) = x.
Proof.
  split; [|split; [apply ln_exp|]].
  - unfold an_forward_out, an_scale. cbn [Rops o_add o_mul o_exp]. auto_derive; [exact I | ring].
  - unfold an_forward_out, an_inverse_out, an_scale. cbn [Rops o_add o_sub o_mul o_div o_exp].
    pose proof (exp_pos log_scale). field. lra.
Qed.
