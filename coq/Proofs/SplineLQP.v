(* Bins of the piecewise-linear and piecewise-quadratic splines (generated formulas) over the reals. *)
From Coq Require Import Reals Lra.
From Coquelicot Require Import Coquelicot.
From NF Require Import Base.Ops Base.Rops Gen.SplineLinear Gen.SplineQuadratic.
From NF Require Import Proofs.SplineRQP.
Open Scope R_scope.

Lemma clamp01_id v : 0 <= v <= 1 -> o_clamp Rops v 0 1 = v.
Proof.
  intros [H0 H1]. unfold o_clamp, o_min, o_max. cbn [Rops o_leb].
  destruct (Rleb v 0) eqn:E1.
  - apply Rleb_true in E1. assert (v = 0) by lra. subst. destruct (Rleb 0 1) eqn:E2; [reflexivity | apply Rleb_false in E2; lra].
  - destruct (Rleb v 1) eqn:E2; [reflexivity | apply Rleb_false in E2; lra].
Qed.

(* ---------- linear: bin k of K, normalised coordinates, pdf value p > 0, left cdf value c ---------- *)
Section LinBin.
  Variables (K k p c : R).
  Hypothesis (HK : 0 < K) (Hp : 0 < p).
  Definition lin_raw (x : R) : R := c + (x * K - k) * p.

  Lemma lin_fwd_outputs_eq x : 0 <= lin_raw x <= 1 -> lin_fwd_outputs Rops x K k p c = lin_raw x.
  Proof.
    intros H. unfold lin_fwd_outputs, lin_raw in *. cbn [Rops o_add o_sub o_mul o_ofZ].
    change (IZR 0) with 0. change (IZR 1) with 1. apply clamp01_id. exact H.
  Qed.

  Lemma lin_raw_increasing a b : a < b -> lin_raw a < lin_raw b.
  Proof. intros H. unfold lin_raw. assert (0 < (b - a) * K * p) by (repeat apply Rmult_lt_0_compat; lra). nra. Qed.

  Lemma lin_raw_ends : lin_raw (k / K) = c /\ lin_raw ((k + 1) / K) = c + p.
  Proof. unfold lin_raw. split; field; lra. Qed.

  Lemma lin_raw_derive x : is_derive lin_raw x (K * p).
  Proof. unfold lin_raw. auto_derive; [exact I | ring]. Qed.

  (* the returned log-det: log(pdf) - log(1/K) = log of the slope K * p *)
  Lemma lin_lad_is_ln_slope x : lin_fwd_logabsdet Rops x K k p c = ln (K * p).
  Proof.
    unfold lin_fwd_logabsdet. cbn [Rops o_sub o_ln o_div o_ofZ o_lit]. unfold o_lit. cbn [Rops o_div o_ofZ].
    change (IZR 1) with 1. unfold Rdiv. rewrite Rmult_1_l, ln_Rinv by exact HK. rewrite ln_mult by assumption. ring.
  Qed.
End LinBin.

(* ---------- quadratic: bin with location l, width w, left cdf c0, heights hl hr > 0 ---------- *)
Section QuadBin.
  Variables (l w c0 hl hr : R).
  Hypothesis (Hw : 0 < w) (Hhl : 0 < hl) (Hhr : 0 < hr).
  Definition qa := quad_coef_a Rops 0 l w c0 hl hr.
  Definition qb := quad_coef_b Rops 0 l w c0 hl hr.
  Definition qc := quad_coef_c Rops 0 l w c0 hl hr.
  Definition q_raw (x : R) : R := let al := (x - l) / w in qa * (al * al) + qb * al + qc.
  Definition q_slope (x : R) : R := ((x - l) / w) * (hr - hl) + hl.

  Lemma q_coefs : qa = (1 / 2) * (hr - hl) * w /\ qb = hl * w /\ qc = c0.
  Proof. unfold qa, qb, qc, quad_coef_a, quad_coef_b, quad_coef_c, o_lit. cbn [Rops o_mul o_sub o_div o_ofZ]. repeat split. Qed.

  Lemma q_raw_ends : q_raw l = c0 /\ q_raw (l + w) = c0 + (hl + hr) / 2 * w.
  Proof.
    destruct q_coefs as [Ea [Eb Ec]]. unfold q_raw. rewrite Ea, Eb, Ec. split; field; lra.
  Qed.

  Lemma q_slope_pos x : l <= x <= l + w -> 0 < q_slope x.
  Proof.
    intros [H0 H1]. unfold q_slope. set (al := (x - l) / w).
    assert (0 <= al <= 1).
    { unfold al. split; [apply Rmult_le_pos; [lra | left; apply Rinv_0_lt_compat; lra]|].
      apply (Rmult_le_reg_r w); [lra|]. unfold Rdiv. rewrite Rmult_assoc, Rinv_l by lra. lra. }
    replace (al * (hr - hl) + hl) with (al * hr + (1 - al) * hl) by ring.
    destruct (Rle_lt_dec al (1 / 2)); [assert (0 < (1 - al) * hl) by (apply Rmult_lt_0_compat; lra);
                                        assert (0 <= al * hr) by (apply Rmult_le_pos; lra); lra |
                                        assert (0 < al * hr) by (apply Rmult_lt_0_compat; lra);
                                        assert (0 <= (1 - al) * hl) by (apply Rmult_le_pos; lra); lra].
  Qed.

  Lemma q_raw_derive x : is_derive q_raw x (q_slope x).
  Proof.
    destruct q_coefs as [Ea [Eb Ec]]. unfold q_raw, q_slope. rewrite Ea, Eb, Ec.
    auto_derive; [exact I | field; lra].
  Qed.

  (* the returned log-det is the log of the (normalised-coordinate) derivative *)
  Lemma q_lad_is_ln_slope x : quad_fwd_logabsdet Rops x l w c0 hl hr qa qb qc = ln (q_slope x).
  Proof. unfold quad_fwd_logabsdet, q_slope. cbn [Rops o_ln o_add o_sub o_mul o_div]. reflexivity. Qed.

  Lemma q_raw_increasing a b : l <= a -> a < b -> b <= l + w -> q_raw a < q_raw b.
  Proof.
    intros Ha Hab Hb.
    destruct (MVT_gen q_raw a b q_slope) as [cc [Hc E]].
    - intros x Hx. apply q_raw_derive.
    - intros x Hx. apply derivable_continuous_pt. apply ex_derive_Reals_0. eexists. apply q_raw_derive.
    - rewrite Rmin_left, Rmax_right in Hc by lra. assert (0 < q_slope cc) by (apply q_slope_pos; lra).
      assert (0 < q_slope cc * (b - a)) by (apply Rmult_lt_0_compat; lra). lra.
  Qed.
End QuadBin.

(* ---------- quadratic bin: the (repaired, stable) inverse root ---------- *)
Section QuadInv.
  Variables (l w c0 hl hr y : R).
  Hypothesis (Hw : 0 < w) (Hhl : 0 < hl) (Hhr : 0 < hr).
  Hypothesis Hy : c0 <= y <= c0 + (hl + hr) / 2 * w.
  Let a := qa l w c0 hl hr. Let b := qb l w c0 hl hr. Let c := qc l w c0 hl hr - y.
  Definition q_alpha : R := quad_inv_alpha Rops y l w c0 hl hr a b (qc l w c0 hl hr).

  Lemma q_alpha_closed : q_alpha = 2 * c / (- b - sqrt (b * b - 4 * a * c)).
  Proof.
    unfold q_alpha, quad_inv_alpha, o_sq. cbn [Rops o_sub o_mul o_div o_neg o_sqrt o_ofZ].
    change (IZR 2) with 2. change (IZR 4) with 4. reflexivity.
  Qed.

  Lemma q_abc : a = (1 / 2) * (hr - hl) * w /\ b = hl * w /\ c = c0 - y.
  Proof. destruct (q_coefs l w c0 hl hr) as [E1 [E2 E3]]. unfold a, b, c. rewrite E1, E2, E3. repeat split. Qed.

  (* the returned alpha lies in [0, 1] and solves a alpha^2 + b alpha + (c0 - y) = 0:
     the inverse output l + alpha * w is the pre-image of y in the bin *)
  Lemma q_alpha_correct : 0 <= q_alpha <= 1 /\ a * (q_alpha * q_alpha) + b * q_alpha + c = 0.
  Proof.
    destruct q_abc as [Ea [Eb Ec]].
    assert (Hc : c <= 0) by (rewrite Ec; lra).
    assert (Habc : 0 <= a + b + c) by (rewrite Ea, Eb, Ec; lra).
    assert (Hb : 0 < b) by (rewrite Eb; apply Rmult_lt_0_compat; assumption).
    pose proof (alg_disc a b c Hc Habc) as Hd.
    pose proof (sqrt_pos (b * b - 4 * a * c)) as Ht. pose proof (sqrt_sqrt _ Hd) as Hs.
    pose proof (alg_q_neg a b c _ Hc Habc (fun _ => Hb) Ht Hs) as Hq.
    pose proof (alg_root_le_1 a b c _ Hc Habc Ht Hs) as Hle.
    rewrite q_alpha_closed. set (t := sqrt (b * b - 4 * a * c)) in *. set (q := - b - t) in *.
    assert (Hiq : / q < 0) by (apply Rinv_lt_0_compat; exact Hq).
    split; [split|].
    - unfold Rdiv. replace (2 * c * / q) with ((- (2 * c)) * (- / q)) by ring. apply Rmult_le_pos; lra.
    - apply (Rmult_le_reg_r (- q)); [lra|]. unfold Rdiv.
      replace (2 * c * / q * - q) with (- (2 * c) * (q * / q)) by ring. rewrite Rinv_r by lra. unfold q. lra.
    - assert (Hq0 : q <> 0) by lra.
      apply (Rmult_eq_reg_r (q * q)); [|apply Rmult_integral_contrapositive_currified; exact Hq0].
      rewrite Rmult_0_l. unfold Rdiv.
      replace ((a * (2 * c * / q * (2 * c * / q)) + b * (2 * c * / q) + c) * (q * q))
        with (c * (4 * a * c + 2 * b * q + q * q)) by (field; exact Hq0).
      replace (4 * a * c + 2 * b * q + q * q) with (4 * a * c - b * b + t * t) by (unfold q; ring).
      rewrite Hs. ring.
  Qed.

  Lemma q_forward_of_inverse : q_raw l w c0 hl hr (l + q_alpha * w) = y.
  Proof.
    destruct q_alpha_correct as [_ E]. unfold q_raw. fold a b. replace ((l + q_alpha * w - l) / w) with q_alpha by (field; lra).
    unfold c in E. cbv zeta. lra.
  Qed.
End QuadInv.
