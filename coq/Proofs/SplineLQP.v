(* Bins of the piecewise-linear and piecewise-quadratic splines (generated formulas) over the reals. *)
From Coq Require Import Reals Lra.
From Coquelicot Require Import Coquelicot.
From NF Require Import Base.Ops Base.Rops Gen.SplineLinear Gen.SplineQuadratic.
Open Scope R_scope.

Lemma clamp01_id v : 0 <= v <= 1 -> o_clamp Rops v 0 1 = v.
Proof.
  intros [H0 H1]. unfold o_clamp, o_min, o_max. cbn [Rops o_leb].
  destruct (Rleb v 0) eqn:E1.
  - apply Rleb_true in E1. assert (v = 0) by lra. subst. destruct (Rleb 0 1) eqn:E2; [reflexivity | apply Rleb_false in E2; lra].
  - destruct (Rleb v 1) eqn:E2; [reflexivity | apply Rleb_false in E2; lra].
Qed.

(* ---------- linear: bin k of K, normalised coordinates, pdf value p > 0, left cdf value c ---------- *)
Section LinBin.
  Variables (K k p c : R).
  Hypothesis (HK : 0 < K) (Hp : 0 < p).
  Definition lin_raw (x : R) : R := c + (x * K - k) * p.

  Lemma lin_fwd_outputs_eq x : 0 <= lin_raw x <= 1 -> lin_fwd_outputs Rops x K k p c = lin_raw x.
  Proof.
    intros H. unfold lin_fwd_outputs, lin_raw in *. cbn [Rops o_add o_sub o_mul o_ofZ].
    change (IZR 0) with 0. change (IZR 1) with 1. apply clamp01_id. exact H.
  Qed.

  Lemma lin_raw_increasing a b : a < b -> lin_raw a < lin_raw b.
  Proof. intros H. unfold lin_raw. assert (0 < (b - a) * K * p) by (repeat apply Rmult_lt_0_compat; lra). nra. Qed.

  Lemma lin_raw_ends : lin_raw (k / K) = c /\ lin_raw ((k + 1) / K) = c + p.
  Proof. unfold lin_raw. split; field; lra. Qed.

  Lemma lin_raw_derive x : is_derive lin_raw x (K * p).
  Proof. unfold lin_raw. auto_derive; [exact I | ring]. Qed.

  (* the returned log-det: log(pdf) - log(1/K) = log of the slope K * p *)
  Lemma lin_lad_is_ln_slope x : lin_fwd_logabsdet Rops x K k p c = ln (K * p).
  Proof.
    unfold lin_fwd_logabsdet. cbn [Rops o_sub o_ln o_div o_ofZ o_lit]. unfold o_lit. cbn [Rops o_div o_ofZ].
    change (IZR 1) with 1. unfold Rdiv. rewrite Rmult_1_l, ln_Rinv by exact HK. rewrite ln_mult by assumption. ring.
  Qed.
End LinBin.

(* ---------- quadratic: bin with location l, width w, left cdf c0, heights hl hr > 0 ---------- *)
Section QuadBin.
  Variables (l w c0 hl hr : R).
  Hypothesis (Hw : 0 < w) (Hhl : 0 < hl) (Hhr : 0 < hr).
  Definition qa := quad_coef_a Rops 0 l w c0 hl hr.
  Definition qb := quad_coef_b Rops 0 l w c0 hl hr.
  Definition qc := quad_coef_c Rops 0 l w c0 hl hr.
  Definition q_raw (x : R) : R := let al := (x - l) / w in qa * (al * al) + qb * al + qc.
  Definition q_slope (x : R) : R := ((x - l) / w) * (hr - hl) + hl.

  Lemma q_coefs : qa = (1 / 2) * (hr - hl) * w /\ qb = hl * w /\ qc = c0.
  Proof. unfold qa, qb, qc, quad_coef_a, quad_coef_b, quad_coef_c, o_lit. cbn [Rops o_mul o_sub o_div o_ofZ]. repeat split. Qed.

  Lemma q_raw_ends : q_raw l = c0 /\ q_raw (l + w) = c0 + (hl + hr) / 2 * w.
  Proof.
    destruct q_coefs as [Ea [Eb Ec]]. unfold q_raw. rewrite Ea, Eb, Ec. split; field; lra.
  Qed.

  Lemma q_slope_pos x : l <= x <= l + w -> 0 < q_slope x.
  Proof.
    intros [H0 H1]. unfold q_slope. set (al := (x - l) / w).
    assert (0 <= al <= 1).
    { unfold al. split; [apply Rmult_le_pos; [lra | left; apply Rinv_0_lt_compat; lra]|].
      apply (Rmult_le_reg_r w); [lra|]. unfold Rdiv. rewrite Rmult_assoc, Rinv_l by lra. lra. }
    replace (al * (hr - hl) + hl) with (al * hr + (1 - al) * hl) by ring.
    destruct (Rle_lt_dec al (1 / 2)); [assert (0 < (1 - al) * hl) by (apply Rmult_lt_0_compat; lra);
                                        assert (0 <= al * hr) by (apply Rmult_le_pos; lra); lra |
                                        assert (0 < al * hr) by (apply Rmult_lt_0_compat; lra);
                                        assert (0 <= (1 - al) * hl) by (apply Rmult_le_pos; lra); lra].
  Qed.

  Lemma q_raw_derive x : is_derive q_raw x (q_slope x).
  Proof.
    destruct q_coefs as [Ea [Eb Ec]]. unfold q_raw, q_slope. rewrite Ea, Eb, Ec.
    auto_derive; [exact I | field; lra].
  Qed.

  (* the returned log-det is the log of the (normalised-coordinate) derivative *)
  Lemma q_lad_is_ln_slope x : quad_fwd_logabsdet Rops x l w c0 hl hr qa qb qc = ln (q_slope x).
  Proof. unfold quad_fwd_logabsdet, q_slope. cbn [Rops o_ln o_add o_sub o_mul o_div]. reflexivity. Qed.

  Lemma q_raw_increasing a b : l <= a -> a < b -> b <= l + w -> q_raw a < q_raw b.
  Proof.
    intros Ha Hab Hb.
    destruct (MVT_gen q_raw a b q_slope) as [cc [Hc E]].
    - intros x Hx. apply q_raw_derive.
    - intros x Hx. apply derivable_continuous_pt. apply ex_derive_Reals_0. eexists. apply q_raw_derive.
    - rewrite Rmin_left, Rmax_right in Hc by lra. assert (0 < q_slope cc) by (apply q_slope_pos; lra).
      assert (0 < q_slope cc * (b - a)) by (apply Rmult_lt_0_compat; lra). lra.
  Qed.
End QuadBin.
