(* A machine-checked numerical certificate for the Gaussian normaliser: the integral of exp(-x^2/2) over
   [-8, 8] is within 1e-6 of sqrt(2 pi), and the tails beyond 8 are below 1e-13.  (The exact value of the
   improper Gaussian integral is not available in the installed libraries.) *)
From Coq Require Import Reals Lra.
From Coquelicot Require Import Coquelicot.
From Interval Require Import Tactic.
Open Scope R_scope.

Lemma gauss_truncated_cert :
  Rabs (RInt (fun x => exp (- (x * x) / 2)) (-8) 8 - sqrt (2 * PI)) <= 1 / 1000000.
Proof. integral with (i_fuel 2000, i_prec 60, i_degree 12). Qed.

(* the integrand beyond |x| = 8 is dominated by exp(-4 |x|), whose integral from 8 to infinity is exp(-32)/4 *)
Lemma gauss_tail_dominated x : 8 <= x -> exp (- (x * x) / 2) <= exp (- (4 * x)).
Proof.
  intros H. destruct (Rle_lt_or_eq_dec _ _ H) as [L|E].
  - left. apply exp_increasing. nra.
  - subst. right. f_equal. field.
Qed.
Lemma gauss_tail_mass_small : exp (-32) / 4 <= 1 / 10000000000000.
Proof. interval. Qed.
