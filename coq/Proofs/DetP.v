(* Determinants of the Jacobian shapes that occur in the library (mathcomp matrices over R). *)
From Coq Require Import Reals Lra.
From mathcomp Require Import all_ssreflect all_fingroup all_algebra.
From NF Require Import Base.Rstruct.
Set Implicit Arguments. Unset Strict Implicit. Unset Printing Implicit Defensive.
Import GRing.Theory.
Local Open Scope ring_scope.

(* lower / upper triangular: determinant = product of the diagonal *)
Lemma det_lower_triangular n (A : 'M[R]_n) :
  (forall i j : 'I_n, (i < j)%N -> A i j = 0) -> \det A = \prod_(i < n) A i i.
Proof. move=> H. apply: det_trig. apply/is_trig_mxP => i j lij. exact: H. Qed.

Lemma det_upper_triangular n (A : 'M[R]_n) :
  (forall i j : 'I_n, (j < i)%N -> A i j = 0) -> \det A = \prod_(i < n) A i i.
Proof.
  move=> H. rewrite -det_tr det_lower_triangular; last by move=> i j lij; rewrite mxE H.
  by apply: eq_bigr => i _; rewrite mxE.
Qed.

(* positivity of a product and ln of a product *)
Lemma prod_pos (n : nat) (d : 'I_n -> R) : (forall i, Rlt 0%R (d i)) -> Rlt 0%R (\prod_(i < n) d i).
Proof.
  move=> H. elim/big_ind: _ => //.
  - exact: Rlt_0_1.
  - move=> x y Hx Hy. exact: Rmult_lt_0_compat.
Qed.

Lemma ln_prod (n : nat) (d : 'I_n -> R) : (forall i, Rlt 0%R (d i)) ->
  ln (\prod_(i < n) d i) = \sum_(i < n) ln (d i).
Proof.
  move=> H.
  have P : forall (r : seq 'I_n), Rlt 0%R (\prod_(i <- r) d i) /\ ln (\prod_(i <- r) d i) = \sum_(i <- r) ln (d i).
  { elim=> [|a r [IH1 IH2]].
    - rewrite !big_nil. split; [exact: Rlt_0_1 | exact: ln_1].
    - rewrite !big_cons. split; first by apply: Rmult_lt_0_compat.
      rewrite ln_mult //. by rewrite IH2. }
  by case: (P (index_enum (ordinal_finType n))).
Qed.

(* A transform whose Jacobian is triangular (elementwise: diagonal; autoregressive: lower triangular;
   coupling: triangular up to a permutation) with positive diagonal entries d_i:
   log |det J| = sum_i ln d_i *)
Theorem logdet_triangular n (J : 'M[R]_n) :
  ((forall i j : 'I_n, (i < j)%N -> J i j = 0) \/ (forall i j : 'I_n, (j < i)%N -> J i j = 0)) ->
  (forall i, Rlt 0%R (J i i)) ->
  Rlt 0%R (\det J) /\ ln (Rabs (\det J)) = \sum_(i < n) ln (J i i).
Proof.
  move=> H Hd.
  have E : \det J = \prod_(i < n) J i i by case: H => H; [apply: det_lower_triangular | apply: det_upper_triangular].
  have P := prod_pos Hd. rewrite E. split=> //.
  rewrite Rabs_right; last by apply: Rle_ge; apply: Rlt_le.
  exact: ln_prod.
Qed.

(* conjugating by a permutation matrix does not change the determinant *)
Lemma det_perm_conj n (s : 'S_n) (A : 'M[R]_n) : \det (perm_mx s *m A *m (perm_mx s)^T) = \det A.
Proof.
  by rewrite !det_mulmx det_tr det_perm mulrAC -signr_addb addbb mul1r.
Qed.

(* chain rule in determinant form: log-dets of a composition add *)
Theorem logdet_compose n (Jg Jf : 'M[R]_n) :
  \det Jf != 0 -> \det Jg != 0 ->
  ln (Rabs (\det (Jg *m Jf))) = Rplus (ln (Rabs (\det Jg))) (ln (Rabs (\det Jf))).
Proof.
  move=> /eqP Hf /eqP Hg. rewrite det_mulmx.
  have -> : Rabs (\det Jg * \det Jf) = Rmult (Rabs (\det Jg)) (Rabs (\det Jf)) by exact: Rabs_mult.
  rewrite ln_mult //; apply: Rabs_pos_lt => //.
Qed.
