(* The unconstrained piecewise-linear spline (linear tails): identity outside [-B, B], the whole-spline bijection of [-B, B]
   inside, hence a strictly increasing map of the real line that takes every value; the inverse branch likewise. *)
From Coq Require Import Reals ZArith List Bool Arith Lia Lra.
From Coquelicot Require Import Coquelicot.
From NF Require Import Base.Ops Base.Rops Base.Result Gen.Utils Gen.SplineLinear Model.Utils Model.Vec Model.SplineRQ Model.SplineLinear
  Proofs.SplineLinearWhole.
Import ListNotations.
Open Scope R_scope.

Section LinTails.
  Variables (B : R) (u : list R).
  Hypothesis (HB : 0 < B) (Hne : u <> []).
  Let bx : @box R := {| b_left := - B; b_right := B; b_bottom := - B; b_top := B |}.
  Let Hlr : b_left bx < b_right bx. Proof. cbn. lra. Qed.
  Let Hbt : b_bottom bx < b_top bx. Proof. cbn. lra. Qed.

  Definition UL (x : R) : R := match linear_unconstrained Rops false B u x with Ok (y, _) => y | _ => 0 end.

  Lemma lin_inside_iff x : lin_inside_tails Rops x B = true <-> - B <= x <= B.
  Proof. unfold lin_inside_tails. cbn [Rops o_leb o_neg]. rewrite andb_true_iff, !Rleb_true. tauto. Qed.

  Lemma UL_inside x : - B <= x <= B -> UL x = FL bx u x.
  Proof. intros Hx. unfold UL, linear_unconstrained. apply lin_inside_iff in Hx. rewrite Hx. reflexivity. Qed.

  Lemma UL_outside x : x < - B \/ B < x -> UL x = x.
  Proof.
    intros Hx. unfold UL, linear_unconstrained. destruct (lin_inside_tails Rops x B) eqn:E; [|reflexivity].
    apply lin_inside_iff in E. lra.
  Qed.

  Lemma lin_parts : FL bx u (- B) = - B /\ FL bx u B = B /\
    (forall a b, - B <= a -> a < b -> b <= B -> FL bx u a < FL bx u b) /\
    (forall y, - B <= y <= B -> exists x, - B <= x <= B /\ FL bx u x = y).
  Proof.
    destruct (linear_whole bx u Hne Hlr Hbt) as [_ [[E1 E2] Inc]].
    split; [exact E1|]. split; [exact E2|]. split; [exact Inc|].
    intros y Hy. destruct (linear_forward_of_inverse bx u Hne Hlr Hbt y Hy) as [x [l [_ [Hx [E _]]]]]. exists x. split; assumption.
  Qed.

  Theorem lin_tails_meet : UL (- B) = - B /\ UL B = B.
  Proof. destruct lin_parts as [E1 [E2 _]]. rewrite !UL_inside by lra. split; assumption. Qed.

  Theorem lin_unconstrained_increasing a b : a < b -> UL a < UL b.
  Proof.
    intros Hab. destruct lin_parts as [E1 [E2 [Inc _]]].
    assert (Hle : forall x, - B <= x <= B -> - B <= FL bx u x <= B).
    { intros x [X1 X2]. split.
      - destruct (Rle_lt_or_eq_dec _ _ X1) as [L|Eq]; [|rewrite <- Eq; lra].
        assert (FL bx u (- B) < FL bx u x) by (apply Inc; lra). lra.
      - destruct (Rle_lt_or_eq_dec _ _ X2) as [L|Eq]; [|rewrite Eq; lra].
        assert (FL bx u x < FL bx u B) by (apply Inc; lra). lra. }
    destruct (Rlt_le_dec a (- B)) as [A1|A1]; destruct (Rlt_le_dec B b) as [B1|B1].
    - rewrite !UL_outside by lra. lra.
    - rewrite (UL_outside a) by lra. destruct (Rlt_le_dec b (- B)) as [B2|B2].
      + rewrite (UL_outside b) by lra. lra.
      + rewrite (UL_inside b) by lra. pose proof (Hle b ltac:(lra)). lra.
    - rewrite (UL_outside b) by lra. destruct (Rlt_le_dec B a) as [A2|A2].
      + rewrite (UL_outside a) by lra. lra.
      + rewrite (UL_inside a) by lra. pose proof (Hle a ltac:(lra)). lra.
    - destruct (Rlt_le_dec B a) as [A2|A2]; [lra|]. destruct (Rlt_le_dec b (- B)) as [B2|B2]; [lra|].
      rewrite !UL_inside by lra. apply Inc; lra.
  Qed.

  Theorem lin_unconstrained_onto y : exists x, UL x = y.
  Proof.
    destruct lin_parts as [_ [_ [_ Onto]]].
    destruct (Rlt_le_dec y (- B)) as [L|L]; [exists y; apply UL_outside; lra|].
    destruct (Rlt_le_dec B y) as [G|G]; [exists y; apply UL_outside; lra|].
    destruct (Onto y ltac:(lra)) as [x [Hx E]]. exists x. rewrite UL_inside by exact Hx. exact E.
  Qed.
End LinTails.
