(* Domain guards of the restricted-domain nonlinearities, and validity of the bin index. *)
From Coq Require Import Reals ZArith List Bool Lra Lia.
From NF Require Import Base.Ops Base.Rops Base.Result Gen.Utils Gen.Nonlin Model.Utils Model.Nonlin.
Import ListNotations.

(* ---- the bin index is in range in ANY carrier (reals, float32, float64, ...): the search only
        counts comparisons, so no magnitude of the knots can push it out of range ---- *)
Section AnyCarrier.
  Context {T : Type} (O : ops T).

  Lemma count_le_len (p : T -> bool) l : (count p l <= length l)%nat.
  Proof. unfold count. induction l as [|a r IH]; cbn; [lia|]. destruct (p a); cbn; lia. Qed.

  Lemma removelast_length (l : list T) : length (removelast l) = (length l - 1)%nat.
  Proof.
    induction l as [|a r IH]; [reflexivity|]. destruct r as [|b r']; [reflexivity|].
    cbn [removelast length] in *. rewrite IH. lia.
  Qed.

  Theorem searchsorted_index_in_range (locs : list T) (x : T) (K : nat) :
    length locs = S K -> (1 <= K)%nat ->
    utils_searchsorted_cmp O x (hd x locs) = true ->     (* x is not below the first edge *)
    (0 <= searchsorted O locs x < Z.of_nat K)%Z.
  Proof.
    intros HL HK H0. unfold searchsorted, searchsorted_locs.
    change utils_searchsorted_bumps_last with false. change utils_searchsorted_drop_last with true.
    change utils_searchsorted_offset with (-1)%Z. cbv iota.
    pose proof (count_le_len (fun l => utils_searchsorted_cmp O x l) (removelast locs)) as Hle.
    rewrite removelast_length, HL in Hle.
    assert (Hge : (1 <= count (fun l => utils_searchsorted_cmp O x l) (removelast locs))%nat).
    { destruct locs as [|a [|b r]]; cbn in HL; try lia. cbn [hd] in H0.
      cbn [removelast]. unfold count. cbn [filter]. rewrite H0. cbn. lia. }
    lia.
  Qed.
End AnyCarrier.

Open Scope R_scope.

(* ---- guards reject exactly the complement of the stated domain ---- *)
Lemma exp_guard x : exp_inv_rejects Rops x x = true <-> x <= 0.
Proof. unfold exp_inv_rejects. cbn [Rops o_leb o_ofZ]. apply Rleb_true. Qed.

Lemma tanh_guard x : tanh_inv_rejects Rops x x = true <-> x <= -1 \/ 1 <= x.
Proof.
  unfold tanh_inv_rejects. cbn [Rops o_leb o_neg o_ofZ]. rewrite orb_true_iff, !Rleb_true.
  change (IZR 1) with 1. replace (- (1)) with (-1) by ring. tauto.
Qed.

Lemma sigmoid_guard x eps T : sigm_inv_rejects Rops x x eps T = true <-> x < 0 \/ 1 < x.
Proof. unfold sigm_inv_rejects. cbn [Rops o_ltb o_ofZ]. rewrite orb_true_iff, !Rltb_true. tauto. Qed.

Lemma cauchy_guard x : cauchy_inv_rejects Rops x x = true <-> x < 0 \/ 1 < x.
Proof. unfold cauchy_inv_rejects. cbn [Rops o_ltb o_ofZ]. rewrite orb_true_iff, !Rltb_true. tauto. Qed.

(* the models return the domain error exactly outside the domain, a value inside *)
Ltac guard_tac lem :=
  unfold exp_t, tanh_t, sigmoid_t, cauchy_t, guarded;
  change guarded_Exp_inverse with true; change guarded_Tanh_inverse with true;
  change guarded_Sigmoid_inverse with true; change guarded_CauchyCDF_inverse with true;
  cbn [andb]; rewrite <- lem;
  match goal with |- context [if ?b then _ else _] => destruct b end; split; intros; try reflexivity; discriminate.

Theorem restricted_domains (x : R) :
  (exp_t Rops true x = OutsideDomain <-> x <= 0) /\
  (tanh_t Rops true x = OutsideDomain <-> x <= -1 \/ 1 <= x) /\
  (forall T eps, sigmoid_t Rops T eps true x = OutsideDomain <-> x < 0 \/ 1 < x) /\
  (cauchy_t Rops true x = OutsideDomain <-> x < 0 \/ 1 < x) /\
  (forall inv', is_ok (exp_t Rops false x) = true /\ is_ok (tanh_t Rops false x) = true /\
                is_ok (cauchy_t Rops false x) = true /\ forall c, is_ok (logtanh_t Rops c inv' x) = true).
Proof.
  split; [guard_tac (exp_guard x)|]. split; [guard_tac (tanh_guard x)|].
  split; [intros T eps; guard_tac (sigmoid_guard x eps T)|]. split; [guard_tac (cauchy_guard x)|].
  intros inv'. repeat split. intros c. unfold logtanh_t. destruct inv';
    repeat match goal with |- context [if ?b then _ else _] => destruct b end; reflexivity.
Qed.

(* the sigmoid inverse clamps to [eps, 1 - eps]: at the end points 0 and 1 both logarithms have a positive argument *)
Lemma sigmoid_inverse_end_points eps y :
  0 < eps -> eps < 1 / 2 -> 0 <= y <= 1 ->
  let c := o_clamp Rops y eps (1 - eps) in eps <= c <= 1 - eps /\ 0 < c /\ 0 < 1 - c.
Proof.
  intros He He2 Hy c. assert (R : eps <= c <= 1 - eps).
  { unfold c, o_clamp, o_min, o_max. cbn [Rops o_leb].
    destruct (Rleb y eps) eqn:E1; [apply Rleb_true in E1 | apply Rleb_false in E1];
      match goal with |- context [Rleb ?a ?b] => destruct (Rleb a b) eqn:E2; [apply Rleb_true in E2 | apply Rleb_false in E2] end;
      lra. }
  split; [exact R | lra].
Qed.
