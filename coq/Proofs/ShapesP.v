From Coq Require Import ZArith List Bool Arith Lia.
From NF Require Import Base.Result Base.PyVal Gen.Typechecks Gen.DistBase Model.Utils Model.Shapes Proofs.UtilsP.
Import ListNotations.

Lemma list_eqb_refl l : list_eqb l l = true.
Proof.
  unfold list_eqb. rewrite Nat.eqb_refl. cbn. induction l as [|a l IH]; cbn; [reflexivity|].
  rewrite Nat.eqb_refl. exact IH.
Qed.

Lemma list_eqb_eq a : forall b, list_eqb a b = true -> a = b.
Proof.
  unfold list_eqb. induction a as [|x a IH]; intros [|y b] H; cbn in H; try discriminate; [reflexivity|].
  apply andb_prop in H. destruct H as [H1 H2]. apply andb_prop in H2. destruct H2 as [H2 H3].
  apply Nat.eqb_eq in H2. subst. f_equal. apply IH. rewrite H3, andb_true_r.
  apply Nat.eqb_eq in H1. apply Nat.eqb_eq. cbn in H1. lia.
Qed.

(* ---- log_prob: one value per input row; mismatching context rows are a ValueError ---- *)
Lemma log_prob_one_per_row ev b rest ctx s :
  log_prob_shape ev (b :: rest) ctx = Ok s -> s = [b] /\ rest = ev.
Proof.
  unfold log_prob_shape. destruct ctx as [[|k r]|]; try discriminate.
  - destruct (dist_logprob_checks_rows && negb (b =? k)); [discriminate|].
    destruct (list_eqb rest ev) eqn:E; [|discriminate]. intros H; inversion H. split; [reflexivity | apply list_eqb_eq; exact E].
  - destruct (list_eqb rest ev) eqn:E; [|discriminate]. intros H; inversion H. split; [reflexivity | apply list_eqb_eq; exact E].
Qed.

Lemma log_prob_ok ev b ctx :
  (match ctx with Some (k :: _) => k = b | Some [] => False | None => True end) ->
  log_prob_shape ev (b :: ev) ctx = Ok [b].
Proof.
  unfold log_prob_shape. rewrite list_eqb_refl. destruct ctx as [[|k r]|]; intros H; try contradiction; [|reflexivity].
  subst. rewrite Nat.eqb_refl. cbn [negb]. rewrite andb_false_r. reflexivity.
Qed.

Lemma log_prob_context_mismatch ev b rest k r :
  b <> k -> log_prob_shape ev (b :: rest) (Some (k :: r)) = ValueErr.
Proof.
  intros H. unfold log_prob_shape, dist_logprob_checks_rows. cbn [andb].
  destruct (Nat.eqb_spec b k); [contradiction | reflexivity].
Qed.

(* ---- sample: argument contract ---- *)
Lemma sample_bad_count ev v ctx bs :
  tc_is_positive_int v = false -> sample_shape ev v ctx bs = TypeErr.
Proof. intros H; unfold sample_shape, dist_sample_checks_count; cbn [andb]; rewrite H; reflexivity. Qed.

Lemma non_positive_or_non_int_rejected ev ctx bs :
  (forall z, (z <= 0)%Z -> sample_shape ev (PInt z) ctx bs = TypeErr) /\
  sample_shape ev PFloat ctx bs = TypeErr /\ sample_shape ev PNone ctx bs = TypeErr /\
  sample_shape ev PStr ctx bs = TypeErr /\ sample_shape ev (PBool false) ctx bs = TypeErr.
Proof.
  repeat split; intros; apply sample_bad_count; try reflexivity.
  unfold tc_is_positive_int, tc_is_int, py_gt. cbn. apply Z.ltb_ge. assumption.
Qed.

Lemma pos_int_ok n : 1 <= n -> tc_is_positive_int (PInt (Z.of_nat n)) = true.
Proof. intros H. apply tc_is_positive_int_spec. lia. Qed.

Lemma sample_unbatched ev n ctx :
  1 <= n -> sample_shape ev (PInt (Z.of_nat n)) ctx None = base_sample_shape ev n ctx.
Proof.
  intros H. unfold sample_shape. rewrite (pos_int_ok n H). cbn [negb andb py_int].
  rewrite andb_false_r, Nat2Z.id. reflexivity.
Qed.

(* ---- batching does not change the shape ---- *)
Lemma collect_repeat {A} (a : A) k : collect (repeat (Ok a) k) = Ok (repeat a k).
Proof. induction k as [|k IH]; cbn; [reflexivity|]. rewrite IH. reflexivity. Qed.

Lemma collect_map_ok {A} (l : list A) : collect (map (@Ok A) l) = Ok l.
Proof. induction l as [|a l IH]; cbn; [reflexivity|]. rewrite IH. reflexivity. Qed.

Lemma collect_app_ok {A} (l1 l2 : list (result A)) a1 a2 :
  collect l1 = Ok a1 -> collect l2 = Ok a2 -> collect (l1 ++ l2) = Ok (a1 ++ a2).
Proof.
  revert a1; induction l1 as [|r l1 IH]; intros a1 H1 H2; cbn in *.
  - inversion H1. exact H2.
  - destruct r; cbn in H1; try discriminate. destruct (collect l1) eqn:E; cbn in H1; try discriminate.
    inversion H1; subst. rewrite (IH a0 eq_refl H2). reflexivity.
Qed.

Lemma sum_dim_repeat dim s k tail :
  fold_right (fun s0 acc => nth dim s0 0 + acc) 0 (repeat s k ++ tail)
  = k * nth dim s 0 + fold_right (fun s0 acc => nth dim s0 0 + acc) 0 tail.
Proof. induction k as [|k IH]; cbn; [reflexivity|]. rewrite IH. lia. Qed.

Lemma forallb_repeat_app {A} (p : A -> bool) a k tail :
  p a = true -> forallb p tail = true -> forallb p (repeat a k ++ tail) = true.
Proof. intros Ha Ht. induction k as [|k IH]; cbn; [exact Ht|]. rewrite Ha, IH. reflexivity. Qed.

(* all batches have shape [.. bs ..], the leftover batch [.. nl ..]; they differ at [dim] only *)
Lemma cat_batches dim (mk : nat -> list nat) bs nb nl :
  (forall v, dim < length (mk v)) ->
  (forall v w, set_nth (mk v) dim 0 = set_nth (mk w) dim 0) ->
  (forall v w, set_nth (mk v) dim w = mk w) ->
  (forall v, nth dim (mk v) 0 = v) ->
  1 <= nb \/ 0 < nl ->
  cat_shapes dim (repeat (mk bs) nb ++ (if Nat.ltb 0 nl then [mk nl] else [])) = Ok (mk (nb * bs + nl)).
Proof.
  intros Hlen Hsame Hset Hnth Hne.
  set (tail := if Nat.ltb 0 nl then [mk nl] else []).
  assert (Ht : fold_right (fun s0 acc => nth dim s0 0 + acc) 0 tail = nl).
  { unfold tail. destruct (Nat.ltb_spec 0 nl); cbn; [rewrite Hnth; lia | lia]. }
  assert (Hall : forall s0, forallb (fun s => list_eqb (set_nth s dim 0) (set_nth s0 dim 0)) tail = true
                            \/ True) by (intros; right; exact I).
  destruct nb as [|nb].
  - destruct Hne as [Hne|Hne]; [lia|]. unfold tail. cbn [repeat app].
    destruct (Nat.ltb_spec 0 nl) as [_|]; [|lia]. unfold cat_shapes.
    destruct (Nat.leb_spec (length (mk nl)) dim) as [Hc|_]; [specialize (Hlen nl); lia|].
    cbn [forallb fold_right]. rewrite Hnth, Hset. f_equal. f_equal. lia.
  - cbn [repeat app]. unfold cat_shapes.
    destruct (Nat.leb_spec (length (mk bs)) dim) as [Hc|_]; [specialize (Hlen bs); lia|].
    rewrite forallb_repeat_app.
    + change (mk bs :: repeat (mk bs) nb ++ tail) with (repeat (mk bs) (S nb) ++ tail).
      rewrite sum_dim_repeat, Ht, Hnth, Hset. reflexivity.
    + apply list_eqb_refl.
    + unfold tail. destruct (Nat.ltb 0 nl); cbn; [|reflexivity]. rewrite (Hsame nl bs), list_eqb_refl. reflexivity.
Qed.

Theorem batched_sampling_keeps_shape ev n bs ctx :
  1 <= n -> 1 <= bs ->
  (match ctx with Some [] => False | _ => True end) ->
  sample_shape ev (PInt (Z.of_nat n)) ctx (Some (PInt (Z.of_nat bs)))
  = sample_shape ev (PInt (Z.of_nat n)) ctx None.
Proof.
  intros Hn Hbs Hctx. rewrite (sample_unbatched ev n ctx Hn).
  unfold sample_shape. rewrite (pos_int_ok n Hn), (pos_int_ok bs Hbs).
  cbn [negb andb py_int]. rewrite andb_false_r, !Nat2Z.id.
  unfold dist_num_batches, dist_num_leftover, dist_cat_dim.
  pose proof (Nat.div_mod n bs ltac:(lia)) as D.
  assert (Hne : 1 <= n / bs \/ 0 < n mod bs).
  { destruct (Nat.eq_dec (n / bs) 0) as [E|E]; [right; rewrite E in D; lia | left; lia]. }
  destruct ctx as [[|k r]|]; [contradiction| |]; cbn [base_sample_shape is_some].
  - (* with a context: [k; . ; ev], batches extend dim 1 *)
    set (mk := fun v => k :: v :: ev).
    replace (if 0 <? n mod bs then [Ok (k :: n mod bs :: ev)] else [])
      with (map (@Ok (list nat)) (if 0 <? n mod bs then [mk (n mod bs)] else []))
      by (destruct (0 <? n mod bs); reflexivity).
    rewrite (collect_app_ok _ _ _ _ (collect_repeat _ _) (collect_map_ok _)).
    cbn [rbind]. change (k :: bs :: ev) with (mk bs).
    rewrite (cat_batches 1 mk bs (n / bs) (n mod bs)); try (intros; reflexivity); try exact Hne.
    + unfold mk. f_equal. f_equal. f_equal. lia.
    + intros v. unfold mk. cbn. lia.
  - set (mk := fun v => v :: ev).
    replace (if 0 <? n mod bs then [Ok (n mod bs :: ev)] else [])
      with (map (@Ok (list nat)) (if 0 <? n mod bs then [mk (n mod bs)] else []))
      by (destruct (0 <? n mod bs); reflexivity).
    rewrite (collect_app_ok _ _ _ _ (collect_repeat _ _) (collect_map_ok _)).
    cbn [rbind]. change (bs :: ev) with (mk bs).
    rewrite (cat_batches 0 mk bs (n / bs) (n mod bs)); try (intros; reflexivity); try exact Hne.
    + unfold mk. f_equal. f_equal. lia.
    + intros v. unfold mk. cbn. lia.
Qed.

(* ---- merge / split of the two leading dims at shape level ---- *)
Lemma merge2_shape k n rest :
  shape_of (merge_leading_dims (sh (k :: n :: rest)) (PInt 2)) = Ok (k * n :: rest).
Proof.
  unfold shape_of, merge_leading_dims, sh. change (tc_is_positive_int (PInt 2)) with true.
  cbn [negb shape data py_int]. change (Z.to_nat 2) with 2.
  cbn [length Nat.ltb Nat.leb firstn skipn rmap rbind]. unfold prod. cbn [fold_right]. rewrite Nat.mul_1_r. reflexivity.
Qed.

Lemma split_minus1_shape k n rest :
  1 <= n -> shape_of (split_leading_dim (sh (k * n :: rest)) [(-1)%Z; Z.of_nat n]) = Ok (k :: n :: rest).
Proof.
  intros Hn. unfold shape_of, split_leading_dim, sh. cbn [shape data rbind rmap].
  unfold infer_shape. cbn [existsb]. 
  destruct (Z.ltb_spec (Z.of_nat n) (-1)) as [H|_]; [lia|]. cbn [orb].
  unfold count_neg, zprod_pos. cbn [filter].
  destruct (Z.ltb_spec (Z.of_nat n) 0) as [H|_]; [lia|].
  destruct (Z.leb_spec 0 (Z.of_nat n)) as [_|H]; [|lia].
  cbn [Z.ltb Z.leb Z.compare length map fold_right]. rewrite Nat2Z.id, Nat.mul_1_r.
  destruct (Nat.eqb_spec n 0) as [E|_]; [lia|].
  rewrite Nat.mod_mul by lia. cbn [Nat.eqb rbind rmap map]. rewrite Nat.div_mul by lia.
  destruct (Z.ltb_spec (Z.of_nat n) 0) as [H|_]; [lia|]. reflexivity.
Qed.

Lemma repeat_rows_shape k r n :
  1 <= n -> shape_of (repeat_rows (sh (k :: r)) (PInt (Z.of_nat n))) = Ok (k * n :: r).
Proof.
  intros Hn. unfold shape_of, repeat_rows, sh. rewrite (pos_int_ok n Hn). cbn [negb shape py_int].
  rewrite Nat2Z.id. unfold merge_leading_dims. change (tc_is_positive_int (PInt 2)) with true.
  cbn [negb shape data py_int]. change (Z.to_nat 2) with 2.
  cbn [length Nat.ltb Nat.leb firstn skipn rmap rbind]. unfold prod. cbn [fold_right]. rewrite Nat.mul_1_r. reflexivity.
Qed.

(* sample_and_log_prob returns matching shapes: [n; ev] / [n] without context,
   [rows; n; ev] / [rows; n] with a context of `rows` rows *)
Theorem sample_and_log_prob_shapes ev n :
  1 <= n ->
  sample_and_log_prob_shape ev (PInt (Z.of_nat n)) None = Ok (n :: ev, [n]) /\
  forall k r, sample_and_log_prob_shape ev (PInt (Z.of_nat n)) (Some (k :: r)) = Ok (k :: n :: ev, [k; n]).
Proof.
  intros Hn. split.
  - unfold sample_and_log_prob_shape. rewrite (sample_unbatched ev n None Hn). cbn [base_sample_shape rbind].
    rewrite (log_prob_ok ev n None I). reflexivity.
  - intros k r. unfold sample_and_log_prob_shape. rewrite (sample_unbatched ev n _ Hn). cbn [base_sample_shape rbind].
    rewrite merge2_shape. cbn [rbind]. rewrite (repeat_rows_shape k r n Hn). cbn [rbind].
    rewrite (log_prob_ok ev (k * n) (Some (k * n :: r)) eq_refl). cbn [rbind py_int].
    rewrite (split_minus1_shape k n ev Hn). cbn [rbind]. rewrite (split_minus1_shape k n [] Hn). reflexivity.
Qed.

(* a flow's _sample has the shape of its base distribution's _sample *)
Theorem flow_sample_shape_eq ev n ctx :
  1 <= n -> (match ctx with Some [] => False | _ => True end) ->
  flow_sample_shape ev n ctx = base_sample_shape ev n ctx.
Proof.
  intros Hn Hc. unfold flow_sample_shape. destruct ctx as [[|k r]|]; [contradiction| |reflexivity].
  cbn [base_sample_shape rbind]. rewrite merge2_shape. cbn [rbind]. apply split_minus1_shape; exact Hn.
Qed.
