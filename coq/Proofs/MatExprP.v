(* Meaning of the generated matrix expression trees (Gen/LinearFamily.v) over mathcomp matrices on R, and the theorems of C11
   about them: for every size n, the regenerated weight_inverse() inverts the regenerated weight(), forward_no_cache is
   x |-> W x + b row by row, inverse_no_cache undoes it, and the log-abs-det expressions are +/- log |det W|. *)
From Coq Require Import Reals.
From mathcomp Require Import all_ssreflect all_fingroup all_algebra.
From NF Require Import Base.Rstruct Base.Rfield Model.MatExpr Gen.LinearFamily Proofs.DetP.
Set Implicit Arguments. Unset Strict Implicit. Unset Printing Implicit Defensive.
Import GRing.Theory.
Local Open Scope ring_scope.

Section Eval.
  Variable n : nat.
  (* what the constructors build (their shape is tied to the code by the list-of-rows correspondence): L, U, the diagonal d of
     the SVD parameterisation, NaiveLinear's W, the two Householder products Q1, Q2, and the bias *)
  Variables (L U W Q1 Q2 : 'M[R]_n) (d b : 'rV[R]_n).

  (* torch.linalg.solve_triangular reads one triangle of its first argument, and ones on the diagonal if unitriangular *)
  Definition tri (upper unit : bool) (A : 'M[R]_n) : 'M[R]_n :=
    \matrix_(i, j) if i == j then (if unit then 1 else A i j)
                   else if (if upper then (i < j)%N else (j < i)%N) then A i j else 0.
  Definition rows_of (v : 'rV[R]_n) : 'M[R]_n := \matrix_(i, j) v 0 j.
  Definition dvec (reciprocal : bool) : 'rV[R]_n := if reciprocal then map_mx (fun x : R => x^-1) d else d.
  Definition Qk (k : nat) : 'M[R]_n := if k == 1%N then Q1 else Q2.

  (* a batch is the matrix of its rows; a transform acting on rows x |-> M x acts on the batch as X |-> X M^T *)
  Fixpoint eval (X : 'M[R]_n) (e : mexpr) : 'M[R]_n :=
    match e with
    | EIn => X | ELower => L | EUpper => U | EW => W
    | EDiag r => diag_mx (dvec r)
    | EEye => 1%:M
    | EMul a c => eval X a *m eval X c
    | ETr a => (eval X a)^T
    | ESolve up un a c => invmx (tri up un (eval X a)) *m eval X c
    | EInv a => invmx (eval X a)
    | ELuSolve a c => invmx (eval X a) *m eval X c
    | ELinear x m bias => eval X x *m (eval X m)^T + (if bias then rows_of b else 0)
    | EOrth k inv x => eval X x *m (if inv then Qk k else (Qk k)^T)
    | EBias sub x => if sub then eval X x - rows_of b else eval X x + rows_of b
    | EScale dv x => eval X x *m diag_mx (dvec dv)
    end.

  (* scalars: [dg] is the diagonal whose logs logabsdet() sums (U's for LU and QR, d for SVD) *)
  Variable lad_expr : sexpr.     (* the class's own logabsdet() *)
  Variable dg : 'I_n -> R.
  Fixpoint seval_raw (fuel : nat) (s : sexpr) : R :=
    match fuel with
    | O => 0
    | S f =>
      match s with
      | SSumLogDiag => \sum_(i < n) ln (dg i)
      | SSlogdetW | SSumLogAbsDiagLU => ln (Rabs (\det W))     (* torch.slogdet / LU-diagonal contract *)
      | SNeg t => - seval_raw f t
      | SLogAbsDet => seval_raw f lad_expr
      end
    end.
  Definition seval := seval_raw 6.
End Eval.

(* ---------------------------------------------------------------- LU *)
Section LU.
  Variable n : nat.
  Variables (L U : 'M[R]_n) (b : 'rV[R]_n).
  Hypothesis L_lower : forall i j : 'I_n, (i < j)%N -> L i j = 0.
  Hypothesis L_unit : forall i, L i i = 1.
  Hypothesis U_upper : forall i j : 'I_n, (j < i)%N -> U i j = 0.
  Hypothesis U_diag_pos : forall i, Rlt 0%R (U i i).
  Notation ev := (eval L U 0 0 0 0 b).

  Lemma tri_L : tri false true L = L.
  Proof.
    apply/matrixP => i j. rewrite mxE. case: eqP => [->|/eqP ne]; first by rewrite L_unit.
    case: ltnP => // le. rewrite L_lower //. by rewrite ltn_neqAle ne le.
  Qed.

  Lemma tri_U : tri true false U = U.
  Proof.
    apply/matrixP => i j. rewrite mxE. case: eqP => [->|/eqP ne] //.
    case: ltnP => // le. rewrite U_upper //. by rewrite ltn_neqAle eq_sym ne le.
  Qed.

  Lemma detL : \det L = 1.
  Proof. rewrite (det_lower_triangular L_lower). by rewrite (eq_bigr (fun _ => 1)) ?prodr_const ?expr1n // => i _; exact: L_unit. Qed.

  Lemma unitL : L \in unitmx.
  Proof. by rewrite unitmxE detL unitr1. Qed.

  Lemma unitU : U \in unitmx.
  Proof.
    rewrite unitmxE unitrR. have [P _] := logdet_triangular (or_intror U_upper) U_diag_pos.
    apply/eqP => E. rewrite E in P. exact: (Rlt_irrefl _ P).
  Qed.

  Theorem lu_weight_is_LU X : ev X lu_weight = L *m U.
  Proof. by []. Qed.

  Theorem lu_weight_inverse_inverts X : ev X lu_weight_inverse *m ev X lu_weight = 1%:M.
  Proof.
    rewrite /= tri_L tri_U mulmx1. by rewrite mulmxA -(mulmxA (invmx U)) (mulVmx unitL) mulmx1 (mulVmx unitU).
  Qed.

  Theorem lu_forward_is_affine X : ev X lu_forward_no_cache.1 = X *m (L *m U)^T + rows_of b.
  Proof. by rewrite /= addr0 trmx_mul mulmxA. Qed.

  Theorem lu_inverse_undoes_forward X : ev (ev X lu_forward_no_cache.1) lu_inverse_no_cache.1 = X.
  Proof.
    rewrite /= addr0 tri_L tri_U addrK.
    rewrite [(X *m U^T *m L^T)^T]trmx_mul [(X *m U^T)^T]trmx_mul !trmxK.
    by rewrite (mulmxA (invmx L)) (mulVmx unitL) mul1mx (mulmxA (invmx U)) (mulVmx unitU) mul1mx trmxK.
  Qed.
End LU.

Section LUlogdet.
  Variable n : nat.
  Variables (L U : 'M[R]_n) (b : 'rV[R]_n).
  Hypothesis L_lower : forall i j : 'I_n, (i < j)%N -> L i j = 0.
  Hypothesis L_unit : forall i, L i i = 1.
  Hypothesis U_upper : forall i j : 'I_n, (j < i)%N -> U i j = 0.
  Hypothesis U_diag_pos : forall i, Rlt 0%R (U i i).
  Notation sv := (seval (0 : 'M[R]_n) lu_logabsdet (fun i => U i i)).

  Theorem lu_logabsdet_is_log_det X :
    sv lu_logabsdet = ln (Rabs (\det (eval L U 0 0 0 0 b X lu_weight))) /\
    sv lu_forward_no_cache.2 = sv lu_logabsdet /\ sv lu_inverse_no_cache.2 = - sv lu_logabsdet.
  Proof.
    split; last by [].
    rewrite /= det_mulmx (detL L_lower L_unit) mul1r.
    by have [_ ->] := logdet_triangular (or_intror U_upper) U_diag_pos.
  Qed.
End LUlogdet.

(* ---------------------------------------------------------------- QR *)
Section QR.
  Variable n : nat.
  Variables (U Q : 'M[R]_n) (b : 'rV[R]_n).
  Hypothesis U_upper : forall i j : 'I_n, (j < i)%N -> U i j = 0.
  Hypothesis U_diag_pos : forall i, Rlt 0%R (U i i).
  Hypothesis Q_orth : Q^T *m Q = 1%:M.
  Notation ev := (eval 0 U 0 Q 0 0 b).
  Notation sv := (seval (0 : 'M[R]_n) qr_logabsdet (fun i => U i i)).

  Lemma QQt : Q *m Q^T = 1%:M.
  Proof. exact: (mulmx1C Q_orth). Qed.

  Lemma unitU' : U \in unitmx.
  Proof.
    rewrite unitmxE unitrR. have [P _] := logdet_triangular (or_intror U_upper) U_diag_pos.
    apply/eqP => E. rewrite E in P. exact: (Rlt_irrefl _ P).
  Qed.

  Lemma tri_U' : tri true false U = U.
  Proof.
    apply/matrixP => i j. rewrite mxE. case: eqP => [->|/eqP ne] //.
    case: ltnP => // le. rewrite U_upper //. by rewrite ltn_neqAle eq_sym ne le.
  Qed.

  Theorem qr_weight_is_QU X : ev X qr_weight = Q *m U.
  Proof. by rewrite /= trmx_mul !trmxK. Qed.

  Theorem qr_weight_inverse_inverts X : ev X qr_weight_inverse *m ev X qr_weight = 1%:M.
  Proof.
    rewrite qr_weight_is_QU /= tri_U' mulmx1.
    by rewrite -mulmxA (mulmxA Q^T) Q_orth mul1mx (mulVmx unitU').
  Qed.

  Theorem qr_forward_is_affine X : ev X qr_forward_no_cache.1 = X *m (Q *m U)^T + rows_of b.
  Proof. by rewrite /= addr0 trmx_mul mulmxA. Qed.

  Theorem qr_inverse_undoes_forward X : ev (ev X qr_forward_no_cache.1) qr_inverse_no_cache.1 = X.
  Proof.
    rewrite /= addr0 tri_U' addrK.
    rewrite -(mulmxA (X *m U^T)) Q_orth mulmx1.
    by rewrite [(X *m U^T)^T]trmx_mul trmxK (mulmxA (invmx U)) (mulVmx unitU') mul1mx trmxK.
  Qed.

  Theorem qr_logabsdet_is_log_det X :
    sv qr_logabsdet = ln (Rabs (\det (ev X qr_weight))) /\
    sv qr_forward_no_cache.2 = sv qr_logabsdet /\ sv qr_inverse_no_cache.2 = - sv qr_logabsdet.
  Proof.
    split; last by []. rewrite qr_weight_is_QU /=.
    have HQ : \det Q * \det Q = 1 by rewrite -{1}det_tr -det_mulmx Q_orth det1.
    have Hd' : Rmult (\det Q) (\det Q) = 1%R by exact: HQ.
    have A : Rmult (Rabs (\det Q)) (Rabs (\det Q)) = 1%R by rewrite -Rabs_mult Hd' Rabs_R1.
    have AQ : Rabs (\det Q) = 1%R.
    { apply: Rsqr_inj; [exact: Rabs_pos | exact: Rle_0_1 | by rewrite /Rsqr A Rmult_1_r]. }
    have [PR ER] := logdet_triangular (or_intror U_upper) U_diag_pos.
    rewrite det_mulmx. have -> : Rabs (\det Q * \det U) = Rmult (Rabs (\det Q)) (Rabs (\det U)) by exact: Rabs_mult.
    by rewrite AQ Rmult_1_l ER.
  Qed.
End QR.

(* ---------------------------------------------------------------- SVD *)
Section SVD.
  Variable n : nat.
  Variables (Q1 Q2 : 'M[R]_n) (d b : 'rV[R]_n).
  Hypothesis d_pos : forall i, Rlt 0%R (d 0 i).
  Hypothesis Q1_orth : Q1^T *m Q1 = 1%:M.
  Hypothesis Q2_orth : Q2^T *m Q2 = 1%:M.
  Notation ev := (eval 0 0 0 Q1 Q2 d b).
  Notation sv := (seval (0 : 'M[R]_n) svd_logabsdet (fun i => d 0 i)).
  Let D := diag_mx d.
  Let Di := diag_mx (map_mx (fun x : R => x^-1) d).

  Lemma d_unit i : d 0 i \is a GRing.unit.
  Proof. rewrite unitrR. apply/eqP => E. have := d_pos i. rewrite E. exact: Rlt_irrefl. Qed.

  Lemma DiD : Di *m D = 1%:M.
  Proof.
    rewrite /Di /D mul_diag_mx. apply/matrixP => i j. rewrite !mxE. case: eqP => [->|ne].
    - by rewrite !mulr1n mulVr // d_unit.
    - by rewrite !mulr0n mulr0.
  Qed.

  Lemma DDi : D *m Di = 1%:M.
  Proof. exact: (mulmx1C DiD). Qed.

  Lemma Q1Q1t : Q1 *m Q1^T = 1%:M. Proof. exact: (mulmx1C Q1_orth). Qed.
  Lemma Q2Q2t : Q2 *m Q2^T = 1%:M. Proof. exact: (mulmx1C Q2_orth). Qed.

  Theorem svd_weight_is_Q1DQ2 X : ev X svd_weight = Q1 *m D *m Q2.
  Proof. by rewrite /= /Qk /= trmx_mul !trmxK mulmxA. Qed.

  Theorem svd_weight_inverse_inverts X : ev X svd_weight_inverse *m ev X svd_weight = 1%:M.
  Proof.
    rewrite svd_weight_is_Q1DQ2 /= /Qk /= trmx_mul !trmxK -/Di.
    rewrite -!mulmxA (mulmxA Q1^T) Q1_orth mul1mx (mulmxA Di) DiD mul1mx. exact: Q2_orth.
  Qed.

  Theorem svd_forward_is_affine X : ev X svd_forward_no_cache.1 = X *m (Q1 *m D *m Q2)^T + rows_of b.
  Proof. by rewrite /= /Qk /= !trmx_mul tr_diag_mx !mulmxA. Qed.

  Theorem svd_inverse_undoes_forward X : ev (ev X svd_forward_no_cache.1) svd_inverse_no_cache.1 = X.
  Proof.
    rewrite /= /Qk /= addrK -/D -/Di.
    rewrite -(mulmxA _ Q1^T Q1) Q1_orth mulmx1 -(mulmxA _ D Di) DDi mulmx1 -mulmxA. by rewrite (mulmx1C Q2Q2t) mulmx1.
  Qed.

  Theorem svd_logabsdet_is_log_det X :
    sv svd_logabsdet = ln (Rabs (\det (ev X svd_weight))) /\
    sv svd_forward_no_cache.2 = sv svd_logabsdet /\ sv svd_inverse_no_cache.2 = - sv svd_logabsdet.
  Proof.
    split; last by []. rewrite svd_weight_is_Q1DQ2 /=.
    have absdet1 (Q : 'M[R]_n) : Q^T *m Q = 1%:M -> Rabs (\det Q) = 1%R.
    { move=> HQo. have HQ : \det Q * \det Q = 1 by rewrite -{1}det_tr -det_mulmx HQo det1.
      have Hd' : Rmult (\det Q) (\det Q) = 1%R by exact: HQ.
      have A : Rmult (Rabs (\det Q)) (Rabs (\det Q)) = 1%R by rewrite -Rabs_mult Hd' Rabs_R1.
      apply: Rsqr_inj; [exact: Rabs_pos | exact: Rle_0_1 | by rewrite /Rsqr A Rmult_1_r]. }
    rewrite !det_mulmx.
    have -> : Rabs (\det Q1 * \det D * \det Q2) = Rmult (Rmult (Rabs (\det Q1)) (Rabs (\det D))) (Rabs (\det Q2)).
    { by rewrite -!Rabs_mult. }
    rewrite (absdet1 _ Q1_orth) (absdet1 _ Q2_orth) Rmult_1_l Rmult_1_r.
    rewrite /D det_diag.
    have Ppos : Rlt 0%R (\prod_(i < n) d 0 i) by apply: prod_pos.
    rewrite Rabs_right; last by apply: Rle_ge; apply: Rlt_le.
    by rewrite ln_prod.
  Qed.
End SVD.

(* ---------------------------------------------------------------- NaiveLinear *)
Section Naive.
  Variable n : nat.
  Variables (W : 'M[R]_n) (b : 'rV[R]_n).
  Hypothesis W_unit : W \in unitmx.
  Notation ev := (eval 0 0 W 0 0 0 b).
  Notation sv := (seval W naive_logabsdet (fun _ => 0)).

  Theorem naive_weight_inverse_inverts X : ev X naive_weight_inverse *m ev X naive_weight = 1%:M.
  Proof. by rewrite /= (mulVmx W_unit). Qed.

  Theorem naive_forward_is_affine X : ev X naive_forward_no_cache.1 = X *m W^T + rows_of b.
  Proof. by []. Qed.

  Theorem naive_inverse_undoes_forward X : ev (ev X naive_forward_no_cache.1) naive_inverse_no_cache.1 = X.
  Proof. by rewrite /= addrK [(X *m W^T)^T]trmx_mul trmxK (mulmxA (invmx W)) (mulVmx W_unit) mul1mx trmxK. Qed.

  (* every log-abs-det the class returns is +log|det W| on the forward side and -log|det W| on the inverse side; in particular
     the pair returned by weight_inverse_and_logabsdet() (which fills the cache) carries the FORWARD log-abs-det *)
  Theorem naive_logabsdets X :
    sv naive_logabsdet = ln (Rabs (\det (ev X naive_weight))) /\
    sv naive_forward_no_cache.2 = sv naive_logabsdet /\ sv naive_inverse_no_cache.2 = - sv naive_logabsdet /\
    sv naive_weight_inverse_and_logabsdet.2 = sv naive_logabsdet /\
    ev X naive_weight_inverse_and_logabsdet.1 = ev X naive_weight_inverse.
  Proof. by []. Qed.
End Naive.
