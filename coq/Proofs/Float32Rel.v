(* A small relative-error calculus over the single-precision dictionary [Fops32] (Proofs/Float32P.v) and, with it, a forward error
   bound for BatchNorm's evaluation-mode forward map as regenerated:
       weight * ((x - mean) / sqrt(var + eps)) + bias          six rounded operations, a square root and a division among them.
   In float32 the result differs from the exact value by at most  7 u |weight (x - mean) / sqrt(var + eps)| + u (1 + 7 u) ... ,
   precisely:  <= 7 u |M| (1 + u) + u |bias|   with  M  the exact main term and  u = 2^-24,  whenever no intermediate result is
   subnormal.  (The subtraction x - mean is where cancellation lives: the bound is relative to the exact difference, so it is
   single-precision accuracy scaled by the conditioning of the map, which is what the property asks.) *)
From Coq Require Import Reals ZArith Lra Psatz.
From Flocq Require Import Core Relative.
From NF Require Import Base.Ops Base.Rops Gen.Norm Proofs.Float32P.
Open Scope R_scope.

Definition rel (a' a e : R) : Prop := Rabs (a' - a) <= e * Rabs a.

Lemma u32_pos : 0 < u32. Proof. rewrite u32_val. lra. Qed.
Lemma u32_small : u32 <= / 1000000. Proof. rewrite u32_val. lra. Qed.

Lemma rel_exact a : rel a a 0.
Proof. unfold rel. replace (a - a) with 0 by ring. rewrite Rabs_R0. lra. Qed.

Lemma rel_abs_upper a' a e : 0 <= e -> rel a' a e -> Rabs a' <= (1 + e) * Rabs a.
Proof.
  intros He H. unfold rel in H. replace a' with (a + (a' - a)) by ring. eapply Rle_trans; [apply Rabs_triang|]. lra.
Qed.

Lemma rel_rnd a' a e : 0 <= e -> tiny32 <= Rabs a' -> rel a' a e -> rel (rnd32 a') a (e + u32 + e * u32).
Proof.
  intros He Ht H. pose proof (rnd32_rel a' Ht) as R. pose proof (rel_abs_upper a' a e He H) as U. unfold rel in *.
  pose proof u32_pos as Up. pose proof (Rabs_pos a) as Pa.
  replace (rnd32 a' - a) with ((rnd32 a' - a') + (a' - a)) by ring. eapply Rle_trans; [apply Rabs_triang|].
  assert (u32 * Rabs a' <= u32 * ((1 + e) * Rabs a)) by (apply Rmult_le_compat_l; lra). nra.
Qed.

Lemma rel_mul a' a b' b ea eb : 0 <= ea -> 0 <= eb -> rel a' a ea -> rel b' b eb -> rel (a' * b') (a * b) (ea + eb + ea * eb).
Proof.
  intros Ha Hb A B. unfold rel in *.
  replace (a' * b' - a * b) with ((a' - a) * b + a * (b' - b) + (a' - a) * (b' - b)) by ring.
  eapply Rle_trans; [apply Rabs_triang|]. eapply Rle_trans; [apply Rplus_le_compat_r; apply Rabs_triang|].
  rewrite !Rabs_mult. pose proof (Rabs_pos a). pose proof (Rabs_pos b). pose proof (Rabs_pos (a' - a)). pose proof (Rabs_pos (b' - b)).
  assert (Rabs (a' - a) * Rabs (b' - b) <= (ea * Rabs a) * (eb * Rabs b)) by (apply Rmult_le_compat; lra).
  assert (Rabs (a' - a) * Rabs b <= ea * Rabs a * Rabs b) by (apply Rmult_le_compat_r; lra).
  assert (Rabs a * Rabs (b' - b) <= Rabs a * (eb * Rabs b)) by (apply Rmult_le_compat_l; lra).
  nra.
Qed.

(* the reciprocal of a perturbed non-zero number *)
Lemma rel_inv b' b e : 0 <= e -> e < 1 -> b <> 0 -> rel b' b e -> b' <> 0 /\ rel (/ b') (/ b) (e / (1 - e)).
Proof.
  intros He He1 Hb B. unfold rel in *.
  assert (Pb : 0 < Rabs b) by (apply Rabs_pos_lt; exact Hb).
  assert (L : (1 - e) * Rabs b <= Rabs b').
  { assert (T : Rabs b <= Rabs b' + Rabs (b' - b)).
    { replace b with (b' + - (b' - b)) at 1 by ring. eapply Rle_trans; [apply Rabs_triang|]. rewrite Rabs_Ropp. lra. }
    nra. }
  assert (Pb' : 0 < Rabs b') by nra.
  assert (Hb' : b' <> 0) by (intro Z; rewrite Z, Rabs_R0 in Pb'; lra).
  split; [exact Hb'|].
  replace (/ b' - / b) with (- (b' - b) * (/ b' * / b)) by (field; split; assumption).
  rewrite !Rabs_mult, Rabs_Ropp, !Rabs_inv.
  assert (I1 : / Rabs b' <= / ((1 - e) * Rabs b)) by (apply Rinv_le_contravar; nra).
  rewrite Rinv_mult in I1.
  assert (P1 : 0 < / Rabs b) by (apply Rinv_0_lt_compat; exact Pb).
  assert (P2 : 0 < / (1 - e)) by (apply Rinv_0_lt_compat; lra).
  assert (P3 : 0 < / Rabs b') by (apply Rinv_0_lt_compat; exact Pb').
  assert (S1 : Rabs (b' - b) * (/ Rabs b' * / Rabs b) <= (e * Rabs b) * ((/ (1 - e) * / Rabs b) * / Rabs b)).
  { apply Rmult_le_compat; [apply Rabs_pos | nra | exact B |]. apply Rmult_le_compat_r; lra. }
  eapply Rle_trans; [exact S1|]. right. unfold Rdiv. field. split; lra.
Qed.

Lemma rel_div a' a b' b ea eb : 0 <= ea -> 0 <= eb -> eb < 1 -> b <> 0 -> rel a' a ea -> rel b' b eb ->
  rel (a' / b') (a / b) (ea + eb / (1 - eb) + ea * (eb / (1 - eb))).
Proof.
  intros Ha Hb Hb1 Hnz A B. destruct (rel_inv b' b eb Hb Hb1 Hnz B) as [_ I]. unfold Rdiv at 1 2.
  apply rel_mul; try assumption. apply Rmult_le_pos; [exact Hb | left; apply Rinv_0_lt_compat; lra].
Qed.

Lemma rel_sqrt a' a e : 0 <= e -> 0 < a -> 0 <= a' -> rel a' a e -> rel (sqrt a') (sqrt a) e.
Proof.
  intros He Pa Pa' A. unfold rel in *. rewrite (Rabs_pos_eq a) in A by lra.
  assert (Ps : 0 < sqrt a) by (apply sqrt_lt_R0; exact Pa). pose proof (sqrt_pos a') as Ps'.
  rewrite (Rabs_pos_eq (sqrt a)) by lra.
  assert (Eq : (sqrt a' - sqrt a) * (sqrt a' + sqrt a) = a' - a).
  { replace ((sqrt a' - sqrt a) * (sqrt a' + sqrt a)) with (sqrt a' * sqrt a' - sqrt a * sqrt a) by ring. rewrite !sqrt_sqrt by lra. ring. }
  assert (Ab : Rabs (sqrt a' - sqrt a) * (sqrt a' + sqrt a) = Rabs (a' - a)).
  { rewrite <- Eq, Rabs_mult, (Rabs_pos_eq (sqrt a' + sqrt a)) by lra. reflexivity. }
  assert (Sa : sqrt a * sqrt a = a) by (apply sqrt_sqrt; lra).
  pose proof (Rabs_pos (sqrt a' - sqrt a)) as P.
  (* |D| (s' + s) <= e s s  and  s' >= 0  give  |D| <= e s *)
  destruct (Rle_or_lt (Rabs (sqrt a' - sqrt a)) (e * sqrt a)) as [Ok|Bad]; [exact Ok|exfalso].
  assert (e * sqrt a * (sqrt a' + sqrt a) < Rabs (sqrt a' - sqrt a) * (sqrt a' + sqrt a)) by (apply Rmult_lt_compat_r; lra).
  nra.
Qed.

(* ---- BatchNorm, evaluation mode, forward ---- *)
(* torch's vectorised float32 square root is faithfully, not always correctly, rounded (the correspondence run found an input where
   it returns the other neighbour of the exact root).  The dictionary is therefore taken with ANY square root [sq] that is within
   2u of the exact one - which covers every faithful rounding - instead of the correctly rounded idealisation of [Fops32]. *)
Definition Fops32_sqrt (sq : R -> R) : ops R := {|
  o_zero := o_zero Fops32; o_one := o_one Fops32; o_pi := o_pi Fops32;
  o_add := o_add Fops32; o_sub := o_sub Fops32; o_mul := o_mul Fops32; o_div := o_div Fops32;
  o_neg := o_neg Fops32; o_abs := o_abs Fops32;
  o_exp := o_exp Fops32; o_ln := o_ln Fops32; o_sqrt := sq;
  o_tanh := o_tanh Fops32; o_atan := o_atan Fops32; o_tan := o_tan Fops32; o_cos := o_cos Fops32; o_sin := o_sin Fops32;
  o_atan2 := o_atan2 Fops32; o_leb := o_leb Fops32; o_ltb := o_ltb Fops32; o_floor := o_floor Fops32; o_ofZ := o_ofZ Fops32
|}.

Section BatchNormForward.
  Variables (sq : R -> R) (w b eps x m v : R).
  Hypothesis (Hsq : forall a, 0 <= a -> Rabs (sq a - sqrt a) <= 2 * u32 * sqrt a).
  Hypothesis (Hv : 0 < v + eps).
  Let d0 := x - m.
  Let s0 := v + eps.
  Let d := rnd32 d0.
  Let s1 := rnd32 s0.
  Let s2 := sq s1.
  Let q := rnd32 (d / s2).
  Let p := rnd32 (w * q).
  (* no intermediate result is subnormal *)
  Hypothesis (N1 : tiny32 <= Rabs d0) (N2 : tiny32 <= Rabs s0) (N4 : tiny32 <= Rabs (d / s2))
             (N5 : tiny32 <= Rabs (w * q)) (N6 : tiny32 <= Rabs (p + b)).
  Let M := w * (d0 / sqrt s0).

  Lemma bn_unfold : bn_forward_out (Fops32_sqrt sq) w b eps x m v = rnd32 (p + b).
  Proof. unfold bn_forward_out. cbn [o_add o_mul o_div o_sub o_sqrt Fops32_sqrt Fops32]. reflexivity. Qed.

  Lemma bn_exact : bn_forward_out Rops w b eps x m v = M + b.
  Proof. unfold bn_forward_out. cbn [o_add o_mul o_div o_sub o_sqrt Rops]. reflexivity. Qed.

  Lemma s1_nonneg : 0 <= s1.
  Proof.
    unfold s1, rnd32. rewrite <- (round_0 radix2 (FLT_exp (-149) 24) ZnearestE).
    apply round_le; [apply FLT_exp_valid; reflexivity | apply valid_rnd_N | unfold s0; lra].
  Qed.

  Theorem bn_main_term_rel : rel p M (8 * u32).
  Proof.
    pose proof u32_pos as Up. pose proof u32_small as Us.
    assert (Rd : rel d d0 u32).
    { pose proof (rel_rnd d0 d0 0 (Rle_refl 0) N1 (rel_exact d0)) as H. replace (0 + u32 + 0 * u32) with u32 in H by ring. exact H. }
    assert (Rs1 : rel s1 s0 u32).
    { pose proof (rel_rnd s0 s0 0 (Rle_refl 0) N2 (rel_exact s0)) as H. replace (0 + u32 + 0 * u32) with u32 in H by ring. exact H. }
    assert (Rsq : rel (sqrt s1) (sqrt s0) u32) by (apply rel_sqrt; [lra | exact Hv | apply s1_nonneg | exact Rs1]).
    set (e2 := 3 * u32 + 2 * u32 * u32).
    assert (Rs2 : rel s2 (sqrt s0) e2).
    { unfold rel in *. pose proof (Hsq s1 s1_nonneg) as Hq. fold s2 in Hq.
      assert (P0 : 0 < sqrt s0) by (apply sqrt_lt_R0; exact Hv).
      rewrite (Rabs_pos_eq (sqrt s0)) in * by lra.
      assert (Ub : sqrt s1 <= (1 + u32) * sqrt s0).
      { pose proof (sqrt_pos s1). replace (sqrt s1) with (sqrt s0 + (sqrt s1 - sqrt s0)) by ring.
        pose proof (Rle_abs (sqrt s1 - sqrt s0)). lra. }
      replace (s2 - sqrt s0) with ((s2 - sqrt s1) + (sqrt s1 - sqrt s0)) by ring. eapply Rle_trans; [apply Rabs_triang|].
      unfold e2. nra. }
    assert (E2 : 0 <= e2 /\ e2 <= 4 * u32) by (unfold e2; split; nra).
    assert (Hs0 : sqrt s0 <> 0) by (apply Rgt_not_eq; apply sqrt_lt_R0; exact Hv).
    assert (Rq0 : rel (d / s2) (d0 / sqrt s0) (u32 + e2 / (1 - e2) + u32 * (e2 / (1 - e2)))).
    { apply rel_div; try lra; assumption. }
    set (e3 := u32 + e2 / (1 - e2) + u32 * (e2 / (1 - e2))) in *.
    assert (F : e2 / (1 - e2) <= 4 * u32 + 20 * u32 * u32).
    { apply (Rmult_le_reg_r (1 - e2)); [lra|]. unfold Rdiv. rewrite Rmult_assoc, Rinv_l by lra. nra. }
    assert (F0 : 0 <= e2 / (1 - e2)) by (apply Rmult_le_pos; [lra | left; apply Rinv_0_lt_compat; lra]).
    assert (E3 : 0 <= e3 /\ e3 <= 5 * u32 + 25 * u32 * u32) by (unfold e3; split; nra).
    assert (Rq : rel q (d0 / sqrt s0) (e3 + u32 + e3 * u32)) by (apply rel_rnd; [lra | exact N4 | exact Rq0]).
    set (e4 := e3 + u32 + e3 * u32) in *.
    assert (E4 : 0 <= e4 /\ e4 <= 6 * u32 + 31 * u32 * u32) by (unfold e4; split; nra).
    assert (Rwq : rel (w * q) M (0 + e4 + 0 * e4)) by (apply rel_mul; [lra | lra | apply rel_exact | exact Rq]).
    replace (0 + e4 + 0 * e4) with e4 in Rwq by ring.
    assert (Rp : rel p M (e4 + u32 + e4 * u32)) by (apply rel_rnd; [lra | exact N5 | exact Rwq]).
    unfold rel in *. eapply Rle_trans; [exact Rp|]. apply Rmult_le_compat_r; [apply Rabs_pos|]. nra.
  Qed.

  Theorem bn_forward_float32_error :
    Rabs (bn_forward_out (Fops32_sqrt sq) w b eps x m v - bn_forward_out Rops w b eps x m v)
    <= 8 * u32 * (1 + u32) * Rabs M + u32 * (Rabs M + Rabs b).
  Proof.
    rewrite bn_unfold, bn_exact. pose proof bn_main_term_rel as Rp. pose proof (rnd32_rel (p + b) N6) as R6.
    pose proof u32_pos as Up. unfold rel in Rp.
    pose proof (Rabs_pos M) as PM. pose proof (Rabs_pos b) as Pb.
    assert (T1 : Rabs (rnd32 (p + b) - (M + b)) <= Rabs (rnd32 (p + b) - (p + b)) + Rabs (p - M)).
    { replace (rnd32 (p + b) - (M + b)) with ((rnd32 (p + b) - (p + b)) + (p - M)) by ring. apply Rabs_triang. }
    assert (T2 : Rabs (p + b) <= Rabs M + 8 * u32 * Rabs M + Rabs b).
    { replace (p + b) with (M + (p - M) + b) by ring. eapply Rle_trans; [apply Rabs_triang|].
      eapply Rle_trans; [apply Rplus_le_compat_r; apply Rabs_triang|]. lra. }
    assert (R6' : Rabs (rnd32 (p + b) - (p + b)) <= u32 * (Rabs M + 8 * u32 * Rabs M + Rabs b)).
    { eapply Rle_trans; [exact R6|]. apply Rmult_le_compat_l; lra. }
    nra.
  Qed.
End BatchNormForward.

(* the correctly rounded square root of [Fops32] is one such [sq] *)
Lemma rnd_sqrt_is_faithful a : 0 <= a -> tiny32 <= sqrt a -> Rabs (rnd32 (sqrt a) - sqrt a) <= 2 * u32 * sqrt a.
Proof.
  intros Ha Ht. pose proof (sqrt_pos a) as P. pose proof (rnd32_rel (sqrt a)) as H. rewrite (Rabs_pos_eq (sqrt a)) in H by exact P.
  specialize (H Ht). pose proof u32_pos. nra.
Qed.

(* ---- non-vacuity: integers below 2^24 are binary32 numbers, and ordinary BatchNorm values (weight 2, bias 1, mean 1, variance 4,
   input 3, with the exact square root as [sq]) meet every hypothesis of the theorem ---- *)
Lemma rnd32_int (z : Z) : (Z.abs z < 2 ^ 24)%Z -> rnd32 (IZR z) = IZR z.
Proof.
  intros Hz. unfold rnd32. apply round_generic; [apply valid_rnd_N|].
  replace (IZR z) with (F2R (Float radix2 z 0)) by (unfold F2R; simpl; lra).
  apply generic_format_F2R. intros Hnz. unfold cexp, FLT_exp. rewrite (mag_F2R_Zdigits radix2 z 0 Hnz).
  pose proof (Zdigits_le_Zpower radix2 24 z Hz) as D. apply Z.max_lub; lia.
Qed.

Lemma tiny32_le_1 : tiny32 <= 1.
Proof. unfold tiny32. change 1 with (bpow radix2 0). apply bpow_le. apply Z.leb_le. reflexivity. Qed.

Example bn_hypotheses_hold_for_ordinary_values :
  let sq := sqrt in let w := 2 in let b := 1 in let eps := 0 in let x := 3 in let m := 1 in let v := 4 in
  (forall a, 0 <= a -> Rabs (sq a - sqrt a) <= 2 * u32 * sqrt a) /\ 0 < v + eps /\
  tiny32 <= Rabs (x - m) /\ tiny32 <= Rabs (v + eps) /\ tiny32 <= Rabs (rnd32 (x - m) / sq (rnd32 (v + eps))) /\
  tiny32 <= Rabs (w * rnd32 (rnd32 (x - m) / sq (rnd32 (v + eps)))) /\
  tiny32 <= Rabs (rnd32 (w * rnd32 (rnd32 (x - m) / sq (rnd32 (v + eps)))) + b).
Proof.
  cbv zeta. pose proof tiny32_le_1 as T. pose proof u32_pos as Up.
  assert (R2 : rnd32 2 = 2) by (apply (rnd32_int 2); reflexivity).
  assert (R4 : rnd32 4 = 4) by (apply (rnd32_int 4); reflexivity).
  assert (R1 : rnd32 1 = 1) by (apply (rnd32_int 1); reflexivity).
  assert (S4 : sqrt 4 = 2) by (replace 4 with (2 * 2) by lra; apply sqrt_square; lra).
  replace (3 - 1) with 2 by lra. replace (4 + 0) with 4 by lra. rewrite R2, R4, S4.
  replace (2 / 2) with 1 by lra. rewrite R1. replace (2 * 1) with 2 by lra. rewrite R2. replace (2 + 1) with 3 by lra.
  repeat split; try (rewrite Rabs_pos_eq by lra; lra); try lra.
  intros a Ha. replace (sqrt a - sqrt a) with 0 by ring. rewrite Rabs_R0. pose proof (sqrt_pos a). nra.
Qed.
