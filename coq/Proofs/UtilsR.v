(* Real-number proofs about Model/Utils.v: bin search, cube root, temperature. *)
From Coq Require Import Reals ZArith List Bool Arith Lia Lra Sorted.
From NF Require Import Base.Ops Base.Rops Base.Result Gen.Utils Model.Utils.
Import ListNotations.
Open Scope R_scope.

(* ---- bin search ---- *)
Definition le_x (x : R) := fun l : R => Rleb l x.

Lemma count_sorted_split (l : list R) x :
  StronglySorted Rlt l ->
  let m := count (le_x x) l in
  Forall (fun v => v <= x) (firstn m l) /\ Forall (fun v => x < v) (skipn m l).
Proof.
  induction l as [|a r IH]; intros S; simpl; [split; constructor|].
  inversion S as [|? ? Sr Fa]; subst.
  unfold count, le_x in *. cbn [filter]. destruct (Rleb a x) eqn:E.
  - apply Rleb_true in E. cbn [length firstn skipn]. destruct (IH Sr) as [H1 H2]. split; [constructor; assumption | exact H2].
  - apply Rleb_false in E.
    assert (Z0 : filter (fun l0 => Rleb l0 x) r = []).
    { clear IH S Sr. induction r as [|b r IHr]; [reflexivity|]. inversion Fa; subst. cbn [filter].
      destruct (Rleb b x) eqn:Eb; [apply Rleb_true in Eb; lra | apply IHr; assumption]. }
    rewrite Z0. cbn [length firstn skipn]. split; [constructor|].
    constructor; [exact E|]. eapply Forall_impl; [|exact Fa]. simpl. intros; lra.
Qed.

Lemma count_le_length (p : R -> bool) l : (count p l <= length l)%nat.
Proof. unfold count. induction l as [|a r IH]; simpl; [lia|]. destruct (p a); simpl; lia. Qed.

Lemma StronglySorted_app_inv (l1 l2 : list R) :
  StronglySorted Rlt (l1 ++ l2) -> StronglySorted Rlt l1 /\ StronglySorted Rlt l2 /\
  forall a b, In a l1 -> In b l2 -> a < b.
Proof.
  induction l1 as [|a l1 IH]; simpl; intros S.
  - repeat split; [constructor | exact S | intros ? ? []].
  - inversion S as [|? ? S' F]; subst. destruct (IH S') as [S1 [S2 H]].
    rewrite Forall_app in F. destruct F as [F1 F2]. repeat split.
    + constructor; assumption.
    + exact S2.
    + intros a' b [<-|Ha] Hb; [rewrite Forall_forall in F2; apply F2; exact Hb | apply H; assumption].
Qed.

Lemma Forall_nth_R (P : R -> Prop) l i : Forall P l -> (i < length l)%nat -> P (nth i l 0).
Proof. intros F H. rewrite Forall_forall in F. apply F. apply nth_In; exact H. Qed.

(* The specification of the bin search as the (repaired) code performs it:
   count the edges, all but the last, that are <= x, minus one. *)
Definition searchsorted_fixed_shape : Prop :=
  utils_searchsorted_bumps_last = false /\ utils_searchsorted_drop_last = true /\
  utils_searchsorted_offset = (-1)%Z /\
  forall x l, utils_searchsorted_cmp Rops x l = Rleb l x.

Lemma searchsorted_shape_holds : searchsorted_fixed_shape.
Proof. repeat split. Qed.

Lemma searchsorted_unfold locs x :
  searchsorted Rops locs x = (Z.of_nat (count (le_x x) (removelast locs)) - 1)%Z.
Proof.
  destruct searchsorted_shape_holds as [Hb [Hd [Ho Hc]]].
  unfold searchsorted, searchsorted_locs. rewrite Hb, Hd, Ho. unfold count, le_x.
  rewrite (filter_ext _ (fun l => Rleb l x)) by (intros; apply Hc). lia.
Qed.

(* half-open bins, the last one closed *)
Lemma searchsorted_spec (locs : list R) (x : R) (K : nat) :
  length locs = S K -> (0 < K)%nat -> StronglySorted Rlt locs ->
  nth 0 locs 0 <= x <= nth K locs 0 ->
  exists k : nat, searchsorted Rops locs x = Z.of_nat k /\ (k < K)%nat /\
    nth k locs 0 <= x /\ (x < nth (S k) locs 0 \/ S k = K).
Proof.
  intros HL HK S [Hlo Hhi]. rewrite searchsorted_unfold.
  assert (Hne : locs <> []) by (destruct locs; [discriminate | congruence]).
  pose proof (app_removelast_last 0 Hne) as E. set (l' := removelast locs) in *.
  assert (Hl' : length l' = K).
  { apply (f_equal (@length R)) in E. rewrite app_length in E. simpl in E. lia. }
  rewrite E in S. apply StronglySorted_app_inv in S. destruct S as [S' [_ Hlt]].
  pose proof (count_sorted_split l' x S') as [H1 H2]. cbv zeta in H1, H2.
  pose proof (count_le_length (le_x x) l') as Hm. set (m := count (le_x x) l') in *.
  assert (Hnth : forall i, (i < K)%nat -> nth i locs 0 = nth i l' 0).
  { intros i Hi. rewrite E. rewrite app_nth1 by lia. reflexivity. }
  assert (Hm1 : (1 <= m)%nat).
  { destruct m as [|m']; [|lia]. exfalso. simpl in H2.
    assert (x < nth 0 l' 0) by (apply (Forall_nth_R _ _ 0%nat H2); lia).
    rewrite <- Hnth in H by lia. lra. }
  exists (m - 1)%nat. split; [lia|]. split; [lia|]. split.
  - rewrite Hnth by lia.
    replace (nth (m - 1) l' 0) with (nth (m - 1) (firstn m l') 0).
    + apply Forall_nth_R; [exact H1 | rewrite firstn_length; lia].
    + rewrite <- (firstn_skipn m l') at 2. rewrite app_nth1 by (rewrite firstn_length; lia). reflexivity.
  - destruct (Nat.eq_dec m K) as [->|Hne']; [right; lia | left].
    replace (S (m - 1)%nat) with m by lia. rewrite Hnth by lia.
    replace (nth m l' 0) with (nth 0 (skipn m l') 0).
    + apply Forall_nth_R; [exact H2 | rewrite skipn_length; lia].
    + rewrite <- (firstn_skipn m l') at 2. rewrite app_nth2 by (rewrite firstn_length; lia).
      rewrite firstn_length. replace (m - Nat.min m (length l'))%nat with 0%nat by lia. reflexivity.
Qed.

(* the helper does not write into its argument *)
Lemma searchsorted_pure (locs : list R) : searchsorted_locs Rops locs = locs.
Proof. reflexivity. Qed.

(* ---- cube root ---- *)
Lemma cbrt_cube (x : R) : cbrt Rops x * cbrt Rops x * cbrt Rops x = x.
Proof.
  unfold cbrt, utils_cbrt, o_sign. cbn [Rops o_mul o_exp o_div o_ln o_abs o_ofZ o_ltb o_zero o_one o_neg].
  assert (E3 : forall t, exp (t / 3) * exp (t / 3) * exp (t / 3) = exp t).
  { intros t. rewrite <- !exp_plus. f_equal. field. }
  destruct (Rltb 0 x) eqn:Hp.
  - apply Rltb_true in Hp. rewrite Rabs_right by lra.
    replace (1 * exp (ln x / IZR 3) * (1 * exp (ln x / IZR 3)) * (1 * exp (ln x / IZR 3)))
      with (exp (ln x / 3) * exp (ln x / 3) * exp (ln x / 3)) by ring.
    rewrite E3. apply exp_ln; exact Hp.
  - destruct (Rltb x 0) eqn:Hn.
    + apply Rltb_true in Hn. rewrite Rabs_left by lra.
      replace (- (1) * exp (ln (- x) / IZR 3) * (- (1) * exp (ln (- x) / IZR 3)) * (- (1) * exp (ln (- x) / IZR 3)))
        with (- (exp (ln (- x) / 3) * exp (ln (- x) / 3) * exp (ln (- x) / 3))) by ring.
      rewrite E3. rewrite exp_ln by lra. ring.
    + apply Rltb_false in Hp. apply Rltb_false in Hn. assert (x = 0) by lra. subst. ring.
Qed.

(* ---- get_temperature ---- *)
Lemma temperature_spec (m b : R) :
  0 < m -> 0 < b < 1 -> get_temperature Rops m b < 1 ->
  o_sigmoid Rops (get_temperature Rops m b * m) = b.
Proof.
  intros Hm [Hb0 Hb1] Hlt.
  unfold get_temperature in *. cbn [Rops o_ltb] in *.
  unfold utils_temperature_cap, utils_temperature_raw, o_log1p in *.
  cbn [Rops o_ofZ o_mul o_neg o_div o_sub o_ln o_add o_one o_ltb] in *.
  destruct (Rltb (IZR 1) _) eqn:E.
  - exfalso. lra.
  - clear E Hlt. unfold o_sigmoid. cbn [Rops o_div o_one o_add o_exp o_neg].
    replace (- (- (1 / m) * (ln (1 + - b) - ln b) * m)) with (ln (1 + - b) - ln b) by (field; lra).
    unfold Rminus at 1. rewrite exp_plus, exp_ln by lra. rewrite exp_Ropp, exp_ln by lra. field. lra.
Qed.
