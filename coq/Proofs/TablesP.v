From Coq Require Import String List Bool Arith Lia.
From NF Require Import Gen.Tables Model.Tables.
Import ListNotations.

(* ---- the generated tables pass their acceptance predicates (finite check by computation) ---- *)
Lemma inplace_table_ok : forallb inplace_ok inplace_table = true.
Proof. vm_compute. reflexivity. Qed.
Lemma eval_mode_writes_no_state : forallb (fun r => negb (eval_mode_writes_state r)) inplace_table = true.
Proof. vm_compute. reflexivity. Qed.
Lemma attr_table_ok : forallb attr_ok attr_table = true.
Proof. vm_compute. reflexivity. Qed.
Lemma grad_table_ok : forallb grad_ok grad_table = true.
Proof. vm_compute. reflexivity. Qed.
Lemma dtype_table_ok : forallb dtype_ok dtype_table = true.
Proof. vm_compute. reflexivity. Qed.

(* ---- storage semantics ---- *)
Lemma bump_other f i j : i <> j -> bump f i j = f j.
Proof. intros H. unfold bump. destruct (Nat.eqb_spec i j); [contradiction | reflexivity]. Qed.

(* a call whose writes all go to fresh storage leaves every argument and every piece of state at its version *)
Lemma exec_pure ws : forall v, forallb touches_nothing ws = true -> exec v ws = v.
Proof.
  induction ws as [|t ws IH]; intros v H; [reflexivity|]. cbn in H. apply andb_prop in H. destruct H as [Ht Hw].
  destruct t; try discriminate. cbn. apply IH; exact Hw.
Qed.

(* more precisely: argument i keeps its version unless some write targets argument i *)
Lemma exec_arg_untouched ws i : forall v,
  (forall t, In t ws -> t <> TArg i) -> fst (exec v ws) i = fst v i.
Proof.
  induction ws as [|t ws IH]; intros v H; [reflexivity|]. cbn [exec fold_left].
  change (fold_left exec_write ws (exec_write v t)) with (exec (exec_write v t) ws).
  rewrite IH by (intros t' Ht'; apply H; right; exact Ht').
  destruct t as [|j|a]; cbn; try reflexivity.
  apply bump_other. intros ->. apply (H (TArg i)); [left; reflexivity | reflexivity].
Qed.

(* repeating a pure call is deterministic: the state both calls see is the same *)
Lemma repeat_call_same_state ws v : forallb touches_nothing ws = true -> exec (exec v ws) ws = v.
Proof. intros H. rewrite !exec_pure by exact H. reflexivity. Qed.

(* ---- save / reload (C15) ---- *)
Section Reload.
  (* a module: its registered state (parameters and persistent buffers) and the remaining attributes, which the
     constructor computes from the configuration and, possibly, the random seed *)
  Variables (Cfg Seed Reg Plain Out In : Type).
  Variable init_reg : Cfg -> Seed -> Reg.
  Variable plain : Cfg -> Seed -> Plain.
  Variable apply : Reg -> Plain -> In -> Out.          (* forward / inverse / log_prob *)
  Definition fresh (c : Cfg) (s : Seed) : Reg * Plain := (init_reg c s, plain c s).
  Definition state_dict (m : Reg * Plain) : Reg := fst m.
  Definition load (sd : Reg) (m : Reg * Plain) : Reg * Plain := (sd, snd m).

  (* if no unregistered attribute depends on the seed, loading the state dict into a model built under
     ANY other seed gives the same function, whatever training happened before saving *)
  Theorem reload_same_function :
    (forall c s s', plain c s = plain c s') ->
    forall c s s' (trained : Reg) (x : In),
      let m := (trained, plain c s) in
      apply (fst (load (state_dict m) (fresh c s'))) (snd (load (state_dict m) (fresh c s'))) x
      = apply (fst m) (snd m) x.
  Proof. intros H c s s' trained x. cbn. rewrite (H c s' s). reflexivity. Qed.

  (* and the hypothesis is needed: a seed-dependent plain attribute that the function reads breaks it *)
  Theorem reload_needs_registration :
    forall c s s' (trained : Reg) (x : In),
      apply trained (plain c s') x <> apply trained (plain c s) x ->
      let m := (trained, plain c s) in
      apply (fst (load (state_dict m) (fresh c s'))) (snd (load (state_dict m) (fresh c s'))) x
      <> apply (fst m) (snd m) x.
  Proof. intros c s s' trained x H. cbn. exact H. Qed.
End Reload.
