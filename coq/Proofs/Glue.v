(* Gluing derivatives of piecewise-defined functions (epsilon-delta form through is_derive_Reals). *)
From Coq Require Import Reals ZArith List Bool Arith Lia Lra Sorted.
From Coquelicot Require Import Coquelicot.
Open Scope R_scope.

(* gluing two differentiable pieces that agree in value and derivative at the junction *)
Lemma derive_glue (f g h : R -> R) (x l : R) :
  is_derive g x l -> is_derive h x l -> g x = f x -> h x = f x ->
  (exists d, 0 < d /\ forall y, x - d < y < x -> f y = g y) ->
  (exists d, 0 < d /\ forall y, x < y < x + d -> f y = h y) ->
  is_derive f x l.
Proof.
  intros Dg Dh Eg Eh [d1 [P1 L]] [d2 [P2 Rr]].
  apply is_derive_Reals. apply is_derive_Reals in Dg. apply is_derive_Reals in Dh.
  intros eps He. destruct (Dg eps He) as [dg Hg]. destruct (Dh eps He) as [dh Hh].
  assert (Pm : 0 < Rmin (Rmin dg dh) (Rmin d1 d2)).
  { repeat apply Rmin_glb_lt; try assumption; [apply (cond_pos dg) | apply (cond_pos dh)]. }
  exists (mkposreal _ Pm). intros t Ht Hlt. cbn [pos] in Hlt.
  assert (B1 : Rabs t < dg) by (eapply Rlt_le_trans; [exact Hlt|]; eapply Rle_trans; [apply Rmin_l|apply Rmin_l]).
  assert (B2 : Rabs t < dh) by (eapply Rlt_le_trans; [exact Hlt|]; eapply Rle_trans; [apply Rmin_l|apply Rmin_r]).
  assert (B3 : Rabs t < d1) by (eapply Rlt_le_trans; [exact Hlt|]; eapply Rle_trans; [apply Rmin_r|apply Rmin_l]).
  assert (B4 : Rabs t < d2) by (eapply Rlt_le_trans; [exact Hlt|]; eapply Rle_trans; [apply Rmin_r|apply Rmin_r]).
  destruct (Rlt_le_dec t 0) as [Neg|Pos].
  - rewrite (L (x + t)); [|rewrite Rabs_left in B3 by exact Neg; lra]. rewrite <- Eg. apply Hg; assumption.
  - assert (0 < t) by (destruct Pos as [P|E]; [exact P | exfalso; apply Ht; symmetry; exact E]).
    rewrite (Rr (x + t)); [|rewrite Rabs_right in B4 by lra; lra]. rewrite <- Eh. apply Hh; assumption.
Qed.

Lemma derive_ext_near (f g : R -> R) (x l : R) :
  is_derive g x l -> (exists d, 0 < d /\ forall y, x - d < y < x + d -> f y = g y) -> is_derive f x l.
Proof.
  intros Dg [d [Pd E]]. apply (derive_glue f g g x l Dg Dg).
  - symmetry. apply E. lra.
  - symmetry. apply E. lra.
  - exists d. split; [exact Pd|]. intros y Hy. apply E. lra.
  - exists d. split; [exact Pd|]. intros y Hy. apply E. lra.
Qed.
