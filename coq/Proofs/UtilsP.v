(* Proofs about Model/Utils.v that need no real numbers. *)
From Coq Require Import ZArith List Bool Arith Lia.
From NF Require Import Base.Ops Base.Result Base.PyVal Gen.Typechecks Gen.Utils Model.Utils.
Import ListNotations.

Section Lists.
  Context {A : Type}.

  Lemma nth_repeat_lt (a d : A) m n : n < m -> nth n (repeat a m) d = a.
  Proof.
    revert n; induction m as [|m IH]; intros n H; [lia|].
    destruct n as [|n]; simpl; [reflexivity | apply IH; lia].
  Qed.

  Lemma nth_flat_map_repeat (l : list A) n i j d :
    j < n -> nth (i * n + j) (flat_map (fun a => repeat a n) l) d = nth i l d.
  Proof.
    revert i; induction l as [|a l IH]; intros i Hj; simpl.
    - destruct (i * n + j), i; reflexivity.
    - destruct i as [|i].
      + simpl. rewrite app_nth1 by (rewrite repeat_length; lia).
        apply nth_repeat_lt; exact Hj.
      + rewrite app_nth2 by (rewrite repeat_length; simpl; lia).
        rewrite repeat_length. replace (S i * n + j - n) with (i * n + j) by (simpl; lia).
        apply IH; exact Hj.
  Qed.

  Lemma flat_map_repeat_length (l : list A) n :
    length (flat_map (fun a => repeat a n) l) = length l * n.
  Proof. induction l as [|a l IH]; simpl; [reflexivity|]. rewrite app_length, repeat_length, IH; lia. Qed.

  Lemma concat_repeat_length (x : list A) n : length (concat (repeat x n)) = n * length x.
  Proof. induction n as [|n IH]; simpl; [reflexivity|]. rewrite app_length, IH; lia. Qed.

  (* element i*len+j of n concatenated copies of x is x[j] *)
  Lemma nth_concat_copies (x : list A) n i j d :
    i < n -> j < length x -> nth (i * length x + j) (concat (repeat x n)) d = nth j x d.
  Proof.
    revert i; induction n as [|n IH]; intros i Hi Hj; [lia|].
    simpl. destruct i as [|i].
    - simpl. apply app_nth1; exact Hj.
    - rewrite app_nth2 by (simpl; lia).
      replace (S i * length x + j - length x) with (i * length x + j) by (simpl; lia).
      apply IH; [lia | exact Hj].
  Qed.

  Lemma map_nth_seq (x : list A) d : map (fun j => nth j x d) (seq 0 (length x)) = x.
  Proof.
    induction x as [|a x IH]; simpl; [reflexivity|]. f_equal.
    rewrite <- seq_shift, map_map. exact IH.
  Qed.

  (* the function computed by torchutils.tile: copies are consecutive *)
  Lemma tile_data_spec (d : A) (x : list A) n :
    tile_data d x n = flat_map (fun a => repeat a n) x.
  Proof.
    unfold tile_data, transpose_flat, concat_copies.
    transitivity (flat_map (fun j => repeat (nth j x d) n) (seq 0 (length x))).
    - rewrite !flat_map_concat_map. f_equal. apply map_ext_in. intros j Hj. apply in_seq in Hj.
      transitivity (map (fun _ : nat => nth j x d) (seq 0 n)).
      + apply map_ext_in. intros i Hi. apply in_seq in Hi. apply nth_concat_copies; lia.
      + generalize 0. induction n as [|n IH]; intros s; simpl; [reflexivity | f_equal; apply IH].
    - rewrite <- (map_nth_seq x d) at 2. rewrite !flat_map_concat_map, map_map. reflexivity.
  Qed.

  Lemma tile_index (d : A) (x : list A) n i j :
    j < n -> nth (i * n + j) (tile_data d x n) d = nth i x d.
  Proof. intros H. rewrite tile_data_spec. apply nth_flat_map_repeat; exact H. Qed.

  Lemma tile_length (d : A) (x : list A) n : length (tile_data d x n) = length x * n.
  Proof. rewrite tile_data_spec. apply flat_map_repeat_length. Qed.

  (* chunks / concat *)
  Lemma chunks_concat (m : nat) (ls : list (list A)) :
    Forall (fun r => length r = m) ls -> chunks m (length ls) (concat ls) = ls.
  Proof.
    induction ls as [|r ls IH]; intros H; simpl; [reflexivity|].
    inversion H as [|? ? Hr Hls]; subst.
    rewrite firstn_app, Nat.sub_diag, firstn_all, firstn_O, app_nil_r.
    rewrite skipn_app, Nat.sub_diag, skipn_all, skipn_O. simpl. f_equal. apply IH; exact Hls.
  Qed.

  Lemma chunks_length m k (l : list A) : length (chunks m k l) = k.
  Proof. revert l; induction k as [|k IH]; intros l; simpl; [reflexivity | f_equal; apply IH]. Qed.

  Lemma chunks_Forall m k (l : list A) :
    length l = m * k -> Forall (fun r => length r = m) (chunks m k l).
  Proof.
    revert l; induction k as [|k IH]; intros l H; simpl; constructor.
    - rewrite firstn_length. lia.
    - apply IH. rewrite skipn_length. lia.
  Qed.

  Lemma concat_chunks m k (l : list A) : length l = m * k -> concat (chunks m k l) = l.
  Proof.
    revert l; induction k as [|k IH]; intros l H; simpl.
    - destruct l; [reflexivity | simpl in H; lia].
    - rewrite IH by (rewrite skipn_length; lia). apply firstn_skipn.
  Qed.

End Lists.

Section Lists2.
  Context {A : Type}.

  (* repeat_rows: output row i*n+j is input row i *)
  Lemma repeat_rows_rows rowlen rows n (l : list A) :
    length l = rowlen * rows ->
    chunks rowlen (rows * n) (repeat_rows_data rowlen rows n l)
    = flat_map (fun row => repeat row n) (chunks rowlen rows l).
  Proof.
    intros H. unfold repeat_rows_data.
    assert (E : forall rs : list (list A),
               flat_map (fun row => concat (repeat row n)) rs
               = concat (flat_map (fun row => repeat row n) rs)).
    { induction rs as [|r rs IHr]; simpl; [reflexivity|]. rewrite concat_app, IHr. reflexivity. }
    rewrite E.
    assert (L : length (flat_map (fun row : list A => repeat row n) (chunks rowlen rows l)) = rows * n).
    { rewrite flat_map_repeat_length, chunks_length. reflexivity. }
    rewrite <- L.
    apply chunks_concat.
    apply Forall_forall. intros r Hr. apply in_flat_map in Hr. destruct Hr as [r0 [Hr0 Hin]].
    apply repeat_spec in Hin. subst r.
    pose proof (chunks_Forall rowlen rows l H) as F. rewrite Forall_forall in F. apply F; exact Hr0.
  Qed.

  Lemma repeat_rows_row_index rowlen rows n (l : list A) i j d :
    length l = rowlen * rows -> j < n ->
    nth (i * n + j) (chunks rowlen (rows * n) (repeat_rows_data rowlen rows n l)) d
    = nth i (chunks rowlen rows l) d.
  Proof. intros H Hj. rewrite repeat_rows_rows by exact H. apply nth_flat_map_repeat; exact Hj. Qed.

  (* merge / split are mutually inverse *)
  Lemma prod_app (a b : list nat) : prod (a ++ b) = prod a * prod b.
  Proof. induction a as [|x a IH]; simpl; [lia|]. rewrite IH; lia. Qed.

  Lemma infer_shape_exact (s : list nat) :
    infer_shape (prod s) (map Z.of_nat s) = Ok s.
  Proof.
    unfold infer_shape.
    assert (E1 : existsb (fun z => (z <? -1)%Z) (map Z.of_nat s) = false).
    { induction s as [|a s IH]; simpl; [reflexivity|]. rewrite IH.
      destruct (Z.ltb_spec (Z.of_nat a) (-1)); [lia | reflexivity]. }
    assert (E2 : filter (fun z => (z <? 0)%Z) (map Z.of_nat s) = []).
    { clear E1. induction s as [|a s IH]; simpl; [reflexivity|].
      destruct (Z.ltb_spec (Z.of_nat a) 0); [lia | exact IH]. }
    assert (E3 : filter (fun z => (0 <=? z)%Z) (map Z.of_nat s) = map Z.of_nat s).
    { clear E1 E2. induction s as [|a s IH]; simpl; [reflexivity|].
      destruct (Z.leb_spec 0 (Z.of_nat a)); [f_equal; exact IH | lia]. }
    rewrite E1. unfold count_neg, zprod_pos. rewrite E2, E3. simpl.
    assert (E4 : map Z.to_nat (map Z.of_nat s) = s).
    { rewrite map_map. rewrite <- (map_id s) at 2. apply map_ext. intros; apply Nat2Z.id. }
    rewrite E4. unfold prod. rewrite Nat.eqb_refl. reflexivity.
  Qed.

  Lemma split_merge (x : tensor A) k :
    0 < k <= length (shape x) ->
    rbind (merge_leading_dims x (PInt (Z.of_nat k)))
          (fun y => split_leading_dim y (map Z.of_nat (firstn k (shape x))))
    = Ok x \/ tc_is_positive_int (PInt (Z.of_nat k)) = false.
  Proof.
    intros [Hk Hle]. destruct (tc_is_positive_int (PInt (Z.of_nat k))) eqn:E; [left | right; reflexivity].
    unfold merge_leading_dims. rewrite E. simpl negb. cbn [py_int]. rewrite Nat2Z.id.
    destruct (Nat.ltb_spec (length (shape x)) k) as [Hlt|_]; [lia|].
    simpl. unfold split_leading_dim. cbn [shape data].
    rewrite infer_shape_exact. simpl. rewrite firstn_skipn. destruct x; reflexivity.
  Qed.

  Lemma merge_split (x : tensor A) (s : list nat) s0 rest :
    shape x = s0 :: rest -> prod s = s0 -> s <> [] ->
    rbind (split_leading_dim x (map Z.of_nat s))
          (fun y => merge_leading_dims y (PInt (Z.of_nat (length s))))
    = Ok x \/ tc_is_positive_int (PInt (Z.of_nat (length s))) = false.
  Proof.
    intros Hs Hp Hne. destruct (tc_is_positive_int (PInt (Z.of_nat (length s)))) eqn:E; [left | right; reflexivity].
    unfold split_leading_dim. rewrite Hs. rewrite <- Hp, infer_shape_exact. simpl.
    unfold merge_leading_dims. rewrite E. simpl negb. cbn [py_int shape data]. rewrite Nat2Z.id.
    rewrite app_length.
    destruct (Nat.ltb_spec (length s + length rest) (length s)) as [Hlt|_]; [lia|].
    rewrite firstn_app, Nat.sub_diag, firstn_all, firstn_O, app_nil_r.
    rewrite skipn_app, Nat.sub_diag, skipn_all, skipn_O. simpl.
    rewrite Hp. destruct x as [sh dt]; simpl in *; subst sh; reflexivity.
  Qed.
End Lists2.

(* ---- masks ---- *)
Lemma nth_map_seq {B} (f : nat -> B) s n i d : i < n -> nth i (map f (seq s n)) d = f (s + i).
Proof.
  revert s i; induction n as [|n IH]; intros s i H; [lia|].
  destruct i as [|i]; simpl; [f_equal; lia|]. rewrite IH by lia. f_equal; lia.
Qed.

Lemma count_true_app a b : count_true (a ++ b) = count_true a + count_true b.
Proof. unfold count_true. rewrite filter_app, app_length. reflexivity. Qed.

Lemma alternating_mask_nth (features : nat) (even : bool) (i : nat) :
  i < features ->
  nth i (alternating_mask features even) false = if even then Nat.even i else Nat.odd i.
Proof.
  intros H. unfold alternating_mask. rewrite nth_map_seq by exact H. reflexivity.
Qed.

Lemma alternating_mask_count_aux (even : bool) (n s : nat) :
  count_true (map (fun i => if even then Nat.even i else Nat.odd i) (seq s n))
  = if (if even then Nat.even s else Nat.odd s) then (n + 1) / 2 else n / 2.
Proof.
  revert s; induction n as [|n IH]; intros s.
  - simpl. destruct (if even then _ else _); reflexivity.
  - cbn [seq map]. change (?a :: ?l) with ([a] ++ l). rewrite count_true_app, IH.
    assert (Hs : Nat.even (S s) = negb (Nat.even s)) by (rewrite Nat.even_succ; unfold Nat.odd; reflexivity).
    assert (Ho : Nat.odd (S s) = negb (Nat.odd s)) by (rewrite Nat.odd_succ; unfold Nat.odd; destruct (Nat.even s); reflexivity).
    assert (D1 : (S n + 1) / 2 = 1 + n / 2) by (replace (S n + 1) with (n + 1 * 2) by lia; rewrite Nat.div_add by lia; lia).
    assert (D2 : S n / 2 = (n + 1) / 2) by (f_equal; lia).
    unfold count_true at 1. destruct even.
    + rewrite Hs. destruct (Nat.even s); simpl negb; cbn [filter length]; lia.
    + rewrite Ho. destruct (Nat.odd s); simpl negb; cbn [filter length]; lia.
Qed.

(* number of ones: ceil(n/2) when starting at even positions, floor(n/2) otherwise *)
Lemma alternating_mask_count (features : nat) (even : bool) :
  count_true (alternating_mask features even) = if even then (features + 1) / 2 else features / 2.
Proof. unfold alternating_mask. rewrite alternating_mask_count_aux. destruct even; reflexivity. Qed.

Lemma midpoint_ceil features : midpoint features = (features + 1) / 2.
Proof.
  unfold midpoint. destruct (Nat.eqb_spec (features mod 2) 0) as [E|E].
  - pose proof (Nat.div_mod features 2 ltac:(lia)) as D. rewrite E in D.
    replace (features + 1) with (1 + (features / 2) * 2) by lia.
    rewrite Nat.div_add by lia. reflexivity.
  - pose proof (Nat.div_mod features 2 ltac:(lia)) as D.
    pose proof (Nat.mod_upper_bound features 2 ltac:(lia)) as U.
    assert (features mod 2 = 1) as E1 by lia. rewrite E1 in D.
    replace (features + 1) with (0 + (features / 2 + 1) * 2) by lia.
    rewrite Nat.div_add by lia. reflexivity.
Qed.

Lemma count_ltb_seq m s n : count_true (map (fun i => Nat.ltb i m) (seq s n)) = Nat.min n (m - s).
Proof.
  revert s; induction n as [|n IH]; intros s; [reflexivity|].
  cbn [seq map]. change (?a :: ?l) with ([a] ++ l). rewrite count_true_app, IH.
  unfold count_true. cbn [filter]. destruct (Nat.ltb_spec s m); cbn [length]; lia.
Qed.

Lemma mid_split_mask_count features : count_true (mid_split_mask features) = midpoint features.
Proof.
  unfold mid_split_mask. rewrite count_ltb_seq, midpoint_ceil.
  assert ((features + 1) / 2 <= features).
  { destruct features as [|f]; [reflexivity|]. apply Nat.div_le_upper_bound; lia. }
  lia.
Qed.

Lemma mid_split_mask_nth features i :
  i < features -> nth i (mid_split_mask features) false = Nat.ltb i (midpoint features).
Proof.
  intros H. unfold mid_split_mask. rewrite nth_map_seq by exact H. reflexivity.
Qed.

(* the random mask has exactly as many ones as indices drawn, whatever the draw *)
Lemma random_mask_count_aux (indices : list nat) s n :
  NoDup indices -> Forall (fun i => s <= i < s + n) indices ->
  count_true (map (fun i => existsb (Nat.eqb i) indices) (seq s n)) = length indices.
Proof.
  revert s indices; induction n as [|n IH]; intros s indices ND F.
  - destruct indices as [|a r]; [reflexivity|]. inversion F; lia.
  - cbn [seq map]. change (?a :: ?l) with ([a] ++ l). rewrite count_true_app.
    destruct (in_dec Nat.eq_dec s indices) as [Hin|Hnin].
    + apply in_split in Hin. destruct Hin as [l1 [l2 E]]. subst indices.
      assert (ND' : NoDup (l1 ++ l2)) by (eapply NoDup_remove_1; exact ND).
      assert (Hs : ~ In s (l1 ++ l2)) by (eapply NoDup_remove_2; exact ND).
      assert (F' : Forall (fun i => S s <= i < S s + n) (l1 ++ l2)).
      { apply Forall_forall. intros i Hi. rewrite Forall_forall in F.
        assert (In i (l1 ++ s :: l2)) as Hi2 by (apply in_app_iff; apply in_app_iff in Hi; simpl; tauto).
        specialize (F i Hi2). assert (i <> s) by (intros ->; exact (Hs Hi)). lia. }
      specialize (IH (S s) (l1 ++ l2) ND' F').
      assert (Eq : map (fun i => existsb (Nat.eqb i) (l1 ++ s :: l2)) (seq (S s) n)
                   = map (fun i => existsb (Nat.eqb i) (l1 ++ l2)) (seq (S s) n)).
      { apply map_ext_in. intros i Hi. apply in_seq in Hi.
        rewrite !existsb_app. cbn [existsb]. destruct (Nat.eqb_spec i s); [lia | reflexivity]. }
      rewrite Eq, IH. unfold count_true. cbn [filter].
      assert (Ex : existsb (Nat.eqb s) (l1 ++ s :: l2) = true).
      { apply existsb_exists. exists s. split; [apply in_elt | apply Nat.eqb_refl]. }
      rewrite Ex. cbn [length]. rewrite !app_length. simpl. lia.
    + assert (F' : Forall (fun i => S s <= i < S s + n) indices).
      { apply Forall_forall. intros i Hi. rewrite Forall_forall in F. specialize (F i Hi).
        assert (i <> s) by (intros ->; exact (Hnin Hi)). lia. }
      rewrite (IH (S s) indices ND F').
      unfold count_true. cbn [filter].
      assert (Ex : existsb (Nat.eqb s) indices = false).
      { destruct (existsb (Nat.eqb s) indices) eqn:E; [|reflexivity].
        apply existsb_exists in E. destruct E as [y [Hy Ey]]. apply Nat.eqb_eq in Ey. subst y. contradiction. }
      rewrite Ex. reflexivity.
Qed.

Lemma random_mask_count features indices :
  NoDup indices -> Forall (fun i => i < features) indices ->
  count_true (random_mask features indices) = length indices.
Proof.
  intros ND F. unfold random_mask. apply random_mask_count_aux; [exact ND|].
  eapply Forall_impl; [|exact F]. simpl. intros; lia.
Qed.

(* ---- type predicates (generated from nflows/utils/typechecks.py) ---- *)
Lemma tc_is_int_accepts_bool b : tc_is_int (PBool b) = true.
Proof. reflexivity. Qed.
Lemma tc_is_bool_spec v : tc_is_bool v = true <-> exists b, v = PBool b.
Proof. destruct v; simpl; split; intros H; try discriminate; try (destruct H; discriminate); eauto. Qed.
Lemma tc_is_positive_int_spec z : tc_is_positive_int (PInt z) = true <-> (0 < z)%Z.
Proof. unfold tc_is_positive_int, tc_is_int, py_gt; simpl. rewrite Z.ltb_lt. reflexivity. Qed.
Lemma tc_is_nonnegative_int_spec z : tc_is_nonnegative_int (PInt z) = true <-> (0 <= z)%Z.
Proof. unfold tc_is_nonnegative_int, tc_is_int, py_ge; simpl. rewrite Z.leb_le. reflexivity. Qed.
Lemma tc_rejects_non_int v :
  isinstance_int v = false ->
  tc_is_positive_int v = false /\ tc_is_nonnegative_int v = false /\ tc_is_power_of_two v = false.
Proof.
  intros H. unfold tc_is_power_of_two, tc_is_positive_int, tc_is_nonnegative_int, tc_is_int. rewrite H. auto.
Qed.

Local Open Scope Z_scope.
Lemma land_pred_pow2 k : 0 <= k -> Z.land (2 ^ k) (2 ^ k - 1) = 0.
Proof.
  intros Hk. replace (2 ^ k - 1) with (Z.ones k) by (rewrite Z.ones_equiv; lia).
  rewrite Z.land_ones by exact Hk. apply Z.mod_same. apply Z.pow_nonzero; lia.
Qed.

Lemma land_pred_zero_pow2 n : 0 < n -> Z.land n (n - 1) = 0 -> n = 2 ^ Z.log2 n.
Proof.
  intros Hn H. destruct (Z.log2_spec n Hn) as [Hlo Hhi]. set (k := Z.log2 n) in *.
  destruct (Z.eq_dec n (2 ^ k)) as [E|NE]; [exact E|exfalso].
  assert (Hk : 0 <= k) by apply Z.log2_nonneg.
  assert (L : Z.log2 (n - 1) = k) by (apply Z.log2_unique; [exact Hk | lia]).
  assert (B1 : Z.testbit n k = true) by (apply Z.bit_log2; exact Hn).
  assert (B2 : Z.testbit (n - 1) k = true) by (rewrite <- L; apply Z.bit_log2; lia).
  assert (B : Z.testbit (Z.land n (n - 1)) k = true) by (rewrite Z.land_spec, B1, B2; reflexivity).
  rewrite H, Z.bits_0 in B. discriminate.
Qed.

(* is_power_of_two(n) is true exactly for the positive powers of two (ints) *)
Lemma tc_is_power_of_two_spec n :
  tc_is_power_of_two (PInt n) = true <-> exists k, 0 <= k /\ n = 2 ^ k.
Proof.
  unfold tc_is_power_of_two, tc_is_positive_int, tc_is_int, py_gt, py_and_pred_is_zero. cbn [isinstance_int py_int andb].
  destruct (Z.ltb_spec 0 n) as [Hn|Hn].
  - rewrite Z.eqb_eq. split.
    + intros H. exists (Z.log2 n). split; [apply Z.log2_nonneg | apply land_pred_zero_pow2; assumption].
    + intros [k [Hk E]]. subst n. apply land_pred_pow2; exact Hk.
  - split; [discriminate|]. intros [k [Hk E]]. subst n. pose proof (Z.pow_pos_nonneg 2 k ltac:(lia) Hk). lia.
Qed.
