(* Batch independence (C12): a batch function that is the map of a row function is equivariant under batch
   permutations and indifferent to which other rows are present; the reshaping tricks that could mix rows
   (1x1 convolution, masked gather / scatter of the unconstrained splines) are maps.  Axiom-free. *)
From Coq Require Import List Arith Lia Permutation.
From NF Require Import Model.Utils Proofs.UtilsP.
Import ListNotations.

Section PerRow.
  Context {A B : Type} (f : A -> B).
  Definition batch (rows : list A) : list B := map f rows.

  Lemma batch_row i rows d d' : i < length rows -> nth i (batch rows) d' = f (nth i rows d).
  Proof. intros H. unfold batch. rewrite nth_indep with (d' := f d) by (rewrite map_length; exact H). apply map_nth. Qed.

  (* evaluating a batch equals evaluating its rows one at a time *)
  Lemma batch_is_rowwise rows : batch rows = flat_map (fun r => batch [r]) rows.
  Proof. unfold batch. induction rows as [|r rows IH]; [reflexivity|]. cbn [map flat_map app]. rewrite IH. reflexivity. Qed.

  (* equivariance under any re-ordering / selection / duplication of rows given as an index list *)
  Lemma batch_reindex rows (idx : list nat) d :
    batch (map (fun i => nth i rows d) idx) = map (fun i => f (nth i rows d)) idx.
  Proof. unfold batch. rewrite map_map. reflexivity. Qed.

  Lemma batch_permutation rows rows' : Permutation rows rows' -> Permutation (batch rows) (batch rows').
  Proof. apply Permutation_map. Qed.

  (* unaffected by which other rows are present: the result for a row inside a larger batch is the result for the row alone *)
  Lemma batch_subset before r after : nth (length before) (batch (before ++ r :: after)) (f r) = f r.
  Proof. unfold batch. rewrite map_app. rewrite app_nth2 by (rewrite map_length; lia). rewrite map_length, Nat.sub_diag. reflexivity. Qed.
End PerRow.

(* ---- OneByOneConvolution: permute(0,2,3,1).reshape(b*h*w, c), a per-row linear map, reshape back ---- *)
Section Conv.
  Context {P Q : Type} (g : P -> Q).      (* the linear map applied to one pixel's channel vector *)
  (* an item is the list of its h*w pixel vectors; the code concatenates all items' pixels into one matrix,
     maps each row, and cuts the result back into items *)
  Definition conv_batch (npix : nat) (items : list (list P)) : list (list Q) :=
    chunks npix (length items) (map g (concat items)).
  Definition conv_item (pix : list P) : list Q := map g pix.

  Theorem conv_is_per_item npix items :
    Forall (fun it => length it = npix) items -> conv_batch npix items = map conv_item items.
  Proof.
    intros H. unfold conv_batch, conv_item. rewrite concat_map.
    rewrite <- (map_length (map g) items). apply chunks_concat.
    apply Forall_forall. intros r Hr. apply in_map_iff in Hr. destruct Hr as [it [<- Hit]].
    rewrite map_length. rewrite Forall_forall in H. apply H. exact Hit.
  Qed.
End Conv.

(* ---- masked gather / scatter of the unconstrained splines ---- *)
Section Masked.
  Context {A : Type} (inside : A -> bool) (spline : A -> A).
  (* outputs = zeros_like; outputs[outside] = inputs[outside]; outputs[inside] = spline(inputs[inside]) *)
  Fixpoint scatter (mask : list bool) (vals_true : list A) (orig : list A) : list A :=
    match mask, orig with
    | true :: m, _ :: o => match vals_true with v :: vs => v :: scatter m vs o | [] => [] end
    | false :: m, x :: o => x :: scatter m vals_true o
    | _, _ => []
    end.
  Definition masked_apply (xs : list A) : list A :=
    let mask := map inside xs in
    scatter mask (map spline (filter inside xs)) xs.

  Theorem masked_apply_is_elementwise xs : masked_apply xs = map (fun x => if inside x then spline x else x) xs.
  Proof.
    unfold masked_apply. induction xs as [|x xs IH]; [reflexivity|]. cbn [map filter].
    destruct (inside x) eqn:E; cbn [map scatter]; rewrite IH; reflexivity.
  Qed.
End Masked.
