(* Two features (C03 beyond one dimension, for flows that factorise): an elementwise transform - one one-dimensional map per
   feature, each with its own parameters, as the Piecewise*CDF transforms and PointwiseAffineTransform are - over
   StandardNormal([2]).  log_prob of the pair (x, y), built from the generated D-dimensional energy term, log-normaliser and
   flow_log_prob with the log-abs-dets summed over the features (sum_except_batch), has a density that integrates - as an
   iterated integral over the square [-A, A]^2 - to the PRODUCT of the base masses of [-A, A]: no multivariate change of variables
   is needed, the inner integral is a constant multiple of the outer integrand. *)
From Coq Require Import Reals ZArith List Bool Arith Lia Lra.
From Coquelicot Require Import Coquelicot.
From NF Require Import Base.Ops Base.Rops Gen.Dist Proofs.DistP.
Import ListNotations.
Open Scope R_scope.

Lemma product_iterated_integral (p1 p2 : R -> R) (a b m1 m2 : R) :
  is_RInt p1 a b m1 -> is_RInt p2 a b m2 ->
  is_RInt (fun x => RInt (fun y => p1 x * p2 y) a b) a b (m1 * m2).
Proof.
  intros H1 H2.
  assert (Inner : forall x, RInt (fun y => p1 x * p2 y) a b = p1 x * m2).
  { intros x. apply is_RInt_unique.
    apply (is_RInt_ext (fun y => scal (p1 x) (p2 y))); [intros y _; reflexivity|].
    apply (is_RInt_scal (V := R_NormedModule)). exact H2. }
  apply (is_RInt_ext (fun x => scal m2 (p1 x))).
  - intros x _. rewrite Inner. unfold scal; cbn. unfold mult; cbn. ring.
  - replace (m1 * m2) with (scal m2 m1) by (unfold scal; cbn; unfold mult; cbn; ring).
    apply (is_RInt_scal (V := R_NormedModule)). exact H1.
Qed.

Section TwoFeatures.
  Variables (U1 lad1 U2 lad2 : R -> R) (A m1 m2 : R).
  (* what the one-dimensional theorems provide for each feature's map *)
  Hypothesis (H1 : is_RInt (fun x => exp (flow_log_prob Rops (sn_lp1 (U1 x)) (lad1 x))) (- A) A m1)
             (H2 : is_RInt (fun y => exp (flow_log_prob Rops (sn_lp1 (U2 y)) (lad2 y))) (- A) A m2).

  (* Flow(elementwise (U1, U2), StandardNormal([2])).log_prob on the row (x, y) *)
  Definition log_prob2 (x y : R) : R :=
    flow_log_prob Rops
      (rsum (map (sn_neg_energy_term Rops) [U1 x; U2 y]) - sn_log_z Rops (INR (length [U1 x; U2 y])))
      (rsum [lad1 x; lad2 y]).

  Lemma log_prob2_splits x y :
    exp (log_prob2 x y) = exp (flow_log_prob Rops (sn_lp1 (U1 x)) (lad1 x)) * exp (flow_log_prob Rops (sn_lp1 (U2 y)) (lad2 y)).
  Proof.
    unfold log_prob2. rewrite standard_normal_factorises. unfold flow_log_prob. cbn [Rops o_add map rsum fold_right].
    rewrite <- exp_plus. f_equal. ring.
  Qed.

  Theorem two_feature_flow_carries_the_product_mass :
    is_RInt (fun x => RInt (fun y => exp (log_prob2 x y)) (- A) A) (- A) A (m1 * m2).
  Proof.
    apply (is_RInt_ext (fun x => RInt (fun y => exp (flow_log_prob Rops (sn_lp1 (U1 x)) (lad1 x))
                                               * exp (flow_log_prob Rops (sn_lp1 (U2 y)) (lad2 y))) (- A) A)).
    - intros x _. apply RInt_ext. intros y _. symmetry. apply log_prob2_splits.
    - apply (product_iterated_integral (fun x => exp (flow_log_prob Rops (sn_lp1 (U1 x)) (lad1 x)))
                                       (fun y => exp (flow_log_prob Rops (sn_lp1 (U2 y)) (lad2 y)))); assumption.
  Qed.
End TwoFeatures.
