(* One bin of the rational-quadratic spline under an integral: the generated output formula is smooth on the closed bin with the
   continuous derivative dnum / den^2, so int_bin phi (fwd x) * fwd' x dx = int_{output bin} phi for every continuous phi. *)
From Coq Require Import Reals Lra.
From Coquelicot Require Import Coquelicot.
From NF Require Import Base.Ops Base.Rops Gen.SplineRQ Proofs.SplineRQP Proofs.FlowP.
Open Scope R_scope.

Section BinIntegral.
  Variables (xk w yk h d0 d1 : R).
  Hypothesis (Hw : 0 < w) (Hh : 0 < h) (Hd0 : 0 < d0) (Hd1 : 0 < d1).

  Lemma deriv_continuous x : xk <= x <= xk + w -> continuous (deriv xk w h d0 d1) x.
  Proof.
    intros Hx. pose proof (den_pos w h d0 d1 Hw Hh Hd0 Hd1 _ (theta_range xk w Hw x Hx)) as Hden.
    apply (ex_derive_continuous (deriv xk w h d0 d1)).
    unfold deriv, dnum, den, theta in *. auto_derive. repeat split; try exact I.
    all: try (apply Rgt_not_eq; exact Hw).
    all: apply Rgt_not_eq; unfold Rminus, Rdiv in *; apply Rmult_lt_0_compat; exact Hden.
  Qed.

  Lemma bin_integral (phi : R -> R) : (forall y, yk <= y <= yk + h -> continuous phi y) ->
    is_RInt (fun x => phi (fwd xk w yk h d0 d1 x) * deriv xk w h d0 d1 x) xk (xk + w) (RInt phi yk (yk + h)).
  Proof.
    intros Hphi.
    pose proof (change_of_variables_1d (fwd xk w yk h d0 d1) (deriv xk w h d0 d1) phi xk (xk + w) ltac:(lra)) as H.
    rewrite (fwd_left xk w yk h d0 d1 Hw Hh Hd0 Hd1), (fwd_right xk w yk h d0 d1 Hw Hh) in H.
    apply (is_RInt_ext (fun x => scal (deriv xk w h d0 d1 x) (phi (fwd xk w yk h d0 d1 x)))).
    - intros x _. unfold scal; cbn. unfold mult; cbn. ring.
    - apply H.
      + intros x Hx. apply fwd_derive; assumption.
      + intros x Hx. apply deriv_continuous. exact Hx.
      + intros x Hx. apply Hphi. apply fwd_range; assumption.
  Qed.
End BinIntegral.
