(* Inverse identities of the elementwise nonlinearities (generated formulas, exact real arithmetic): both round trips and the
   negation of the log-abs-det, for tanh, the sigmoid with any temperature (inside its clamp) and the Cauchy CDF. *)
From Coq Require Import Reals Lra Lia.
From Coquelicot Require Import Coquelicot.
From NF Require Import Base.Ops Base.Rops Gen.Nonlin Proofs.NonlinP.
Open Scope R_scope.

(* ---------- tanh ---------- *)
Lemma tanh_as_exp x : tanh x = (exp (2 * x) - 1) / (exp (2 * x) + 1).
Proof.
  unfold tanh, sinh, cosh. pose proof (exp_pos x) as P. pose proof (exp_pos (- x)) as N.
  replace (exp (2 * x)) with (exp x * exp x) by (rewrite <- exp_plus; f_equal; lra).
  rewrite exp_Ropp. field. split; [nra | lra].
Qed.

Lemma one_plus_over_one_minus_tanh x : (1 + tanh x) / (1 - tanh x) = exp (2 * x).
Proof.
  rewrite tanh_as_exp. pose proof (exp_pos (2 * x)) as P. field. split; lra.
Qed.

Theorem tanh_inverse_of_forward x : tanh_inv_ret0 Rops (tanh_fwd_ret0 Rops x) = x.
Proof.
  unfold tanh_inv_ret0, tanh_fwd_ret0, o_lit. cbn [Rops o_mul o_ln o_div o_add o_sub o_ofZ o_tanh].
  rewrite one_plus_over_one_minus_tanh, ln_exp. lra.
Qed.

Theorem tanh_forward_of_inverse y : -1 < y < 1 -> tanh_fwd_ret0 Rops (tanh_inv_ret0 Rops y) = y.
Proof.
  intros [Hl Hr]. unfold tanh_inv_ret0, tanh_fwd_ret0, o_lit. cbn [Rops o_mul o_ln o_div o_add o_sub o_ofZ o_tanh].
  set (u := (1 + y) / (1 - y)). assert (Hu : 0 < u) by (unfold u; apply Rdiv_lt_0_compat; lra).
  rewrite tanh_as_exp. replace (2 * (1 / 2 * ln u)) with (ln u) by lra. rewrite exp_ln by exact Hu.
  unfold u. field. lra.
Qed.

Theorem tanh_logabsdets_negate x : tanh_inv_ret1 Rops (tanh_fwd_ret0 Rops x) = - tanh_fwd_ret1 Rops x.
Proof. reflexivity. Qed.

(* ---------- sigmoid with temperature T > 0; the inverse clamps its argument to [eps, 1 - eps] ---------- *)
Lemma logit_sig z : ln (sig z) - ln (1 - sig z) = z.
Proof.
  rewrite <- softplus_neg_is_ln_sig, <- softplus_is_ln_one_minus_sig. unfold o_softplus. cbn [Rops o_ln o_add o_one o_exp].
  pose proof (exp_pos z) as P. pose proof (exp_pos (- z)) as N.
  replace (- ln (1 + exp (- z)) - - ln (1 + exp z)) with (ln (1 + exp z) - ln (1 + exp (- z))) by lra.
  rewrite <- ln_div by lra. replace ((1 + exp z) / (1 + exp (- z))) with (exp z).
  - apply ln_exp.
  - rewrite exp_Ropp. field. split; lra.
Qed.

Lemma clamp_id v lo hi : lo <= v <= hi -> o_clamp Rops v lo hi = v.
Proof.
  intros [A B]. unfold o_clamp, o_min, o_max. cbn [Rops o_leb].
  destruct (Rleb v lo) eqn:E1.
  - apply Rleb_true in E1. assert (v = lo) by lra. subst. destruct (Rleb lo hi) eqn:E2; [reflexivity | apply Rleb_false in E2; lra].
  - destruct (Rleb v hi) eqn:E2; [reflexivity | apply Rleb_false in E2; lra].
Qed.

Lemma o_sigmoid_is_sig z : o_sigmoid Rops z = sig z.
Proof. unfold o_sigmoid, sig. cbn [Rops o_div o_one o_add o_exp o_neg]. reflexivity. Qed.

Theorem sigmoid_inverse_of_forward T eps x : 0 < T -> eps <= sig (T * x) <= 1 - eps ->
  sigm_inv_ret0 Rops (sigm_fwd_ret0 Rops x eps T) eps T = x.
Proof.
  intros HT Hc. unfold sigm_inv_ret0, sigm_fwd_ret0, o_log1p. cbn [Rops o_mul o_div o_sub o_ln o_add o_neg o_one o_ofZ].
  rewrite o_sigmoid_is_sig. rewrite clamp_id by exact Hc.
  replace (1 + - sig (T * x)) with (1 - sig (T * x)) by lra. rewrite logit_sig. field. lra.
Qed.

Theorem sigmoid_forward_of_inverse T eps y : 0 < T -> 0 < eps -> eps <= y <= 1 - eps ->
  sigm_fwd_ret0 Rops (sigm_inv_ret0 Rops y eps T) eps T = y.
Proof.
  intros HT He Hy. unfold sigm_inv_ret0, sigm_fwd_ret0, o_log1p. cbn [Rops o_mul o_div o_sub o_ln o_add o_neg o_one o_ofZ].
  rewrite clamp_id by exact Hy. rewrite o_sigmoid_is_sig.
  replace (T * (1 / T * (ln y - ln (1 + - y)))) with (ln y - ln (1 - y)).
  2:{ replace (1 + - y) with (1 - y) by lra. field. lra. }
  unfold sig. rewrite exp_Ropp. rewrite <- ln_div by lra. rewrite exp_ln by (apply Rdiv_lt_0_compat; lra). field. lra.
Qed.

Theorem sigmoid_logabsdets_negate T eps x : 0 < T -> eps <= sig (T * x) <= 1 - eps ->
  sigm_inv_ret1 Rops (sigm_fwd_ret0 Rops x eps T) eps T = - sigm_fwd_ret1 Rops x eps T.
Proof.
  intros HT Hc. pose proof (sigmoid_inverse_of_forward T eps x HT Hc) as E.
  unfold sigm_inv_ret1, sigm_fwd_ret1. unfold sigm_inv_ret0 in E. cbv zeta in E |- *.
  rewrite E. cbn [Rops o_mul o_neg]. replace (- T * x) with (- (T * x)) by lra. reflexivity.
Qed.

(* ---------- Cauchy CDF ---------- *)
Theorem cauchy_inverse_of_forward x : cauchy_inv_ret0 Rops (cauchy_fwd_ret0 Rops x) = x.
Proof.
  unfold cauchy_inv_ret0, cauchy_fwd_ret0, o_lit. cbn [Rops o_tan o_mul o_pi o_sub o_add o_div o_atan o_ofZ].
  replace (PI * (1 / PI * atan x + 1 / 2 - 1 / 2)) with (atan x) by (field; apply PI_neq0). apply tan_atan.
Qed.

Theorem cauchy_forward_of_inverse y : 0 < y < 1 -> cauchy_fwd_ret0 Rops (cauchy_inv_ret0 Rops y) = y.
Proof.
  intros [Hl Hr]. unfold cauchy_inv_ret0, cauchy_fwd_ret0, o_lit. cbn [Rops o_tan o_mul o_pi o_sub o_add o_div o_atan o_ofZ].
  pose proof PI_RGT_0 as P. rewrite atan_tan.
  - field. lra.
  - split; nra.
Qed.

Theorem cauchy_logabsdets_negate y : cauchy_inv_ret1 Rops y = - cauchy_fwd_ret1 Rops (cauchy_inv_ret0 Rops y).
Proof. reflexivity. Qed.
