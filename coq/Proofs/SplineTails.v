(* Linear tails of the four unconstrained splines, and their domain guards (real numbers). *)
From Coq Require Import Reals ZArith List Bool Lra.
From NF Require Import Base.Ops Base.Rops Base.Result Gen.SplineRQ Gen.SplineLinear Gen.SplineQuadratic Gen.SplineCubic
  Model.Vec Model.SplineRQ Model.SplineLinear Model.SplineQuadratic Model.SplineCubic.
Import ListNotations.
Open Scope R_scope.

Lemma andb_Rleb a b c d : (Rleb a b && Rleb c d = true) <-> a <= b /\ c <= d.
Proof. rewrite andb_true_iff, !Rleb_true. tauto. Qed.

(* the inside-the-interval mask is the closed interval [-B, B], for every family *)
Lemma rq_inside_iff x B : rq_inside_tails Rops x B = true <-> - B <= x <= B.
Proof. unfold rq_inside_tails. cbn [Rops o_leb o_neg]. apply andb_Rleb. Qed.
Lemma lin_inside_iff x B : lin_inside_tails Rops x B = true <-> - B <= x <= B.
Proof. unfold lin_inside_tails. cbn [Rops o_leb o_neg]. apply andb_Rleb. Qed.
Lemma quad_inside_iff x B : quad_inside_tails Rops x B = true <-> - B <= x <= B.
Proof. unfold quad_inside_tails. cbn [Rops o_leb o_neg]. apply andb_Rleb. Qed.
Lemma cub_inside_iff x B : cub_inside_tails Rops x B = true <-> - B <= x <= B.
Proof. unfold cub_inside_tails. cbn [Rops o_leb o_neg]. apply andb_Rleb. Qed.

Lemma not_inside x B : B < Rabs x -> ~ (- B <= x <= B).
Proof. intros H [H1 H2]. unfold Rabs in H. destruct (Rcase_abs x); lra. Qed.

(* outside the tail bound every family is the identity with zero log-det, both directions *)
Theorem tails_identity (x B : R) : B < Rabs x ->
  (forall c inv uw uh ud, rq_unconstrained Rops c inv B uw uh ud x = Ok (x, 0)) /\
  (forall inv u, linear_unconstrained Rops inv B u x = Ok (x, 0)) /\
  (forall mw mh inv uw uh, quadratic_unconstrained Rops mw mh inv B uw uh x = Ok (x, 0)) /\
  (forall mw mh e t inv uw uh ul ur, cubic_unconstrained Rops mw mh e t inv B uw uh ul ur x = Ok (x, 0)).
Proof.
  intros H. pose proof (not_inside x B H) as N. repeat split; intros.
  - unfold rq_unconstrained. destruct (rq_inside_tails Rops x B) eqn:E; [apply rq_inside_iff in E; contradiction | reflexivity].
  - unfold linear_unconstrained. destruct (lin_inside_tails Rops x B) eqn:E; [apply lin_inside_iff in E; contradiction | reflexivity].
  - unfold quadratic_unconstrained. destruct (quad_inside_tails Rops x B) eqn:E; [apply quad_inside_iff in E; contradiction | reflexivity].
  - unfold cubic_unconstrained. destruct (cub_inside_tails Rops x B) eqn:E; [apply cub_inside_iff in E; contradiction | reflexivity].
Qed.

(* the bounded splines reject exactly the inputs outside the direction's interval *)
Lemma rejects_iff x lo hi :
  (rq_rejects Rops x x lo hi = true <-> x < lo \/ hi < x) /\ (lin_rejects Rops x x lo hi = true <-> x < lo \/ hi < x) /\
  (quad_rejects Rops x x lo hi = true <-> x < lo \/ hi < x) /\ (cub_rejects Rops x x lo hi = true <-> x < lo \/ hi < x).
Proof.
  unfold rq_rejects, lin_rejects, quad_rejects, cub_rejects. cbn [Rops o_ltb].
  repeat split; rewrite ?orb_true_iff, ?Rltb_true; tauto.
Qed.

Lemma bounds_direction (inv : bool) (l r b t : R) :
  rq_bounds inv l r b t = (if inv then (b, t) else (l, r)) /\ lin_bounds inv l r b t = (if inv then (b, t) else (l, r)) /\
  quad_bounds inv l r b t = (if inv then (b, t) else (l, r)) /\ cub_bounds inv l r b t = (if inv then (b, t) else (l, r)).
Proof. repeat split. Qed.
