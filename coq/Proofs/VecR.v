(* Real-number lemmas about Model/Vec.v: softmax, cumulative sums, knot vectors. *)
From Coq Require Import Reals ZArith List Bool Arith Lia Lra Sorted.
From NF Require Import Base.Ops Base.Rops Model.Vec.
Import ListNotations.
Open Scope R_scope.

Notation vsumR := (vsum Rops).

Lemma vsum_cons a l : vsumR (a :: l) = a + vsumR l.
Proof. reflexivity. Qed.

Lemma vsum_app l1 l2 : vsumR (l1 ++ l2) = vsumR l1 + vsumR l2.
Proof. induction l1 as [|a l1 IH]; cbn [app]; [cbn; lra|]. rewrite !vsum_cons, IH. lra. Qed.

Lemma vsum_pos l : l <> [] -> Forall (fun v => 0 < v) l -> 0 < vsumR l.
Proof.
  induction l as [|a l IH]; intros Hne F; [congruence|]. inversion F as [|? ? Ha Fl]; subst. rewrite vsum_cons.
  destruct l as [|b l']; [cbn; lra|]. assert (0 < vsumR (b :: l')) by (apply IH; [discriminate | exact Fl]). lra.
Qed.

Lemma vsum_nonneg l : Forall (fun v => 0 < v) l -> 0 <= vsumR l.
Proof. induction l as [|a l IH]; intros F; [cbn; lra|]. inversion F; subst. rewrite vsum_cons. specialize (IH H2). lra. Qed.

Lemma vsum_map_div (l : list R) s : s <> 0 -> vsumR (map (fun x => x / s) l) = vsumR l / s.
Proof. intros Hs. induction l as [|a l IH]; cbn [map]; [cbn; field; exact Hs|]. rewrite !vsum_cons, IH. field. exact Hs. Qed.

Lemma vsum_map_affine (a b : R) (l : list R) :
  vsumR (map (fun v => a + b * v) l) = a * INR (length l) + b * vsumR l.
Proof.
  induction l as [|x l IH]; [cbn; lra|]. cbn [map length]. rewrite !vsum_cons, IH, S_INR. lra.
Qed.

(* ---- softmax ---- *)
Lemma softmax_length (l : list R) : length (softmax Rops l) = length l.
Proof. unfold softmax. rewrite !map_length. reflexivity. Qed.

Lemma exps_pos (l : list R) : Forall (fun v => 0 < v) (map exp l).
Proof. induction l; constructor; [apply exp_pos | assumption]. Qed.

Lemma softmax_pos (l : list R) : l <> [] -> Forall (fun v => 0 < v) (softmax Rops l).
Proof.
  intros Hne. unfold softmax. cbn [o_exp o_div Rops].
  assert (Hs : 0 < vsumR (map exp l)) by (apply vsum_pos; [destruct l; [congruence | discriminate] | apply exps_pos]).
  rewrite Forall_forall. intros v Hv. rewrite in_map_iff in Hv. destruct Hv as [e [<- He]].
  rewrite in_map_iff in He. destruct He as [u [<- _]]. apply Rdiv_lt_0_compat; [apply exp_pos | exact Hs].
Qed.

Lemma softmax_sum (l : list R) : l <> [] -> vsumR (softmax Rops l) = 1.
Proof.
  intros Hne. unfold softmax. cbn [o_exp o_div Rops].
  assert (Hs : 0 < vsumR (map exp l)) by (apply vsum_pos; [destruct l; [congruence | discriminate] | apply exps_pos]).
  rewrite vsum_map_div by lra. field. lra.
Qed.

(* ---- cumulative sums ---- *)
Definition psum (l : list R) (i : nat) : R := vsumR (firstn i l).

Lemma psum_0 l : psum l 0 = 0.
Proof. reflexivity. Qed.

Lemma firstn_S_nth (l : list R) i : (i < length l)%nat -> firstn (S i) l = firstn i l ++ [nth i l 0].
Proof.
  revert i. induction l as [|a l IH]; intros i Hi; [simpl in Hi; lia|]. destruct i as [|i]; [reflexivity|].
  cbn [firstn nth app]. f_equal. apply IH. simpl in Hi. lia.
Qed.

Lemma psum_S l i : (i < length l)%nat -> psum l (S i) = psum l i + nth i l 0.
Proof. intros Hi. unfold psum. rewrite firstn_S_nth by exact Hi. rewrite vsum_app, vsum_cons. cbn. lra. Qed.

Lemma psum_all l : psum l (length l) = vsumR l.
Proof. unfold psum. rewrite firstn_all. reflexivity. Qed.

Lemma psum_cons a l i : psum (a :: l) (S i) = a + psum l i.
Proof. unfold psum. cbn [firstn]. apply vsum_cons. Qed.

Lemma cumsum_from_nth acc l i : (i < length l)%nat -> nth i (cumsum_from Rops acc l) 0 = acc + psum l (S i).
Proof.
  revert acc i. induction l as [|a l IH]; intros acc i Hi; [simpl in Hi; lia|]. cbn [cumsum_from]. destruct i as [|i].
  - cbn [nth]. rewrite psum_cons, psum_0. cbn [o_add Rops]. lra.
  - cbn [nth]. simpl in Hi. rewrite IH by lia. rewrite (psum_cons a l (S i)). cbn [o_add Rops]. lra.
Qed.

Lemma cumsum_from_length acc l : length (cumsum_from Rops acc l) = length l.
Proof. revert acc. induction l as [|a l IH]; intros acc; [reflexivity|]. cbn [cumsum_from length]. rewrite IH. reflexivity. Qed.

Lemma cumsum_length l : length (cumsum Rops l) = length l.
Proof. destruct l as [|a l]; [reflexivity|]. cbn [cumsum length]. rewrite cumsum_from_length. reflexivity. Qed.

Lemma cumsum_nth l i : (i < length l)%nat -> nth i (cumsum Rops l) 0 = psum l (S i).
Proof.
  destruct l as [|a l]; intros Hi; [simpl in Hi; lia|]. cbn [cumsum]. destruct i as [|i].
  - cbn [nth]. rewrite psum_cons, psum_0. lra.
  - cbn [nth]. simpl in Hi. rewrite cumsum_from_nth by lia. rewrite (psum_cons a l (S i)). reflexivity.
Qed.

(* 0 :: cumsum l lists the partial sums psum l 0 .. psum l (length l) *)
Lemma zcumsum_nth l i : (i <= length l)%nat -> nth i (0 :: cumsum Rops l) 0 = psum l i.
Proof. destruct i as [|i]; intros Hi; [reflexivity|]. cbn [nth]. apply cumsum_nth. lia. Qed.

Lemma psum_lt l i j : Forall (fun v => 0 < v) l -> (i < j)%nat -> (j <= length l)%nat -> psum l i < psum l j.
Proof.
  intros F Hij Hj. induction j as [|j IH]; [lia|].
  assert (Hp : 0 < nth j l 0).
  { rewrite Forall_forall in F. apply F. apply nth_In. lia. }
  rewrite psum_S by lia. destruct (Nat.eq_dec i j) as [->|Hne]; [lra|]. assert (psum l i < psum l j) by (apply IH; lia). lra.
Qed.

(* ---- set_first / set_last ---- *)
Lemma set_first_same (a : R) l : nth 0 l 0 = a -> l <> [] -> set_first a l = l.
Proof. destruct l as [|x r]; intros H Hne; [congruence|]. simpl in H. subst. reflexivity. Qed.

Lemma set_last_same (a : R) l : last l 0 = a -> l <> [] -> set_last a l = l.
Proof.
  induction l as [|x r IH]; intros H Hne; [congruence|]. destruct r as [|y r'].
  - simpl in H. subst. reflexivity.
  - cbn [set_last]. f_equal. apply IH; [exact H | discriminate].
Qed.

Lemma last_nth (l : list R) : last l 0 = nth (length l - 1) l 0.
Proof.
  induction l as [|x r IH]; [reflexivity|]. destruct r as [|y r']; [reflexivity|].
  change (last (x :: y :: r') 0) with (last (y :: r') 0). rewrite IH. cbn [length].
  replace (S (S (length r')) - 1)%nat with (S (length r')) by lia.
  replace (S (length r') - 1)%nat with (length r') by lia. reflexivity.
Qed.

(* ---- differences ---- *)
Lemma diffs_cons2 (x y : R) r : diffs Rops (x :: y :: r) = (y - x) :: diffs Rops (y :: r).
Proof. reflexivity. Qed.

Lemma diffs_length (l : list R) : length (diffs Rops l) = (length l - 1)%nat.
Proof.
  induction l as [|x r IH]; [reflexivity|]. destruct r as [|y r']; [reflexivity|].
  rewrite diffs_cons2. cbn [length] in *. rewrite IH. lia.
Qed.

Lemma diffs_nth (l : list R) k : (S k < length l)%nat -> nth k (diffs Rops l) 0 = nth (S k) l 0 - nth k l 0.
Proof.
  revert k. induction l as [|x r IH]; intros k Hk; [simpl in Hk; lia|]. destruct r as [|y r']; [simpl in Hk; lia|].
  rewrite diffs_cons2. destruct k as [|k]; [reflexivity|]. cbn [nth]. rewrite IH by (cbn [length] in *; lia). reflexivity.
Qed.

(* a list given by an increasing index function is strongly sorted *)
Lemma sorted_of_nth (l : list R) : (forall i j, (i < j)%nat -> (j < length l)%nat -> nth i l 0 < nth j l 0) ->
  StronglySorted Rlt l.
Proof.
  induction l as [|x r IH]; intros H; [constructor|]. constructor.
  - apply IH. intros i j Hij Hj. apply (H (S i) (S j)); simpl; lia.
  - rewrite Forall_forall. intros v Hv. destruct (In_nth _ _ 0 Hv) as [n [Hn <-]]. apply (H 0%nat (S n)); simpl; lia.
Qed.
