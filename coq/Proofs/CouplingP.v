From Coq Require Import ZArith List Bool Arith Lia Sorted.
From NF Require Import Model.Coupling.
Import ListNotations.

(* ---------- the index buffers partition the features ---------- *)
Lemma in_identity_idx mask i : In i (identity_idx mask) <-> i < length mask /\ (nth i mask 0%Z <= 0)%Z.
Proof. unfold identity_idx. rewrite filter_In, in_seq, Z.leb_le. intuition lia. Qed.

Lemma in_transform_idx mask i : In i (transform_idx mask) <-> i < length mask /\ (0 < nth i mask 0%Z)%Z.
Proof. unfold transform_idx. rewrite filter_In, in_seq, Z.ltb_lt. intuition lia. Qed.

Lemma idx_disjoint mask i : In i (identity_idx mask) -> ~ In i (transform_idx mask).
Proof. rewrite in_identity_idx, in_transform_idx. lia. Qed.

Lemma idx_cover mask i : i < length mask -> In i (identity_idx mask) \/ In i (transform_idx mask).
Proof. intros H. rewrite in_identity_idx, in_transform_idx. destruct (Z_le_gt_dec (nth i mask 0%Z) 0%Z); [left | right]; lia. Qed.

Lemma NoDup_filter {A} (f : A -> bool) l : NoDup l -> NoDup (filter f l).
Proof.
  induction 1 as [|a l Hn Hd IH]; cbn; [constructor|]. destruct (f a); [|exact IH].
  constructor; [|exact IH]. intros Hin. apply filter_In in Hin. tauto.
Qed.

Lemma idx_nodup mask : NoDup (identity_idx mask) /\ NoDup (transform_idx mask).
Proof. split; apply NoDup_filter, seq_NoDup. Qed.

Lemma sorted_filter_seq (f : nat -> bool) s n : StronglySorted lt (filter f (seq s n)).
Proof.
  revert s; induction n as [|n IH]; intros s; cbn; [constructor|].
  destruct (f s); [|apply IH]. constructor; [apply IH|].
  apply Forall_forall. intros j Hj. apply filter_In in Hj. destruct Hj as [Hj _]. apply in_seq in Hj. lia.
Qed.

Lemma idx_sorted mask : StronglySorted lt (identity_idx mask) /\ StronglySorted lt (transform_idx mask).
Proof. split; apply sorted_filter_seq. Qed.

Lemma idx_lengths mask : length (identity_idx mask) + length (transform_idx mask) = length mask.
Proof.
  unfold identity_idx, transform_idx.
  assert (G : forall l : list nat,
             length (filter (fun i => (nth i mask 0 <=? 0)%Z) l) + length (filter (fun i => (0 <? nth i mask 0)%Z) l)
             = length l).
  { induction l as [|a l IH]; cbn; [reflexivity|].
    destruct (Z.leb_spec (nth a mask 0%Z) 0); destruct (Z.ltb_spec 0 (nth a mask 0%Z)); cbn; lia. }
  rewrite G, seq_length. reflexivity.
Qed.

Lemma nth_map_lt {A B} (f : A -> B) l k d d' : k < length l -> nth k (map f l) d = f (nth k l d').
Proof.
  revert k; induction l as [|a l IH]; intros k H; cbn in H; [lia|].
  destruct k as [|k]; cbn; [reflexivity | apply IH; lia].
Qed.

Section Coupling.
  Context {B P C L : Type}.
  Variable d : B.
  Variable net : list B -> C -> P.
  Variable kel_fwd kel_inv : P -> nat -> B -> B.
  Variable kld_fwd kld_inv : P -> list B -> L.
  Variables (ladd : L -> L -> L) (lzero : L).

  Notation gather := (gather d).
  Notation scatter2 := (scatter2 d).
  Notation fwd0 := (forward d net kel_fwd kld_fwd ladd None).
  Notation inv0 := (inverse d net kel_inv kld_inv ladd lzero None).

  Lemma index_of_in i idx : In i idx -> exists k, index_of i idx = Some k /\ k < length idx /\ nth k idx 0 = i.
  Proof.
    induction idx as [|j r IH]; intros H; [destruct H|]. cbn [index_of].
    destruct (Nat.eqb_spec i j) as [->|Hne].
    - exists 0. cbn. repeat split; lia.
    - destruct H as [->|H]; [contradiction|]. destruct (IH H) as [k [E [Hk Hn]]].
      exists (S k). rewrite E. cbn. repeat split; [lia | exact Hn].
  Qed.

  Lemma index_of_notin i idx : ~ In i idx -> index_of i idx = None.
  Proof.
    induction idx as [|j r IH]; intros H; [reflexivity|]. cbn [index_of].
    destruct (Nat.eqb_spec i j) as [->|Hne]; [exfalso; apply H; left; reflexivity|].
    rewrite IH; [reflexivity|]. intros Hin. apply H. right. exact Hin.
  Qed.

  Lemma index_of_nth k idx : NoDup idx -> k < length idx -> index_of (nth k idx 0) idx = Some k.
  Proof.
    revert k; induction idx as [|j r IH]; intros k ND Hk; [cbn in Hk; lia|].
    inversion ND as [|? ? Hn ND']; subst. destruct k as [|k]; cbn [nth index_of].
    - rewrite Nat.eqb_refl. reflexivity.
    - destruct (Nat.eqb_spec (nth k r 0) j) as [E|_].
      + exfalso. apply Hn. rewrite <- E. apply nth_In. cbn in Hk. lia.
      + rewrite IH by (try assumption; cbn in Hk; lia). reflexivity.
  Qed.

  Lemma gather_length idx x : length (gather idx x) = length idx.
  Proof. apply map_length. Qed.

  Lemma gather_nth idx x k : k < length idx -> nth k (gather idx x) d = nth (nth k idx 0) x d.
  Proof.
    intros H. unfold Coupling.gather. rewrite (nth_map_lt (fun i => nth i x d) idx k d 0) by exact H. reflexivity.
  Qed.

  Lemma scatter2_nth F idi a tri b i :
    i < F ->
    nth i (scatter2 F idi a tri b) d =
    match index_of i tri with
    | Some k => nth k b d
    | None => match index_of i idi with Some k => nth k a d | None => d end
    end.
  Proof.
    intros H. unfold Coupling.scatter2.
    rewrite (nth_map_lt _ (seq 0 F) i d 0) by (rewrite seq_length; exact H).
    rewrite seq_nth by exact H. reflexivity.
  Qed.

  Lemma scatter2_length F idi a tri b : length (scatter2 F idi a tri b) = F.
  Proof. unfold Coupling.scatter2. rewrite map_length, seq_length. reflexivity. Qed.

  Lemma mapi_nth f (l : list B) k : k < length l -> nth k (mapi f l) d = f k (nth k l d).
  Proof.
    intros H. unfold mapi.
    rewrite (nth_map_lt _ _ k d (0, d)) by (rewrite combine_length, seq_length; lia).
    rewrite combine_nth by (rewrite seq_length; reflexivity). rewrite seq_nth by exact H. reflexivity.
  Qed.

  Lemma mapi_length f (l : list B) : length (mapi f l) = length l.
  Proof. unfold mapi. rewrite map_length, combine_length, seq_length. lia. Qed.

  (* identity features come back bit-for-bit *)
  Theorem identity_passthrough_fwd mask x ctx i :
    i < length mask -> (nth i mask 0%Z <= 0)%Z -> nth i (fst (fwd0 mask x ctx)) d = nth i x d.
  Proof.
    intros Hi Hm. unfold forward. cbn [fst]. rewrite scatter2_nth by exact Hi.
    assert (Hin : In i (identity_idx mask)) by (apply in_identity_idx; split; assumption).
    rewrite (index_of_notin i (transform_idx mask)) by (apply idx_disjoint; exact Hin).
    destruct (index_of_in i _ Hin) as [k [E [Hk Hn]]]. rewrite E, gather_nth by exact Hk. rewrite Hn. reflexivity.
  Qed.

  Theorem identity_passthrough_inv mask y ctx i :
    i < length mask -> (nth i mask 0%Z <= 0)%Z -> nth i (fst (inv0 mask y ctx)) d = nth i y d.
  Proof.
    intros Hi Hm. unfold inverse. cbn [fst]. rewrite scatter2_nth by exact Hi.
    assert (Hin : In i (identity_idx mask)) by (apply in_identity_idx; split; assumption).
    rewrite (index_of_notin i (transform_idx mask)) by (apply idx_disjoint; exact Hin).
    destruct (index_of_in i _ Hin) as [k [E [Hk Hn]]]. rewrite E, gather_nth by exact Hk. rewrite Hn. reflexivity.
  Qed.

  (* each transformed feature is the kernel applied to its own input, with parameters
     computed from the identity features and the context only *)
  Theorem transformed_feature_fwd mask x ctx k :
    k < length (transform_idx mask) ->
    let i := nth k (transform_idx mask) 0 in
    nth i (fst (fwd0 mask x ctx)) d
    = kel_fwd (net (gather (identity_idx mask) x) ctx) k (nth i x d).
  Proof.
    intros Hk i. unfold forward. cbn [fst].
    assert (Hin : In i (transform_idx mask)) by (apply nth_In; exact Hk).
    assert (Hi : i < length mask) by (apply in_transform_idx in Hin; tauto).
    rewrite scatter2_nth by exact Hi. unfold i at 1.
    rewrite index_of_nth by (try exact Hk; apply idx_nodup).
    rewrite mapi_nth by (rewrite gather_length; exact Hk). rewrite gather_nth by exact Hk. reflexivity.
  Qed.

  (* the conditioner sees the identity features only *)
  Theorem conditioner_depends_on_identity_only mask x x' :
    (forall i, In i (identity_idx mask) -> nth i x d = nth i x' d) ->
    gather (identity_idx mask) x = gather (identity_idx mask) x'.
  Proof. intros H. unfold Coupling.gather. apply map_ext_in. exact H. Qed.

  (* Jacobian structure: output i depends on input i and on the identity inputs only *)
  Theorem coupling_dependency mask x x' ctx i :
    i < length mask ->
    (forall j, In j (identity_idx mask) -> nth j x d = nth j x' d) -> nth i x d = nth i x' d ->
    nth i (fst (fwd0 mask x ctx)) d = nth i (fst (fwd0 mask x' ctx)) d.
  Proof.
    intros Hi Hid Hsame. destruct (idx_cover mask i Hi) as [Hin|Hin].
    - apply in_identity_idx in Hin. rewrite !identity_passthrough_fwd by tauto. exact Hsame.
    - destruct (index_of_in i _ Hin) as [k [_ [Hk Hn]]]. rewrite <- Hn.
      rewrite !transformed_feature_fwd by exact Hk.
      rewrite (conditioner_depends_on_identity_only mask x x' Hid), Hn, Hsame. reflexivity.
  Qed.

  Lemma nth_ext_len (l l' : list B) : length l = length l' -> (forall i, i < length l -> nth i l d = nth i l' d) -> l = l'.
  Proof. intros H1 H2. apply (nth_ext l l' d d H1 H2). Qed.

  (* inverse undoes forward whenever the elementwise kernel's inverse undoes it *)
  Theorem coupling_inverse_forward mask x ctx :
    length x = length mask ->
    (forall p k v, kel_inv p k (kel_fwd p k v) = v) ->
    fst (inv0 mask (fst (fwd0 mask x ctx)) ctx) = x.
  Proof.
    intros Hlen Hk. set (y := fst (fwd0 mask x ctx)).
    assert (Ly : length y = length mask) by (unfold y, forward; cbn [fst]; apply scatter2_length).
    assert (Gid : gather (identity_idx mask) y = gather (identity_idx mask) x).
    { unfold Coupling.gather. apply map_ext_in. intros i Hi. apply in_identity_idx in Hi.
      unfold y. apply identity_passthrough_fwd; tauto. }
    apply nth_ext_len.
    - unfold inverse. cbn [fst]. rewrite scatter2_length. lia.
    - intros i Hi. unfold inverse in Hi. cbn [fst] in Hi. rewrite scatter2_length in Hi.
      destruct (idx_cover mask i Hi) as [Hin|Hin].
      + apply in_identity_idx in Hin. rewrite identity_passthrough_inv by tauto.
        unfold y. apply identity_passthrough_fwd; tauto.
      + destruct (index_of_in i _ Hin) as [k [_ [Hkl Hn]]].
        unfold inverse. cbn [fst]. rewrite scatter2_nth by exact Hi. rewrite <- Hn at 1.
        rewrite index_of_nth by (try exact Hkl; apply idx_nodup).
        rewrite mapi_nth by (rewrite gather_length; exact Hkl). rewrite gather_nth by exact Hkl.
        rewrite Gid. unfold y. rewrite transformed_feature_fwd by exact Hkl. rewrite Hk, Hn. reflexivity.
  Qed.
End Coupling.
