(* Linear-family parameterisations as matrices over R (mathcomp): LU, Householder, QR, SVD.
   The weight matrices are characterised structurally (unit lower-triangular L, upper-triangular U / R
   with the stated diagonal, reflection vectors), exactly what the constructors build from the
   parameter vectors; the extracted executable model is compared with the code for that construction. *)
From Coq Require Import Reals Lra.
From mathcomp Require Import all_ssreflect all_fingroup all_algebra.
From NF Require Import Base.Rstruct Proofs.DetP.
Set Implicit Arguments. Unset Strict Implicit. Unset Printing Implicit Defensive.
Import GRing.Theory.
Local Open Scope ring_scope.

Section LU.
  Variable n : nat.
  Variables L U : 'M[R]_n.
  Hypothesis L_lower : forall i j : 'I_n, (i < j)%N -> L i j = 0.
  Hypothesis L_unit : forall i, L i i = 1.
  Hypothesis U_upper : forall i j : 'I_n, (j < i)%N -> U i j = 0.
  Hypothesis U_diag_pos : forall i, Rlt 0%R (U i i).

  (* logabsdet() = sum of the logs of the upper diagonal = log |det (L U)| *)
  Theorem lu_logabsdet : Rlt 0%R (\det (L *m U)) /\ ln (Rabs (\det (L *m U))) = \sum_(i < n) ln (U i i).
  Proof.
    have EL : \det L = 1.
    { rewrite (det_lower_triangular L_lower). by rewrite (eq_bigr (fun _ => 1)) ?prodr_const ?expr1n // => i _; exact: L_unit. }
    have [PU EU] := logdet_triangular (or_intror U_upper) U_diag_pos.
    rewrite det_mulmx EL mul1r. by split.
  Qed.

  (* forward: F.linear(F.linear(x, U), L, b) is x |-> (L U) x + b *)
  Theorem lu_forward_is_affine (x b : 'cV[R]_n) : L *m (U *m x) + b = (L *m U) *m x + b.
  Proof. by rewrite mulmxA. Qed.

  (* weight_inverse: solving with L then with U inverts L U *)
  Theorem lu_weight_inverse (Li Ui : 'M[R]_n) : Li *m L = 1%:M -> Ui *m U = 1%:M -> (Ui *m Li) *m (L *m U) = 1%:M.
  Proof. move=> HL HU. by rewrite mulmxA -(mulmxA Ui) HL mulmx1 HU. Qed.

  (* inverse pass: x = U^-1 (L^-1 (y - b)) undoes the forward pass *)
  Theorem lu_inverse_pass (Li Ui : 'M[R]_n) (x b : 'cV[R]_n) :
    Li *m L = 1%:M -> Ui *m U = 1%:M -> Ui *m (Li *m (((L *m U) *m x + b) - b)) = x.
  Proof. move=> HL HU. by rewrite addrK !mulmxA -(mulmxA Ui) HL mulmx1 HU mul1mx. Qed.
End LU.

Section Householder.
  Variable n : nat.

  (* one reflection: H = I - c v v^T with c * (v^T v) = 2, i.e. c = 2 / |v|^2 for v <> 0 *)
  Definition hh (c : R) (v : 'cV[R]_n) : 'M[R]_n := 1%:M - c *: (v *m v^T).

  Lemma vvT_sq (v : 'cV[R]_n) : (v *m v^T) *m (v *m v^T) = ((v^T *m v) 0 0) *: (v *m v^T).
  Proof.
    rewrite -mulmxA (mulmxA v^T). rewrite [v^T *m v]mx11_scalar mul_scalar_mx -scalemxAr.
    by rewrite [in RHS]mxE /= mulr1n.
  Qed.

  Lemma hh_sym c v : (hh c v)^T = hh c v.
  Proof. by rewrite /hh linearB /= trmx1 linearZ /= trmx_mul trmxK. Qed.

  (* a Householder reflection is an involution, hence orthogonal *)
  Theorem hh_involutive c v : c * (v^T *m v) 0 0 = 2%:R -> hh c v *m hh c v = 1%:M.
  Proof.
    move=> Hc. rewrite /hh. set P := v *m v^T. set s := (v^T *m v) 0 0 in Hc.
    have PP : P *m P = s *: P by exact: vvT_sq.
    rewrite mulmxBl mul1mx mulmxBr mulmx1 -scalemxAl -scalemxAr PP !scalerA.
    have -> : c * c * s = c + c by rewrite -mulrA Hc mulr_natr mulr2n.
    rewrite scalerDl. set X := c *: P.
    have -> : X - (X + X) = - X by rewrite opprD addrA subrr add0r.
    by rewrite opprK subrK.
  Qed.

  Definition orth (Q : 'M[R]_n) : Prop := Q^T *m Q = 1%:M.

  Theorem hh_orthogonal c v : c * (v^T *m v) 0 0 = 2%:R -> orth (hh c v).
  Proof. move=> Hc. by rewrite /orth hh_sym hh_involutive. Qed.

  Lemma orth_mul (Q1 Q2 : 'M[R]_n) : orth Q1 -> orth Q2 -> orth (Q1 *m Q2).
  Proof. rewrite /orth => H1 H2. by rewrite trmx_mul mulmxA -(mulmxA Q2^T) H1 mulmx1 H2. Qed.

  Lemma orth1 : orth (1%:M : 'M[R]_n).
  Proof. by rewrite /orth trmx1 mulmx1. Qed.

  (* a sequence of Householder reflections (any number, any non-zero vectors) is orthogonal *)
  Theorem hh_sequence_orthogonal (cvs : seq (R * 'cV[R]_n)) :
    (forall cv, cv \in cvs -> cv.1 * (cv.2^T *m cv.2) 0 0 = 2%:R) ->
    orth (foldr (fun cv acc => hh cv.1 cv.2 *m acc) 1%:M cvs).
  Proof.
    elim: cvs => [|cv cvs IH] H /=; first exact: orth1.
    apply: orth_mul; first by apply: hh_orthogonal; apply: H; rewrite inE eqxx.
    apply: IH => x Hx. apply: H. by rewrite inE Hx orbT.
  Qed.

  Lemma orth_det_sq (Q : 'M[R]_n) : orth Q -> \det Q * \det Q = 1.
  Proof. move=> H. by rewrite -{1}det_tr -det_mulmx H det1. Qed.

  (* orthogonal matrices have log |det| = 0 *)
  Theorem orth_logabsdet (Q : 'M[R]_n) : orth Q -> ln (Rabs (\det Q)) = 0%R.
  Proof.
    move=> /orth_det_sq H. set d := \det Q in H *.
    have Hd : Rmult d d = 1%R by exact: H.
    have A : Rmult (Rabs d) (Rabs d) = 1%R by rewrite -Rabs_mult Hd Rabs_R1.
    have P : Rle 0%R (Rabs d) by exact: Rabs_pos.
    have -> : Rabs d = 1%R.
    { apply: Rsqr_inj; [exact: P | exact: Rle_0_1 | by rewrite /Rsqr A Rmult_1_r]. }
    exact: ln_1.
  Qed.

  (* QR: W = Q R with Q orthogonal and R upper triangular with diagonal exp(log_upper_diag) *)
  Theorem qr_logabsdet (Q Rm : 'M[R]_n) :
    orth Q -> (forall i j : 'I_n, (j < i)%N -> Rm i j = 0) -> (forall i, Rlt 0%R (Rm i i)) ->
    ln (Rabs (\det (Q *m Rm))) = \sum_(i < n) ln (Rm i i).
  Proof.
    move=> HQ Hup Hpos. have [PR ER] := logdet_triangular (or_intror Hup) Hpos.
    have HQ1 := orth_logabsdet HQ. have HQd := orth_det_sq HQ.
    rewrite det_mulmx. have -> : Rabs (\det Q * \det Rm) = Rmult (Rabs (\det Q)) (Rabs (\det Rm)) by exact: Rabs_mult.
    rewrite ln_mult.
    - by rewrite HQ1 ER Rplus_0_l.
    - apply: Rabs_pos_lt => E. rewrite E in HQd. have X : Rmult 0%R 0%R = 1%R by exact: HQd. rewrite Rmult_0_l in X. exact: (R1_neq_R0 (esym X)).
    - apply: Rabs_pos_lt => E. rewrite E in PR. exact: (Rlt_irrefl _ PR).
  Qed.

  (* weight_inverse of QR: R^-1 Q^T *)
  Theorem qr_weight_inverse (Q Rm Ri : 'M[R]_n) : orth Q -> Ri *m Rm = 1%:M -> (Ri *m Q^T) *m (Q *m Rm) = 1%:M.
  Proof. move=> HQ HR. by rewrite mulmxA -(mulmxA Ri) HQ mulmx1 HR. Qed.


  (* SVD: W = U D V^T with U, V orthogonal and D diagonal with positive entries *)
  Theorem svd_logabsdet (U V D : 'M[R]_n) :
    orth U -> orth V -> (forall i j : 'I_n, i != j -> D i j = 0) -> (forall i, Rlt 0%R (D i i)) ->
    ln (Rabs (\det (U *m D *m V^T))) = \sum_(i < n) ln (D i i).
  Proof.
    move=> HU HV Hd Hpos.
    have Hlow : forall i j : 'I_n, (j < i)%N -> D i j = 0 by move=> i j lij; apply: Hd; rewrite neq_ltn lij orbT.
    have [PD ED] := logdet_triangular (or_intror Hlow) Hpos.
    have AU : Rabs (\det U) = 1%R.
    { have := orth_det_sq HU => H. have Hd' : Rmult (\det U) (\det U) = 1%R by exact: H.
      apply: Rsqr_inj; [exact: Rabs_pos | exact: Rle_0_1 | by rewrite /Rsqr -Rabs_mult Hd' Rabs_R1 Rmult_1_r]. }
    have AV : Rabs (\det V) = 1%R.
    { have := orth_det_sq HV => H. have Hd' : Rmult (\det V) (\det V) = 1%R by exact: H.
      apply: Rsqr_inj; [exact: Rabs_pos | exact: Rle_0_1 | by rewrite /Rsqr -Rabs_mult Hd' Rabs_R1 Rmult_1_r]. }
    rewrite !det_mulmx det_tr.
    have -> : Rabs (\det U * \det D * \det V) = Rmult (Rmult (Rabs (\det U)) (Rabs (\det D))) (Rabs (\det V)).
    { by rewrite -!Rabs_mult. }
    by rewrite AU AV Rmult_1_l Rmult_1_r ED.
  Qed.
End Householder.
